"""C17 — independent oracle: the clauses of the property evaluated directly on the real code.

Nothing here uses the Lean model or `__collect_symbols`. For a model `m` and a rename argument
the *specified* symbol map is built from ALL symbols of all attributes:

    s.name in renames  ->  the unique unrenamed symbol that already has the new name, if there is
                           one (coupling), else Symbol(new name, **s.assumptions0)
    otherwise          ->  s

and the clauses checked on `r = m.rename_symbols(renames)` are

  attributes   every attribute of r is the original with that one map applied (expressions by
               xreplace, dictionary keys by the map), converters' key order included
  untouched    symbols whose name is not renamed are where they were (part of `attributes`)
  assumptions  a renamed symbol keeps its assumptions (fresh target) or is the existing symbol
               — compared as COMPLETE assumptions0 dicts (every True- and False-valued fact) on the symbols
               actually found in the result; the generators stored in the new symbol regenerate them
  closure      C01 still holds for r when it held for m (needs: no parameter identified with a
               kinematic variable)
  original     m is not mutated (deep snapshot before/after), r is a new object for a non-empty map
  unknown      a map that mentions no symbol of the model changes nothing
  coupling     all symbols sent to one name are ONE symbol in the result (whatever their assumptions), and the
               parameter/kinematic-variable keys are exactly the images of the original keys
  numeric      intensity of r on the carried-over values = intensity of m (substitution =
               precomposition of the environment), full chain four-momenta -> kinematic variables
               -> expression, relative 1e-12, re-checked in 40-digit arithmetic before reporting

Preconditions stated by the property design (DESIGN §3 C17 (iii)) are honoured: when the map
identifies two kinematic variables the dictionary can keep only one definition, so `attributes`
for kinematic_variables is relaxed to "each surviving definition is one of the mapped ones" and
`numeric`/`closure` are skipped.
"""

from __future__ import annotations

import math


def symbols_of(e) -> set:
    import sympy as sp

    return {s for s in e.free_symbols if isinstance(s, sp.Symbol)}


def all_symbols(m) -> set:
    import sympy as sp

    out = symbols_of(m.expression)
    for v in [*m.amplitudes.values(), *m.components.values(), *m.kinematic_variables.values()]:
        out |= symbols_of(v)
    out |= {s for s in m.kinematic_variables if isinstance(s, sp.Symbol)}
    out |= {s for s in m.parameter_defaults if isinstance(s, sp.Symbol)}
    return out


def snapshot(m):
    import sympy as sp

    return (
        sp.srepr(m.intensity),
        tuple((sp.srepr(k), sp.srepr(v)) for k, v in m.amplitudes.items()),
        tuple((sp.srepr(k), type(v).__name__, repr(v)) for k, v in m.parameter_defaults.items()),
        tuple((sp.srepr(k), sp.srepr(v)) for k, v in m.kinematic_variables.items()),
        tuple((k, sp.srepr(v)) for k, v in m.components.items()),
    )


def same_model(a, b) -> bool:
    """Attribute-wise equality, key order and value types included (srepr is not used here: equal
    symbols built from `assumptions0` print differently)."""
    def vals(m):
        return [(k, type(v).__name__, repr(v)) for k, v in m.parameter_defaults.items()]
    return (a.intensity == b.intensity and list(a.amplitudes.items()) == list(b.amplitudes.items())
            and vals(a) == vals(b) and list(a.kinematic_variables.items()) == list(b.kinematic_variables.items())
            and list(a.components.items()) == list(b.components.items()) and a.reaction_info == b.reaction_info)


def mixes_commutativity(m, renames: dict) -> bool:
    """Does the map identify a commutative with a non-commutative symbol? SymPy cannot build such a model's expression
    (Abs of the amplitude recurses without end — the same reason a non-commutative coupling cannot be formulated at
    all), so these maps are outside the domain of the property."""
    groups: dict = {}
    for s in all_symbols(m):
        groups.setdefault(renames.get(s.name, s.name), set()).add(bool(s.is_commutative))
    return any(len(g) > 1 for g in groups.values())


def is_canonical(m) -> bool:
    """Every expression of the model is a fixed point of rebuilding it through its constructors."""
    for e in [m.intensity, *m.amplitudes.values(), *m.components.values(), *m.kinematic_variables.values()]:
        if e.xreplace({s: s for s in symbols_of(e)}) != e:
            return False
    return True


def sort_key(s):
    """The documented, deterministic order in which rename_symbols looks through the symbols (c9b6eb9)."""
    return (s.name, str(sorted(s.assumptions0.items())))


def spec_map(m, renames: dict):
    """(map, ambiguous?) — the symbol map the property statement prescribes: symbols whose name is not in the map
    stay; all symbols sent to one name become ONE symbol (coupling) — the unrenamed symbol that already has that
    name if there is one, else a new symbol with the assumptions of the first source; 'first' by `sort_key`, so
    that the result cannot depend on the iteration order of a set."""
    import sympy as sp

    syms = sorted(all_symbols(m), key=sort_key)
    target_of_name: dict = {}
    for s in syms:
        if s.name not in renames:
            target_of_name.setdefault(s.name, s)
    for s in syms:
        if s.name in renames:
            new = renames[s.name]
            if new not in target_of_name:
                target_of_name[new] = sp.Symbol(new, **s.assumptions0)
    mp = {s: (target_of_name[renames[s.name]] if s.name in renames else s) for s in syms}
    return mp, False


def _sorted_ok(names, key):
    ks = [key(n) for n in names]
    return all(not (ks[i + 1] < ks[i]) for i in range(len(ks) - 1))


def c01_holds(m) -> bool:
    import sympy as sp

    free = symbols_of(m.expression)
    pars = {s for s in m.parameter_defaults if isinstance(s, sp.Symbol)}
    kins = set(m.kinematic_variables)
    return free <= (pars | kins) and not (pars & kins)


def check_case(m, renames_arg, rng=None, numeric: bool = True, pickle_check: bool = True) -> tuple[list[dict], dict]:  # noqa: C901, PLR0912, PLR0915
    """Run `m.rename_symbols(renames_arg)` and evaluate the clauses. Returns (failures, facts)."""
    import sympy as sp

    from ampform.helicity.naming import natural_sorting

    fails: list[dict] = []
    facts: dict = {}
    renames = dict(renames_arg)
    if mixes_commutativity(m, renames):
        facts["mixes_commutativity"] = True
        return fails, facts
    before = snapshot(m)
    r = m.rename_symbols(renames_arg)
    facts["result"] = r
    if snapshot(m) != before:
        fails.append({"clause": "original", "what": "rename_symbols mutated the model it was called on"})
    if renames and r is m:
        fails.append({"clause": "original", "what": "a non-empty rename returned the same object"})
    mp, ambiguous = spec_map(m, renames)
    facts["ambiguous"] = ambiguous
    if ambiguous:
        return fails, facts
    if not is_canonical(m):
        # a tree that SymPy's own constructors would rewrite when rebuilt (e.g. Abs(1/c)): which nodes
        # get re-evaluated then depends on which identity pairs the rule contains; outside the domain
        facts["noncanonical"] = True
        return fails, facts
    syms = all_symbols(m)
    changed = {s: t for s, t in mp.items() if s != t}
    facts["renamed"] = len(changed)
    image = {mp[s] for s in syms}
    facts["merged"] = len(syms) - len(image)
    pars = [k for k in m.parameter_defaults if isinstance(k, sp.Symbol)]
    kins = list(m.kinematic_variables)
    kin_inj = len({mp[k] for k in kins}) == len(kins)
    par_kin_clash = bool({mp[p] for p in pars} & {mp[k] for k in kins})
    facts["kin_injective"] = kin_inj
    facts["param_kin_clash"] = par_kin_clash

    def bad(clause, what, **kw):
        fails.append({"clause": clause, "what": what, **{k: str(v)[:400] for k, v in kw.items()}})

    # ---- attributes
    if r.intensity != m.intensity.xreplace(mp):
        bad("attributes", "intensity is not the original with the map applied", got=r.intensity)
    exp_amps = {k: v.xreplace(mp) for k, v in m.amplitudes.items()}
    if dict(r.amplitudes) != exp_amps:
        diff = [str(k) for k in exp_amps if r.amplitudes.get(k) != exp_amps[k]]
        bad("attributes", "amplitudes are not the originals with the map applied", keys=diff[:3])
    if not _sorted_ok([str(k) for k in r.amplitudes], natural_sorting):
        bad("attributes", "amplitudes are not in natural order")
    exp_comp = {k: v.xreplace(mp) for k, v in m.components.items()}
    if dict(r.components) != exp_comp:
        diff = [k for k in exp_comp if r.components.get(k) != exp_comp[k]]
        bad("attributes", "components are not the originals with the map applied", keys=diff[:3])
    if not _sorted_ok(list(r.components), natural_sorting):
        bad("attributes", "components are not in natural order")
    # parameter_defaults: keys by the map, order kept, values carried over
    exp_par_keys = []
    cand_vals: dict = {}
    for k, v in m.parameter_defaults.items():
        nk = mp.get(k, k)
        if nk not in cand_vals:
            exp_par_keys.append(nk)
        cand_vals.setdefault(nk, []).append(v)
    got_par = list(r.parameter_defaults.items())
    if [k for k, _ in got_par] != exp_par_keys:
        bad("attributes", "parameter_defaults keys are not the original keys with the map applied",
            got=[str(k) for k, _ in got_par], expected=[str(k) for k in exp_par_keys])
    else:
        for k, v in got_par:
            if not any(type(v) is type(c) and (v == c or (v != v and c != c)) for c in cand_vals[k]):
                bad("attributes", "parameter value not carried over", key=k, got=v, expected=cand_vals[k])
                break
    # kinematic_variables
    exp_kin: dict = {}
    for k, v in m.kinematic_variables.items():
        exp_kin.setdefault(mp[k], []).append(v.xreplace(mp))
    got_kin = list(r.kinematic_variables.items())
    if {k for k, _ in got_kin} != set(exp_kin) or len(got_kin) != len(exp_kin):
        bad("attributes", "kinematic_variables keys are not the original keys with the map applied",
            got=[str(k) for k, _ in got_kin], expected=[str(k) for k in exp_kin])
    else:
        for k, v in got_kin:
            if v not in exp_kin[k]:
                bad("attributes", "kinematic-variable definition is not the original with the map applied", key=k, got=v)
                break
    if not _sorted_ok([k.name for k, _ in got_kin], natural_sorting):
        bad("attributes", "kinematic_variables are not in natural order")
    if r.reaction_info != m.reaction_info:
        bad("attributes", "reaction_info changed")
    # the derived `expression` property: its free symbols are images of the original's (its value is
    # compared by the numeric clause; structural equality of a derived, re-evaluated tree is not
    # claimed). Assumptions matter to SymPy's constructors (Abs(d*x) -> d*Abs(x) for positive d), so
    # the numeric clause needs every symbol to keep its assumptions.
    asm_preserved = all(s.assumptions0 == t.assumptions0 for s, t in changed.items())
    facts["assumptions_preserved"] = asm_preserved
    # When a symbol changes its declaration (merge onto an existing or a first-source symbol), SymPy may also UNDO a
    # simplification of the original (a term with a factor declared zero vanishes from `expression`; after the merge
    # the factor is an ordinary symbol and the term, with all its symbols, is back): then only "images of the symbols
    # of the whole model" can be claimed.
    fe_m, fe_r = symbols_of(m.expression), symbols_of(r.expression)
    allowed = {mp[s] for s in fe_m} if asm_preserved else image
    if not fe_r <= allowed or (facts["merged"] == 0 and asm_preserved and fe_r != {mp[s] for s in fe_m}):
        bad("attributes", "free symbols of the renamed model's expression are not the images of the original's",
            got=sorted(str(s) for s in fe_r), expected=sorted(str(mp[s]) for s in fe_m))

    # ---- names: every symbol of the result is the image of an original symbol; without merges
    # (a bijective renaming cannot cancel anything) the images are all there
    res_syms = all_symbols(r)
    if not res_syms <= image or (facts["merged"] == 0 and res_syms != image):
        extra = sorted(str(s) for s in res_syms - image)
        missing = sorted(str(s) for s in image - res_syms)
        bad("attributes", "symbols of the result are not the images of the original symbols", extra=extra, missing=missing)

    # ---- assumptions
    for s, t in changed.items():
        fresh = renames[s.name] not in {u.name for u in syms if u.name not in renames}
        alone = sum(1 for u in syms if u.name in renames and renames[u.name] == renames[s.name]) == 1
        if fresh and alone and t.assumptions0 != s.assumptions0:
            bad("assumptions", "renamed symbol lost its assumptions", symbol=s)
    for s in res_syms & set(changed.values()):
        src = [u for u, t in changed.items() if t == s]
        if s not in syms and all(s.assumptions0 != u.assumptions0 for u in src):
            bad("assumptions", "fresh symbol does not carry the assumptions of a source", symbol=s)
    # the symbols actually found in the result (not the specified ones): every fact of the source, True- or False-valued,
    # is a fact of the fresh symbol and vice versa — compared as complete dicts, and through the generators the symbol
    # was created from (what pickling stores): Symbol(name, **generators) has the source's assumptions0 again
    by_name_r: dict = {}
    for u in res_syms | set(r.parameter_defaults) | set(r.kinematic_variables):
        if isinstance(u, sp.Symbol):
            by_name_r.setdefault(u.name, set()).add(u)
    for s, t in changed.items():
        fresh = renames[s.name] not in {u.name for u in syms if u.name not in renames}
        alone = sum(1 for u in syms if u.name in renames and renames[u.name] == renames[s.name]) == 1
        if not (fresh and alone):
            continue
        for u in by_name_r.get(renames[s.name], ()):
            lost = {k: v for k, v in s.assumptions0.items() if u.assumptions0.get(k) != v}
            gained = {k: v for k, v in u.assumptions0.items() if k not in s.assumptions0}
            if lost or gained:
                bad("assumptions", "renamed symbol does not have exactly the assumptions of its source", symbol=s,
                    lost=lost, gained=gained)
                break
            gen = getattr(u, "_assumptions_orig", None)
            if gen is not None and sp.Symbol(u.name, **gen).assumptions0 != s.assumptions0:
                bad("assumptions", "the generators stored in the renamed symbol do not regenerate the assumptions of its source",
                    symbol=s, generators=gen)
                break

    # ---- closure (C01)
    if c01_holds(m) and not par_kin_clash:
        if not c01_holds(r):
            bad("closure", "C01 holds for the original but not for the renamed model",
                free=sorted(str(s) for s in symbols_of(r.expression) - set(r.parameter_defaults) - set(r.kinematic_variables)))

    # ---- unknown names
    if not changed:
        if not same_model(r, m):
            bad("unknown", "a map that renames no symbol of the model changed it")

    # ---- coupling (dictionary keys cannot cancel, so they are counted exactly)
    merged_groups: dict = {}
    for s in syms:
        merged_groups.setdefault(mp[s], []).append(s)
    key_syms_r = set(r.parameter_defaults) | set(r.kinematic_variables)
    for t, group in merged_groups.items():
        if len(group) > 1:
            # every symbol sent to that name is this one symbol: the result has no second symbol of the name
            # unless the original had (two unrenamed symbols may share a name)
            only_group = sum(1 for t2 in merged_groups if t2.name == t.name) == 1
            n = [u for u in (res_syms | key_syms_r) if u.name == t.name]
            if only_group and len(n) > 1:
                bad("coupling", "merged symbols are not one symbol in the result", name=t.name, found=n)
    key_syms_m = set(pars) | set(kins)
    if key_syms_r != {mp[s] for s in key_syms_m}:
        bad("coupling", "parameter/kinematic-variable keys of the result are not exactly the images of the original keys",
            got=sorted(str(s) for s in key_syms_r), expected=sorted(str(mp[s]) for s in key_syms_m))

    # ---- api / round trips
    fails.extend(api_clause(m, r, renames, changed, do_pickle=pickle_check))

    # ---- numeric
    if numeric and rng is not None and kin_inj and not par_kin_clash and asm_preserved and not fails:
        try:
            res = numeric_clause(m, r, mp, rng)
        except _SkipNumeric as e:
            facts["numeric"] = f"skipped: {e}"
        else:
            facts["numeric"] = res.get("status")
            if res.get("fail"):
                bad("numeric", "intensity of the renamed model on the carried-over values differs", **res["fail"])
    return fails, facts


class _SkipNumeric(Exception):
    pass


class _time_cap:  # noqa: N801
    """Wall-clock cap for one high-precision evaluation (main thread only; a no-op elsewhere)."""

    def __init__(self, seconds: int):
        self.seconds = seconds
        self.armed = False

    def _fire(self, *_):
        raise TimeoutError("high-precision evaluation exceeded its time cap")

    def __enter__(self):
        import signal
        import threading

        if threading.current_thread() is threading.main_thread():
            self.old = signal.signal(signal.SIGALRM, self._fire)
            signal.alarm(self.seconds)
            self.armed = True
        return self

    def __exit__(self, *exc):
        import signal

        if self.armed:
            signal.alarm(0)
            signal.signal(signal.SIGALRM, self.old)
        return False


def api_clause(m, r, renames: dict, changed: dict, do_pickle: bool = True) -> list[dict]:
    """Round-trip clause (HARDENING rule 8): the result is a HelicityModel of the same shape whose containers
    behave like the original's — field types, reaction_info, ParameterValues lookup by symbol / name / index,
    iteration, assignment, pickling."""
    import pickle

    out = []

    def bad(what, **kw):
        out.append({"clause": "api", "what": what, **{k: str(v)[:300] for k, v in kw.items()}})

    if type(r) is not type(m):
        bad("result is not of the class of the original", got=type(r).__name__)
    for f in ("intensity", "amplitudes", "parameter_defaults", "kinematic_variables", "components", "reaction_info"):
        if type(getattr(r, f)) is not type(getattr(m, f)):
            bad(f"type of attribute {f} changed", got=type(getattr(r, f)).__name__, expected=type(getattr(m, f)).__name__)
    if r.reaction_info != m.reaction_info:
        bad("reaction_info changed")
    for k in r.amplitudes:
        if type(k) is not type(next(iter(m.amplitudes))):
            bad("type of an amplitude key changed", key=k)
            break
    pd = r.parameter_defaults
    items = list(pd.items())
    names = [str(k) for k, _ in items]
    if len(pd) != len(items) or list(pd) != [k for k, _ in items] or list(pd.keys()) != [k for k, _ in items] \
            or [repr(v) for v in pd.values()] != [repr(v) for _, v in items]:
        bad("ParameterValues iteration is inconsistent (len / iter / keys / values / items)")
    for i, (k, v) in enumerate(items):
        try:
            by_sym, by_idx = pd[k], pd[i]
            by_name = pd[str(k)]
        except KeyError as e:
            bad("ParameterValues lookup of an existing key raised KeyError", key=k, error=e)
            break
        first = items[names.index(str(k))][1]
        if repr(by_sym) != repr(v) or repr(by_idx) != repr(v) or repr(by_name) != repr(first):
            bad("ParameterValues lookup by symbol / index / name disagrees with items()", key=k,
                got=(by_sym, by_idx, by_name), expected=(v, v, first))
            break
        pd[k] = v  # assignment of the same value through the public setter must be accepted and change nothing
        if repr(pd[i]) != repr(v):
            bad("ParameterValues assignment by symbol changed another entry", key=k)
            break
    if [repr(x) for x in pd.items()] != [repr(x) for x in items]:
        bad("ParameterValues changed by re-assigning its own values")
    # a renamed parameter is no longer found under its old name/symbol (unless that is a target as well)
    new_names = {str(k) for k in pd}
    for s in changed:
        if s in m.parameter_defaults and s.name not in new_names:
            for key in (s, s.name):
                try:
                    pd[key]
                except KeyError:
                    continue
                bad("renamed parameter is still found under its old key", key=key)
    # the original still answers under the old names
    for k, v in m.parameter_defaults.items():
        try:
            if repr(m.parameter_defaults[k]) != repr(v):
                bad("original ParameterValues lookup changed", key=k)
        except KeyError:
            bad("original ParameterValues lost a key", key=k)
    # unpickling a SymPy tree rebuilds it through its constructors; that is the identity only on trees that are
    # fixed points of rebuilding. A merge can leave e.g. Abs(1/x)**2 (x real) unevaluated inside a product that
    # xreplace rebuilt only partially; whether pickle then normalises it is a matter of SymPy (C15), not of rename
    if do_pickle and is_canonical(r):
        try:
            r2 = pickle.loads(pickle.dumps(r))
        except Exception as e:  # noqa: BLE001
            bad("renamed model cannot be pickled", error=f"{type(e).__name__}: {e}")
        else:
            if not same_model(r2, r) or type(r2) is not type(r):
                bad("pickle round trip of the renamed model is not the identity")
    return out


def _momenta(rng, n_events):
    import numpy as np

    p = np.array([[rng.uniform(-1.5, 1.5) for _ in range(3)] for _ in range(n_events)])
    mass = rng.choice([0.0, 0.14, 0.5, 0.94])
    e = np.sqrt(mass**2 + (p**2).sum(axis=1))
    return np.column_stack([e, p])


_COMPILED: dict = {}  # id(model) -> (model, compiled functions); the models of a run are kept alive by the harness


def _compiled(m):
    """Unfolded and lambdified kinematic-variable definitions and expression of a model (cached per object:
    the first steps of all histories of one model evaluate the same original)."""
    import sympy as sp

    hit = _COMPILED.get(id(m))
    if hit is not None and hit[0] is m:
        return hit[1]
    kin = []
    for k, v in m.kinematic_variables.items():
        vv = v.doit()
        args = sorted(symbols_of(vv), key=lambda s: (s.name, str(sorted(s.assumptions0.items()))))
        # array symbols are printed by name: give everything identifier-safe names first (definitions of
        # aligned models also contain mass parameters)
        safe = {a: sp.Symbol(f"mom{i}") for i, a in enumerate(args)}
        kin.append((k, args, sp.lambdify([safe[a] for a in args], vv.xreplace(safe), "numpy", cse=True)))
    expr = m.expression.doit()
    eargs = sorted(symbols_of(expr), key=lambda s: (s.name, str(sorted(s.assumptions0.items()))))
    f = sp.lambdify(eargs, expr, "numpy", cse=True, dummify=True)
    if len(_COMPILED) > 64:
        _COMPILED.clear()
    _COMPILED[id(m)] = (m, (kin, expr, eargs, f))
    return kin, expr, eargs, f


def _evaluate(m, param_values: dict, data: dict, n_events: int):
    """Full chain: data (momentum symbol -> array) -> kinematic variables -> expression."""
    import numpy as np

    kin, expr, args, f = _compiled(m)
    kin_vals = {}
    with np.errstate(all="ignore"):
        for k, kargs, kf in kin:
            missing = [a for a in kargs if a not in data and a not in param_values]
            if missing:
                raise _SkipNumeric(f"kinematic variable {k} depends on {missing}")
            kin_vals[k] = np.asarray(kf(*[data[a] if a in data else complex(param_values[a]) for a in kargs])) * np.ones(n_events)
        vals = []
        for a in args:
            if a in kin_vals:
                vals.append(kin_vals[a])
            elif a in param_values:
                vals.append(complex(param_values[a]))
            else:
                raise _SkipNumeric(f"{a} is neither parameter nor kinematic variable")
        out = np.asarray(f(*vals), dtype=complex) * np.ones(n_events)
    return out, kin_vals, expr, args


def _violates_assumptions(sym, value) -> bool:
    """Does a numeric value (scalar or array) contradict the assumptions of the symbol it is given to?"""
    import numpy as np

    v = np.atleast_1d(np.asarray(value, dtype=complex))
    if not np.all(np.isfinite(v)):
        return True
    if sym.is_extended_real or sym.is_real:
        if np.any(np.abs(v.imag) > 1e-13 * np.maximum(1.0, np.abs(v.real))):
            return True
        if sym.is_positive and np.any(v.real <= 0):
            return True
        if sym.is_nonnegative and np.any(v.real < 0):
            return True
        if sym.is_negative and np.any(v.real >= 0):
            return True
    # declarations the library does not make (zero=False, integer=True, real=False, …): every fact against every value
    if _exotic(sym):
        import sympy as sp

        for x in v.tolist():
            z = sp.sympify(x.real if x.imag == 0 else x)
            for fact, want in sym.assumptions0.items():
                if fact == "commutative":
                    continue
                got = getattr(z, "is_" + fact, None)
                if got is not None and got != want:
                    return True
    return False


_PLAIN: set = set()


def _exotic(sym) -> bool:
    import sympy as sp

    if not _PLAIN:
        for kw in ({}, {"real": True}, {"positive": True}, {"nonnegative": True}, {"complex": True}, {"rational": True}):
            _PLAIN.add(tuple(sorted(sp.Symbol("x", **kw).assumptions0.items())))
    return tuple(sorted(sym.assumptions0.items())) not in _PLAIN


def numeric_clause(m, r, mp, rng, n_events: int = 4) -> dict:
    import numpy as np
    import sympy as sp

    # data for the renamed model first; the original sees it through the map (precomposition)
    mom_r = set()
    for v in r.kinematic_variables.values():
        mom_r |= symbols_of(v.doit())
    mom_r -= set(r.parameter_defaults)
    data_r = {s: _momenta(rng, n_events) for s in sorted(mom_r, key=lambda s: s.name)}
    mom_m = set()
    for v in m.kinematic_variables.values():
        mom_m |= symbols_of(v.doit())
    mom_m -= set(m.parameter_defaults)
    data_m = {}
    for s in mom_m:
        if mp.get(s, s) not in data_r:
            raise _SkipNumeric(f"image of {s} carries no data")
        data_m[s] = data_r[mp.get(s, s)]
    par_r = {k: v for k, v in r.parameter_defaults.items()}
    par_m = {}
    for k in m.parameter_defaults:
        if mp.get(k, k) not in par_r:
            raise _SkipNumeric("parameter image missing")
        par_m[k] = par_r[mp.get(k, k)]  # the carried-over value
    try:
        out_r, kin_r, expr_r, args_r = _evaluate(r, par_r, data_r, n_events)
        out_m, kin_m, expr_m, args_m = _evaluate(m, par_m, data_m, n_events)
    except _SkipNumeric:
        raise
    except Exception as e:  # noqa: BLE001  numpy/lambdify cannot evaluate this expression (e.g. arctan2 of complex)
        raise _SkipNumeric(f"not evaluable with numpy: {type(e).__name__}") from e
    # A MERGING map lets SymPy combine terms that became equal (Abs(a*k)*Abs(b*k) -> (z*k)**2 for real z, k); such
    # rewrites are identities only on values that satisfy the symbols' assumptions. A default value or a computed
    # kinematic variable that contradicts the assumptions of its symbol (a complex default for a `real` symbol, an
    # imaginary invariant mass) therefore legitimately changes the merged intensity: outside the clause. Injective
    # maps give isomorphic trees and need no such precondition.
    if len({mp[s] for s in mp}) < len(mp):
        for sym_, val in [*par_m.items(), *par_r.items(), *kin_m.items(), *kin_r.items()]:
            if _violates_assumptions(sym_, val):
                raise _SkipNumeric(f"merge, and the value of {sym_} contradicts its assumptions")
    # kinematic variables first
    for k, v in kin_m.items():
        w = kin_r.get(mp[k])
        if w is None:
            return {"fail": {"what": f"kinematic variable {mp[k]} missing"}}
        ok = np.isfinite(v) & np.isfinite(w)
        if np.any(np.abs(v[ok] - w[ok]) > 1e-12 * np.maximum(1.0, np.abs(v[ok]))):
            return {"fail": {"kinematic_variable": k, "original": v.tolist(), "renamed": w.tolist()}}
    ok = np.isfinite(out_m) & np.isfinite(out_r)
    if not np.any(ok):
        return {"status": "no finite point"}
    scale = np.maximum(np.abs(out_m[ok]), np.abs(out_r[ok]))
    dev = np.abs(out_m[ok] - out_r[ok])
    if np.all(dev <= 1e-12 * np.maximum(scale, 1e-300)):
        return {"status": "agree", "points": int(ok.sum())}
    # re-check the deviating points in 40-digit arithmetic before calling it a failure
    idx = [i for i in np.flatnonzero(ok) if abs(out_m[i] - out_r[i]) > 1e-12 * max(abs(out_m[i]), abs(out_r[i]), 1e-300)]
    for i in idx:
        def hp(expr, args, kin_vals, pars):
            # exact rational inputs (the float64 values as they are): evalf then raises its working precision until
            # 40 digits of the RESULT are right, whatever cancels on the way (defaults like 1e-300 next to 10**20
            # need hundreds of digits); with Float inputs the precision would be fixed and the order of an Add matter
            def exact(z):
                z = complex(z)
                return sp.Rational(z.real) + sp.I * sp.Rational(z.imag) if z.imag else sp.Rational(z.real)
            sub = {a: exact(kin_vals[a][i]) if a in kin_vals else exact(pars[a]) for a in args}
            return complex(sp.N(expr.xreplace(sub), 40, maxn=2000))
        try:
            with _time_cap(30):
                a = hp(expr_m, args_m, kin_m, par_m)
                b = hp(expr_r, args_r, kin_r, par_r)
        except Exception:  # noqa: BLE001  not evaluable (zoo, overflow) or not within the time cap: no verdict on this point
            continue
        if not (math.isfinite(abs(a)) and math.isfinite(abs(b))):
            continue
        if abs(a - b) > 1e-12 * max(abs(a), abs(b), 1e-300):
            return {"fail": {"point": int(i), "original": a, "renamed": b,
                             "data": {str(k): v[i].tolist() for k, v in data_r.items()}}}
    return {"status": "agree (ill-conditioned points re-checked in 40 digits)", "points": int(ok.sum())}
