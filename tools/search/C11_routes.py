"""C11 — the clauses of the statement through EVERY generated-code route (round 7).

C11 speaks about the VALUES of the phase-space functions "at every s"; the library offers several
evaluation routes and each has its own printer hooks (`ComplexSqrt._numpycode` / `_pythoncode`,
sympy's Piecewise/Abs/log printers). For every public class and every INSTANTIATION

  symbolic X(s, m1, m2) | equal-symbol X(s, m, m) | zero-symbol X(s, m1, 0) | numbers before doit
  (Float, and exact Rational for dyadic masses) | numbers substituted after doit |
  compound s = s1 + s2 | compound masses m = ma + mb (also equal compound masses)

the unfolded expression is evaluated through every ROUTE

  lambdify "numpy" (cse off/on) on python floats, complex s, float64 arrays, complex128 arrays |
  lambdify "math" (cse off/on) on python floats, ints (integral values), complex s |
  exec of `sympy.pycode` | subs + evalf | xreplace + N

and (a) `route_tie`: compared with the Lean Float/CF twin of the regenerated definition at the same
(s, m1, m2) — so the MODEL and the CODE are compared on every route, not only on numpy complex128;
(b) `routes_oracle`: the clauses of C11 are judged on the values of each route against independently
computed textbook numbers: Re rho_X = 2q/sqrt(s) above threshold (five variants), rho_complex =
i*rho_abs between the thresholds, rho_eq = rho_CM for equal masses on the whole axis, q² symmetric
with exact zeros at (m1±m2)².

A route may legitimately be unavailable (math.sqrt of a negative float, math.log of a complex, numpy
sqrt of a negative float64 = nan): `corpus/C11/route_support.json` lists the (class, instantiation
kind, route, region) combinations that evaluate to a finite value on the tree the check was built on;
a listed combination that raises / is not finite any more is a failing input ("at every s").
"""

from __future__ import annotations

import cmath
import json
import math
import signal
from contextlib import contextmanager
from pathlib import Path

SUPPORT_FILE = Path(__file__).resolve().parents[2] / "corpus" / "C11" / "route_support.json"

RHO = ["PhaseSpaceFactor", "PhaseSpaceFactorAbs", "PhaseSpaceFactorComplex", "PhaseSpaceFactorSWave",
       "EqualMassPhaseSpaceFactor"]
ALL = ["BreakupMomentumSquared", *RHO]


class CaseTimeout(Exception):
    pass


@contextmanager
def time_cap(seconds: int):
    def handler(signum, frame):  # noqa: ARG001
        raise CaseTimeout

    old = signal.signal(signal.SIGALRM, handler)
    signal.alarm(seconds)
    try:
        yield
    finally:
        signal.alarm(0)
        signal.signal(signal.SIGALRM, old)


def _fin(z) -> bool:
    return z is not None and cmath.isfinite(z)


def _dyadic(x: float) -> bool:
    return float(x * 64).is_integer()


# ------------------------------------------------------------------------------ instantiations


def instantiations(name, a, b, fixed_numbers: bool):
    """[(kind, expr_after_doit, symbols, values(s)->list)] of class `name` for the masses (a, b)."""
    import sympy as sp

    from ampform.dynamics import phasespace as ps

    cls = getattr(ps, name)
    s, s1, s2, m, m1, m2, ma, mb = sp.symbols("s s1 s2 m m1 m2 ma mb", real=True)
    out = [("symbolic", cls(s, m1, m2), [s, m1, m2], lambda sv: [sv, a, b]),
           ("compound-s", cls(s1 + s2, m1, m2), [s1, s2, m1, m2], lambda sv: [sv * 0.25, sv * 0.75, a, b]),
           ("compound-m1", cls(s, ma + mb, m2), [s, ma, mb, m2], lambda sv: [sv, a * 0.5, a * 0.5, b])]
    if a == b:
        out += [("equal-symbol", cls(s, m, m), [s, m], lambda sv: [sv, a]),
                ("equal-compound", cls(s1 + s2, ma + mb, ma + mb), [s1, s2, ma, mb], lambda sv: [sv * 0.25, sv * 0.75, a * 0.5, a * 0.5])]
    if b == 0:
        out.append(("zero-symbol", cls(s, m1, 0), [s, m1], lambda sv: [sv, a]))
    if a == 0 and b == 0:
        out.append(("zero-zero", cls(s, 0, 0), [s], lambda sv: [sv]))
    if fixed_numbers:
        out.append(("float-before-doit", cls(s, sp.Float(a), sp.Float(b)), [s], lambda sv: [sv]))
        out.append(("float-after-doit", cls(s, m1, m2).doit().xreplace({m1: sp.Float(a), m2: sp.Float(b)}), [s], lambda sv: [sv]))
        if _dyadic(a) and _dyadic(b):
            ra, rb = sp.Rational(a), sp.Rational(b)
            out.append(("rational-before-doit", cls(s, ra, rb), [s], lambda sv: [sv]))
            out.append(("rational-after-doit", cls(s, m1, m2).doit().xreplace({m1: ra, m2: rb}), [s], lambda sv: [sv]))
    return [(k, e.doit(), syms, vals) for k, e, syms, vals in out]


# ------------------------------------------------------------------------------ routes


class Routes:
    """All generated-code routes of one unfolded expression (built once, evaluated at many points)."""

    def __init__(self, expr, syms):
        import sympy as sp

        self.expr, self.syms = expr, syms
        self.fn = {}
        self.build_errors = {}
        for mod in ("numpy", "math"):
            for cse in (False, True):
                try:
                    with time_cap(30):
                        self.fn[(mod, cse)] = sp.lambdify(syms, expr, mod, cse=cse)
                except CaseTimeout:
                    raise
                except Exception as e:  # noqa: BLE001
                    self.build_errors[f"{mod}/cse={cse}"] = repr(e)[:200]
        try:
            self.pycode = sp.pycode(expr, fully_qualified_modules=False)
        except Exception as e:  # noqa: BLE001
            self.pycode = None
            self.build_errors["pycode"] = repr(e)[:200]

    def values(self, vals, with_subs=True):  # noqa: C901, PLR0912
        """{route: complex | None (raised / not a number)}; `vals[0]` is s (or s1 with vals[1] = s2)."""
        import numpy as np
        import sympy as sp

        out = {}
        n_s = 2 if str(self.syms[0]) == "s1" else 1

        def cplx(v):
            return [complex(x) if i < n_s else x for i, x in enumerate(v)]

        def run(key, f, args, pick=None):
            try:
                with np.errstate(all="ignore"):
                    r = f(*args)
                if pick is not None:
                    r = np.asarray(r)
                    r = r.reshape(-1)[pick] if r.ndim else r[()]
                out[key] = complex(r)
            except (ValueError, TypeError, ZeroDivisionError, OverflowError, AttributeError, NameError) as e:
                out[key] = None
                out.setdefault("_errors", {})[key] = type(e).__name__
        for cse in (False, True):
            f = self.fn.get(("numpy", cse))
            if f is not None:
                run(f"numpy/cse={cse}/float", f, list(vals))
                run(f"numpy/cse={cse}/complex-s", f, cplx(vals))
                arr = [np.array([x, x]) if i < n_s else x for i, x in enumerate(vals)]
                run(f"numpy/cse={cse}/float64-array", f, arr, pick=1)
                carr = [np.array([x, x], dtype=complex) if i < n_s else x for i, x in enumerate(vals)]
                run(f"numpy/cse={cse}/complex128-array", f, carr, pick=1)
            f = self.fn.get(("math", cse))
            if f is not None:
                run(f"math/cse={cse}/float", f, list(vals))
                run(f"math/cse={cse}/complex-s", f, cplx(vals))
                if all(float(x).is_integer() for x in vals):
                    run(f"math/cse={cse}/int", f, [int(x) for x in vals])
        if self.pycode is not None:
            ns = {"math": math, "cmath": cmath, "csqrt": cmath.sqrt}
            ns.update({k: getattr(math, k) for k in ("sqrt", "log", "atan", "pi", "fabs", "exp")})
            ns.update({str(q): v for q, v in zip(self.syms, vals)})
            run("pycode-exec/float", lambda: eval(self.pycode, ns), [])  # noqa: S307
        if with_subs:
            def subs_route():
                v = self.expr.subs(dict(zip(self.syms, [sp.Float(x) for x in vals]))).evalf()
                if v.has(sp.nan, sp.zoo, sp.oo) or v.free_symbols:
                    raise ValueError("nan")
                return complex(v)

            def xr_route():
                from ampform.sympy.math import ComplexSqrt

                e = self.expr.xreplace(dict(zip(self.syms, [sp.Float(x) for x in vals])))
                e = e.replace(lambda q: isinstance(q, ComplexSqrt), lambda q: q.get_definition())
                v = sp.N(e, 20)
                if v.has(sp.nan, sp.zoo, sp.oo) or v.free_symbols:
                    raise ValueError("nan")
                return complex(v)
            run("subs+evalf", subs_route, [])
            run("xreplace+N", xr_route, [])
        return out


# ------------------------------------------------------------------------------ points


def mass_pairs(rng):
    """(a, b, fixed_numbers): equal, unequal, dyadic, zero masses; numeric instantiations on a fixed subset."""
    m = round(rng.uniform(0.2, 1.5), 3)
    return [(0.5, 0.5, True), (0.75, 0.25, True), (0.3, 0.7, True), (1.5, 1.5, False), (0.6, 0.0, True),
            (0.0, 0.0, False), (1.0, 1.0, False), (2.0, 1.0, False), (m, m, False), (round(rng.uniform(0.2, 1.5), 3), round(rng.uniform(0.2, 1.5), 3), False)]


def s_points(rng, a, b):
    thr, pthr = (a + b) ** 2, (a - b) ** 2
    base = thr if thr > 0 else 1.0
    pts = [("neg", -base * rng.choice([0.5, 1.0, 2.0])), ("neg", -base * rng.uniform(0.1, 5.0)),
           ("above", base * 1.5 if thr > 0 else 1.0), ("above", base * (1 + rng.uniform(0.1, 6.0))),
           ("above", float(math.ceil(thr)) + 1.0)]
    if thr > pthr:
        pts += [("between", pthr + 0.5 * (thr - pthr)), ("between", pthr + rng.uniform(0.1, 0.9) * (thr - pthr))]
    if pthr > 0:
        pts += [("below", pthr * rng.uniform(0.2, 0.8))]
    return pts


def textbook(name, sv, a, b):
    """independent expectation of the clauses (python floats, textbook formula); None where C11 says nothing."""
    thr, pthr = (a + b) ** 2, (a - b) ** 2
    q2 = (sv - thr) * (sv - pthr) / (4 * sv)
    if name == "BreakupMomentumSquared":
        return {"value": complex(q2)}
    if sv > thr:
        return {"real": 2 * math.sqrt(q2) / math.sqrt(sv)}
    if pthr < sv < thr and sv > 0:
        if name == "PhaseSpaceFactorComplex":
            return {"value": 1j * 2 * math.sqrt(-q2) / math.sqrt(sv)}
        if name == "PhaseSpaceFactorAbs":
            return {"value": complex(2 * math.sqrt(-q2) / math.sqrt(sv))}
    return None


# ------------------------------------------------------------------------------ the sweep


def sweep(rng, tier: str):
    """-> records [{name, kind, region, s, a, b, values{route: complex|None}, errors{}}], build problems."""
    records, problems = [], []
    cache = {}
    for a, b, fixed in mass_pairs(rng):
        pts = s_points(rng, a, b)
        for name in ALL:
            try:
                with time_cap(60):
                    insts = instantiations(name, a, b, fixed)
            except CaseTimeout:
                problems.append({"what": f"{name}: instantiation/doit does not terminate within 60 s", "m1": a, "m2": b})
                continue
            except (ZeroDivisionError, ValueError, TypeError) as e:
                # zero masses: log(m1/m2) etc. may be undefined already symbolically
                problems.append({"note": f"{name}({a},{b}) cannot be instantiated: {type(e).__name__}"})
                continue
            for kind, expr, syms, vals in insts:
                key = (name, kind) if kind in ("symbolic", "compound-s", "compound-m1", "equal-symbol", "equal-compound", "zero-symbol", "zero-zero") else (name, kind, a, b)
                if key not in cache:
                    try:
                        cache[key] = Routes(expr, syms)
                    except CaseTimeout:
                        problems.append({"what": f"{name} ({kind}): lambdify does not terminate within 30 s", "m1": a, "m2": b})
                        continue
                routes = cache[key]
                for j, (region, sv) in enumerate(pts):
                    v = routes.values(vals(sv), with_subs=(tier == "thorough" or j % 3 == 0))
                    errs = v.pop("_errors", {})
                    records.append({"name": name, "kind": kind, "region": region, "s": sv, "a": a, "b": b,
                                    "values": v, "errors": errs, "build_errors": routes.build_errors,
                                    "pycode": routes.pycode if kind.startswith("equal") else None})
    return records, problems


def support_key(r, route):
    zero = "zero" if (r["a"] == 0 or r["b"] == 0) else "equal" if r["a"] == r["b"] else "unequal"
    return f"{r['name']}|{r['kind']}|{zero}|{route}|{r['region']}"


def load_support():
    if SUPPORT_FILE.exists():
        return set(json.loads(SUPPORT_FILE.read_text())["finite"])
    return None


# ------------------------------------------------------------------------------ (a) tie: Lean twin vs every route


def route_tie(chk, records, lean_values, tol=1e-9):
    """`lean_values[(name, s, a, b)]` = value of the Lean Float/CF twin of the regenerated definition."""
    n = mism = 0
    for r in records:
        lv = lean_values.get((r["name"], r["s"], r["a"], r["b"]))
        if not _fin(lv):
            continue
        if r["name"] == "PhaseSpaceFactor" and r["s"] < 0:
            continue  # sign of a zero imaginary part decides numpy's value there (MANIFEST level_note)
        for route, v in r["values"].items():
            if not _fin(v):
                continue
            if r["s"] < 0 and ("complex" in route) and r["kind"] != "symbolic":
                continue  # -(x+0j) = -x-0j: IEEE signed zero under the root, not a printing matter
            n += 1
            chk.count(("route-tie", r["name"], r["kind"], route, r["region"], r["a"], r["b"]))
            if abs(lv - v) > tol * max(1.0, abs(lv), abs(v)):
                mism += 1
                if mism <= 3:
                    chk.broken_correspondence("route-tie", {
                        "definition": r["name"], "instantiation": r["kind"], "route": route, "s": r["s"], "m1": r["a"], "m2": r["b"],
                        "lean_twin": [lv.real, lv.imag], "code": [v.real, v.imag]})
    return {"compared": n, "mismatches": mism}


# ------------------------------------------------------------------------------ (b) oracle: clauses per route


def routes_oracle(chk, records, problems):  # noqa: C901, PLR0912
    bad = [p for p in problems if "what" in p]
    support = load_support()
    seen_support = set()
    n = 0

    def fail(what, r, route, **kw):
        bad.append({"what": what, "definition": r["name"], "instantiation": r["kind"], "route": route, "region": r["region"],
                    "s": r["s"], "m1": r["a"], "m2": r["b"], **{k: str(v) for k, v in kw.items()}})

    by_point = {}
    for r in records:
        by_point[(r["name"], r["kind"], r["s"], r["a"], r["b"])] = r
        exp = textbook(r["name"], r["s"], r["a"], r["b"])
        for route, v in r["values"].items():
            key = support_key(r, route)
            if _fin(v):
                seen_support.add(key)
            elif support is not None and key in support:
                fail(f"{r['name']} cannot be evaluated (raises / not finite) through a generated-code route on which it has a value",
                     r, route, error=r["errors"].get(route, "not finite"))
            if not _fin(v) or exp is None:
                continue
            n += 1
            chk.count(("route-clause", r["name"], r["kind"], route, r["region"], r["a"], r["b"]))
            if "real" in exp and abs(v.real - exp["real"]) > 1e-9 * max(1.0, abs(exp["real"])):
                fail(f"Re {r['name']} != 2q/sqrt(s) above threshold (route other than numpy complex128 / instantiated masses)", r, route,
                     value=v, expected_real_part=exp["real"])
            if "value" in exp and abs(v - exp["value"]) > 1e-9 * max(1.0, abs(exp["value"])):
                what = ("q² differs from (s-(m1+m2)²)(s-(m1-m2)²)/(4s) on a generated-code route" if r["name"] == "BreakupMomentumSquared"
                        else "rho_complex != i*rho_abs between pseudo-threshold and threshold (generated-code route / instantiated masses)")
                fail(what, r, route, value=v, expected=exp["value"])
    # pairwise clauses on ONE route: rho_complex = i rho_abs; rho_eq = rho_CM (equal masses, whole axis); q² symmetric
    for (name, kind, sv, a, b), r in by_point.items():
        if name == "PhaseSpaceFactorComplex" and r["region"] == "between":
            other = by_point.get(("PhaseSpaceFactorAbs", kind, sv, a, b))
            for route, v in r["values"].items():
                w = other["values"].get(route) if other else None
                if _fin(v) and _fin(w):
                    n += 1
                    if abs(v - 1j * w) > 1e-9 * max(1.0, abs(w)):
                        fail("rho_complex != i*rho_abs between pseudo-threshold and threshold (generated-code route / instantiated masses)", r, route,
                             rho_complex=v, rho_abs=w)
        if name == "EqualMassPhaseSpaceFactor" and a == b and a > 0:
            other = by_point.get(("PhaseSpaceFactorSWave", kind, sv, a, b))
            for route, v in r["values"].items():
                w = other["values"].get(route) if other else None
                if _fin(v) and _fin(w):
                    if sv < 0 and "complex" in route and kind != "symbolic":
                        continue
                    n += 1
                    chk.count(("route-eq-cm", kind, route, r["region"], a))
                    if abs(v - w) > 1e-9 * max(1.0, abs(w), abs(sv) / (a * a)):
                        fail("equal masses: EqualMassPhaseSpaceFactor != PhaseSpaceFactorSWave (generated-code route / instantiated masses)", r, route,
                             rho_eq=v, rho_CM=w)
    return bad, {"clause_evaluations": n, "finite_route_combinations": len(seen_support),
                 "listed_supported_combinations": None if support is None else len(support)}, seen_support


def exact_zero_cases():
    """q² is EXACTLY 0 at (m1±m2)² through the float routes for dyadic masses (every factor is exact)."""
    import sympy as sp

    from ampform.dynamics import phasespace as ps

    bad = []
    s, m, m1, m2 = sp.symbols("s m m1 m2", real=True)
    for expr, syms, a, b in [(ps.BreakupMomentumSquared(s, m1, m2), [s, m1, m2], 0.75, 0.25),
                             (ps.BreakupMomentumSquared(s, m, m), [s, m], 1.5, 1.5),
                             (ps.BreakupMomentumSquared(s, sp.Rational(3, 4), sp.Rational(1, 4)), [s], 0.75, 0.25),
                             (ps.BreakupMomentumSquared(s, sp.Rational(3, 2), sp.Rational(3, 2)), [s], 1.5, 1.5)]:
        e = expr.doit()
        for sv in {(a + b) ** 2, (a - b) ** 2} - {0.0}:
            vals = [sv, a, b][: len(syms)] if len(syms) != 2 else [sv, a]
            for route, v in Routes(e, syms).values(vals).items():
                if route != "_errors" and v is not None and v != 0 and not (len(syms) == 2 and sv == 0):
                    bad.append({"what": "q² does not vanish exactly at (m1±m2)² (dyadic masses, generated-code route)", "route": route,
                                "expr": str(e), "s": sv, "m1": a, "m2": b, "value": str(v)})
    return bad


def write_support(seeds=range(8)):
    """regenerate corpus/C11/route_support.json from the tree under test (maintenance; not used by a check run):
    the combinations that were finite at EVERY point of seeds 0..7 (quick + thorough sweeps)."""
    import random

    fin, nonfin = set(), set()
    for seed in seeds:
        for tier in ("quick", "thorough"):
            records, _ = sweep(random.Random(seed), tier)
            for r in records:
                for route, v in r["values"].items():
                    (fin if _fin(v) else nonfin).add(support_key(r, route))
    keys = sorted(fin - nonfin)
    SUPPORT_FILE.parent.mkdir(parents=True, exist_ok=True)
    SUPPORT_FILE.write_text(json.dumps({"rule": "class|instantiation|mass kind|route|region of s: finite at every swept point on the tree the check was built on",
                                        "finite": keys}, indent=0))
    return len(keys), len(nonfin)


if __name__ == "__main__":
    import sys

    sys.path.insert(0, str(Path(__file__).resolve().parents[2]))
    from tools.lib import common

    common.use_repo_source()
    print(write_support())
