"""C06 — independent oracle: the property statement evaluated on the real code.

* scripted probe histories (the Lean witnesses, replayed on the real code in a fresh process);
* the grouping oracle: every digest observed for one (reaction, configuration) — whatever the
  history, builder, process or hash seed — must be the same.
"""

from __future__ import annotations

import json
import os
import subprocess
from pathlib import Path

from tools.lib import common

ROOT = Path(__file__).resolve().parents[2]
WORKER = ROOT / "tools" / "corr" / "C06_real.py"

SIG_ALIAS = "define_symbols hands out the memoised DPD symbol dict and formulate() mutates it"
SIG_NORESET = "formulate() does not start from empty ingredients"
SIG_SHARED = "configuration of one builder leaks into another builder"
SIG_HASHSEED = "outer PoolSum pool order depends on PYTHONHASHSEED (set of sp.Rational)"
SIG_KINORDER = "kinematic_variables key order depends on the topology-set iteration order (natural_sorting tie)"
SIG_AMPORDER = "amplitudes key order depends on a set iteration order (natural_sorting ties among zero-defined amplitudes)"
SIG_GENERIC = "same (reaction, configuration), different model"


def probe_histories(dpd_reaction: str, finals: list[int], particle: str) -> dict[str, dict]:
    """The witness histories of Props/C06.lean on a real reaction (ids are ampform ids)."""
    r = dpd_reaction
    return {
        # C06_witness_alias: stable ids; default; stable ids again (same builder, same process)
        "alias": {"ops": [
            {"op": "new", "r": r},
            {"op": "set", "b": 0, "field": "align", "value": "dpd:1"},
            {"op": "set", "b": 0, "field": "stable", "value": finals},
            {"op": "formulate", "b": 0},
            {"op": "set", "b": 0, "field": "stable", "value": None},
            {"op": "formulate", "b": 0},
            {"op": "set", "b": 0, "field": "stable", "value": finals},
            {"op": "formulate", "b": 0},
        ], "compare": [3, 7]},
        # C06_witness_noreset: couplings on, formulate, couplings off, formulate  vs  fresh builder
        "noreset": {"ops": [
            {"op": "new", "r": r},
            {"op": "set", "b": 0, "field": "hel", "value": True},
            {"op": "set", "b": 0, "field": "stable", "value": finals},
            {"op": "formulate", "b": 0},
            {"op": "set", "b": 0, "field": "hel", "value": False},
            {"op": "set", "b": 0, "field": "stable", "value": None},
            {"op": "formulate", "b": 0},
            {"op": "new", "r": r},
            {"op": "formulate", "b": 1},
        ], "compare": [6, 8]},
        # C06_witness_shared: configuring builder 0 must not change what builder 1 formulates
        "shared": {"ops": [
            {"op": "new", "r": r},
            {"op": "new", "r": r},
            {"op": "formulate", "b": 1},
            {"op": "set", "b": 0, "field": "hel", "value": True},
            {"op": "set", "b": 0, "field": "scalar", "value": True},
            {"op": "set", "b": 0, "field": "stable", "value": finals},
            {"op": "set", "b": 0, "field": "align", "value": "dpd:2"},
            {"op": "set", "b": 0, "field": "dyn", "value": [particle, "create_relativistic_breit_wigner"]},
            {"op": "set", "b": 0, "field": "naming", "value": 3},
            {"op": "formulate", "b": 1},
        ], "compare": [2, 9]},
    }


def spawn_worker(histories: list[dict], hashseed: str | None, scan: list[str] | None = None):
    env = dict(os.environ)
    env.pop("PYTHONHASHSEED", None)
    if hashseed is not None and hashseed != "unset":
        env["PYTHONHASHSEED"] = str(hashseed)
    job = {"src": str(common.REPO / "src"), "histories": histories}
    if scan:
        job["scan"] = scan
    p = subprocess.Popen([common.PY, str(WORKER)], stdin=subprocess.PIPE, stdout=subprocess.PIPE,
                         stderr=subprocess.PIPE, text=True, env=env, cwd=str(ROOT))
    p.stdin.write(json.dumps(job))
    p.stdin.close()
    return p


def collect_worker(p, timeout: int = 900) -> dict:
    try:
        out = p.stdout.read()
        err = p.stderr.read()
        p.wait(timeout=timeout)
    except subprocess.TimeoutExpired as e:
        p.kill()
        raise common.InfraError("C06 worker timed out") from e
    for line in reversed(out.split("\n")):
        if line.startswith("RESULT "):
            return json.loads(line[7:])
    # the library could not even be imported / crashed outside an operation
    return {"crash": (err or out)[-1500:], "histories": []}


def run_worker(histories: list[dict], hashseed: str | None = None, timeout: int = 900) -> dict:
    return collect_worker(spawn_worker(histories, hashseed), timeout)


def covering_seeds(candidates: list[str], reactions: list[str], limit: int) -> tuple[list[str], dict]:
    """Pick hash seeds so that every observed iteration order of every probed hash-ordered
    container occurs under at least one picked seed (greedy cover)."""
    procs = [(s, spawn_worker([], s, scan=reactions)) for s in candidates]
    fps = {}
    for s, p in procs:
        r = collect_worker(p, timeout=300)
        if "fingerprint" in r:
            fps[s] = {k: json.dumps(v) for k, v in r["fingerprint"].items()}
    universe = {(k, v) for fp in fps.values() for k, v in fp.items()}
    variants: dict[str, set] = {}
    for k, v in universe:
        variants.setdefault(k, set()).add(v)
    picked: list[str] = []
    covered: set = set()

    def orders_covered(k):
        return len({v for (kk, v) in covered if kk == k})

    # first goal: every container whose order varies is seen in >= 2 different orders
    def gain2(s):
        return sum(1 for k, v in fps[s].items() if (k, v) not in covered and orders_covered(k) < min(2, len(variants[k])))

    while len(picked) < limit and fps:
        best = max(fps, key=lambda s: (gain2(s), len(set(fps[s].items()) - covered)))
        gain = set(fps[best].items()) - covered
        if not gain or best in picked:
            break
        picked.append(best)
        covered |= gain
        if all(orders_covered(k) >= min(2, len(variants[k])) for k in variants) and len(picked) >= 2:
            break
    return picked, {"seeds_scanned": len(fps),
                    "containers_with_seed_dependent_order": sorted(k for k, v in variants.items() if len(v) > 1),
                    "orders_observed_in_scan": {k: len(v) for k, v in sorted(variants.items())},
                    "orders_covered_by_picked_seeds": {k: orders_covered(k) for k in sorted(variants)},
                    "two_orders_for_every_varying_container": all(orders_covered(k) >= min(2, len(variants[k])) for k in variants)}


def differing_attributes(d1: dict, d2: dict) -> list[str]:
    if "error" in d1 or "error" in d2:
        return ["error" if d1.get("error") != d2.get("error") else "-"]
    return [k for k in ["intensity", "amplitudes", "parameter_defaults", "kinematic_variables", "components",
                        "reaction_info"] if d1.get(k) != d2.get(k)]


def classify(d1: dict, d2: dict, same_process: bool) -> dict:
    attrs = differing_attributes(d1, d2)
    if (not same_process and attrs == ["intensity"]
            and d1.get("intensity_sorted_pools") == d2.get("intensity_sorted_pools")):
        return {"class": SIG_HASHSEED}
    if attrs == ["amplitudes"] and d1.get("amp_unordered") is not None and d1.get("amp_unordered") == d2.get("amp_unordered"):
        return {"class": SIG_AMPORDER}
    if attrs == ["kinematic_variables"] and d1.get("kin_unordered") == d2.get("kin_unordered"):
        return {"class": SIG_KINORDER}
    return {"class": SIG_GENERIC, "attributes": attrs}


class Observations:
    """All formulate results of a run, grouped by (reaction, configuration)."""

    def __init__(self):
        self.groups: dict[tuple[str, str], list[dict]] = {}

    def add(self, rname: str, cfg_key: str, digest: dict, where: dict):
        self.groups.setdefault((rname, cfg_key), []).append({"digest": digest, "where": where})

    def violations(self) -> list[dict]:
        out = []
        for (rname, cfg_key), obs in self.groups.items():
            first = obs[0]
            for o in obs[1:]:
                if o["digest"]["all"] != first["digest"]["all"]:
                    same = o["where"].get("process") == first["where"].get("process")
                    out.append({"reaction": rname, "cfg": cfg_key, "a": first, "b": o,
                                "signature": classify(first["digest"], o["digest"], same)})
                    break
        return out

    def n_groups_tested(self) -> int:
        return sum(1 for v in self.groups.values() if len(v) >= 2)
