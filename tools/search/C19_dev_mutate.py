"""NOT USED BY THE CHECK. Applies one named C19 mutant to a scratch copy of the repo:
   python C19_dev_mutate.py <name> <scratch root>   (see notes/mutants_C19.md)"""
import sys

name, root = sys.argv[1], sys.argv[2]
A = root + "/src/ampform/kinematics/angles.py"
P = root + "/src/ampform/kinematics/phasespace.py"
D = root + "/src/ampform/helicity/align/dpd.py"
H = root + "/src/ampform/helicity/__init__.py"


def sub(path, old, new):
    s = open(path).read()
    assert s.count(old) == 1, (name, old, s.count(old))
    open(path, "w").write(s.replace(old, new))


M = {
    "M1_swap_sj_sk_scattering": lambda: sub(A, "(2 * sk * (sj - mk**2 - mi**2) -", "(2 * sj * (sk - mk**2 - mi**2) -"),
    "M2_plus_theta_antisym": lambda: sub(A, "    return symbol, -theta\n", "    return symbol, theta\n"),
    "M3_m0_missing_square": lambda: sub(A, "- 2 * m0**2 * (sk - mi**2 - mj**2)", "- 2 * m0 * (sk - mi**2 - mj**2)"),
    "M4_guard_thetahat_set": lambda: sub(A, "in {(3, 1), (1, 2), (2, 3)}:", "in {(1, 3), (1, 2), (2, 3)}:"),
    "M5_zeta_121_sigma": lambda: sub(A, "+ (m0**2 + m1**2 - s1) * (s2 - m1**2 - m3**2)", "+ (m0**2 + m1**2 - s1) * (s3 - m1**2 - m3**2)"),
    "M6_zeta_232_kallen": lambda: sub(A, "sp.sqrt(Kallen(s3, m2**2, m1**2))", "sp.sqrt(Kallen(s1, m2**2, m1**2))"),
    "M7_zeta_ref0_guard": lambda: sub(A, "            rotated_state, aligned_subsystem, rotated_state\n", "            rotated_state, aligned_subsystem, aligned_subsystem\n"),
    "M8_zeta_antisym_sign": lambda: sub(A, "        return zeta_symbol, -zeta_expr\n", "        return zeta_symbol, zeta_expr\n"),
    "M9_kallen_sign": lambda: sub(P, "- 2 * z * x", "+ 2 * z * x"),
    "M10_benign_reorder": lambda: sub(A, "(2 * sk * (sj - mk**2 - mi**2) - (sk + mi**2 - mj**2) * (m0**2 - sk - mk**2))", "((sj - mi**2 - mk**2) * sk * 2 - (m0**2 - mk**2 - sk) * (mi**2 - mj**2 + sk))"),
    "M11_fix_theta21_guard": lambda: sub(A, "if {state_id, sibling_id} in {(2, 1), (3, 2), (1, 3)}:", "if (state_id, sibling_id) in {(2, 1), (3, 2), (1, 3)}:"),
    "M12_zeta_equal_guard": lambda: sub(A, "    if aligned_subsystem == reference_subsystem:\n        return zeta_symbol, sp.S.Zero", "    if rotated_state == reference_subsystem:\n        return zeta_symbol, sp.S.Zero"),
    # hardening round
    "H1_dpd_swaps_aligned_reference": lambda: sub(D, "            rotated_state, aligned_subsystem, self.reference_subsystem\n", "            rotated_state, self.reference_subsystem, aligned_subsystem\n"),
    "H2_kallen_set_of_squares": lambda: sub(P, "        return x**2 + y**2 + z**2 - 2 * x * y - 2 * y * z - 2 * z * x", "        return sum(a**2 for a in {x, y, z}) - 2 * x * y - 2 * y * z - 2 * z * x"),
    "H3_float_cancellation": lambda: sub(A, "        theta = sp.acos(\n            (\n                (m0**2 + mi**2 - si) * (m0**2 + mj**2 - sj)", "        theta = sp.acos(\n            (\n                sp.UnevaluatedExpr(10**9 * m0**4) - 10**9 * sp.UnevaluatedExpr(m0**4) + (m0**2 + mi**2 - si) * (m0**2 + mj**2 - sj)"),
    "H3b_float_cancellation_survives_doit": lambda: sub(A, "        theta = sp.acos(\n            (\n                (m0**2 + mi**2 - si) * (m0**2 + mj**2 - sj)\n                - 2 * m0**2 * (sk - mi**2 - mj**2)\n            )", "        theta = sp.acos(\n            (\n                (10**9 + 1) * sp.expand((m0**2 + mi**2 - si) * (m0**2 + mj**2 - sj) - 2 * m0**2 * (sk - mi**2 - mj**2))\n                - 10**9 * ((m0**2 + mi**2 - si) * (m0**2 + mj**2 - sj) - 2 * m0**2 * (sk - mi**2 - mj**2))\n            )"),
    "H4_identity_instead_of_equality": lambda: sub(A, "    if isobar_id == aligned_subsystem:\n        return symbol, sp.S.Zero", "    if isobar_id is aligned_subsystem:\n        return symbol, sp.S.Zero"),
    "H6_builder_alignment_mass": lambda: sub(H, "                momentum = ArraySum(*[p[i] for i in sorted(indices)])\n                kinematic_variables[mass_symbol] = InvariantMass(momentum)", "                momentum = ArraySum(*[p[i] for i in sorted(indices)[-2:]])\n                kinematic_variables[mass_symbol] = InvariantMass(momentum)"),
    "H7_dpd_skips_parent_rotation": lambda: sub(D, "        if j == 0:\n            return sp.Rational(1)", "        if j == 0 or rotated_state == 0 and aligned_subsystem == 3:\n            return sp.Rational(1)"),
}
M[name]()
