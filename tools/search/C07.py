"""C07 search / independent oracle on the REAL code.

Evaluates the property statement itself: the lambdified kinematic-variable expressions of a
topology (cse on and off) on random physical events against

* Minkowski norms of the summed four-momenta named in the mass subscripts,
* an independent boost-and-rotate implementation (numpy, extended precision, direction cosines
  instead of the library's angle/matrix route) following the documented chain of helicity frames,
* for three-body decays (events in the rest frame of the decaying particle) the closed-form
  `formulate_scattering_angle` evaluated on the Dalitz variables.

Tolerances are condition aware: the sensitivity of every angle to a 1e-10 relative perturbation
of the event is measured with the oracle itself; ill-conditioned points are skipped, the
azimuth is compared modulo 2π and skipped when the polar angle is within 1e-6 of 0 or π.
"""

from __future__ import annotations

import math

import numpy as np

from tools.corr.C07 import PySpec

LD = np.longdouble
EVENT_KINDS = ("generic", "massless", "near-threshold", "boosted", "mixed-scales")
# every family except "rest-frame" gives events in which the initial state is MOVING (the momenta
# are drawn in the lab; nothing is boosted to the rest frame of the total momentum): defects that
# vanish when the two children of the top node are back to back need such events.
EXTRA_KINDS = ("rest-frame", "all-massless")  # plus "massless-at:<k>" with k cycling over the positions


# --------------------------------------------------------------------------- events


def _unit(rng_np, n):
    c = rng_np.uniform(-1, 1, n)
    ph = rng_np.uniform(-math.pi, math.pi, n)
    s = np.sqrt(1 - c * c)
    return np.stack([s * np.cos(ph), s * np.sin(ph), c], axis=1)


def _boost_all(momenta: dict, beta_vec: np.ndarray) -> dict:
    """active boost of every four-momentum with velocity beta_vec (N,3); float64"""
    b2 = np.sum(beta_vec**2, axis=1)
    g = 1 / np.sqrt(1 - b2)
    out = {}
    for k, p in momenta.items():
        bp = np.sum(beta_vec * p[:, 1:], axis=1)
        g2 = np.where(b2 > 0, (g - 1) / np.where(b2 > 0, b2, 1), 0.0)
        e = g * (p[:, 0] + bp)
        v = p[:, 1:] + (g2 * bp)[:, None] * beta_vec + (g * p[:, 0])[:, None] * beta_vec
        out[k] = np.concatenate([e[:, None], v], axis=1)
    return out


def random_events(rng, ids, n_events: int, kind: str, cm_frame: bool = False) -> dict:
    """physical events: on-shell final-state four-momenta (E, px, py, pz) with E > 0.

    Any set of on-shell momenta with positive energies is a physical event of the decay of a
    particle with the summed four-momentum. `cm_frame` boosts the event into the rest frame of the
    total momentum."""
    rs = np.random.default_rng(rng.getrandbits(64))
    ids = list(ids)
    n = len(ids)
    masses = {}
    if kind == "rest-frame":
        kind, cm_frame = "generic", True
    massless_at = None
    if kind.startswith("massless-at:"):
        massless_at = ids[int(kind.split(":")[1]) % n]
    for i in ids:
        if massless_at is not None:
            masses[i] = 0.0 if i == massless_at else rs.uniform(0.05, 2.0)
        elif kind == "all-massless":
            masses[i] = 0.0
        elif kind == "massless":
            masses[i] = 0.0 if rs.uniform() < 0.6 else rs.uniform(0.05, 2.0)
        elif kind == "mixed-scales":
            masses[i] = float(10 ** rs.uniform(-3, 1))
        else:
            masses[i] = 0.0 if rs.uniform() < 0.15 else rs.uniform(0.05, 2.0)
    if kind == "massless" and all(m == 0.0 for m in masses.values()) and n == 2:
        pass  # two massless particles are fine as long as they are not collinear
    momenta = {}
    for i in ids:
        if kind == "near-threshold":
            mag = 10 ** rs.uniform(-4, -2, n_events) * max(masses[i], 0.1)
        elif kind == "mixed-scales":
            mag = 10 ** rs.uniform(-2, 2, n_events)
        else:
            mag = rs.uniform(0.05, 3.0, n_events)
        v = _unit(rs, n_events) * mag[:, None]
        e = np.sqrt(masses[i] ** 2 + np.sum(v**2, axis=1))
        momenta[i] = np.concatenate([e[:, None], v], axis=1)
    if kind == "near-threshold":
        # massless particles cannot be slow; give them the small momentum scale as well (done),
        # then move the whole event with a moderate boost so that no subsystem is at rest in the lab
        momenta = _boost_all(momenta, _unit(rs, n_events) * rs.uniform(0.1, 0.8, n_events)[:, None])
    if kind == "boosted":
        gam = 10 ** rs.uniform(1, 3, n_events)
        beta = np.sqrt(1 - 1 / gam**2)
        momenta = _boost_all(momenta, _unit(rs, n_events) * beta[:, None])
    if cm_frame:
        tot = sum(momenta.values())
        momenta = _boost_all(momenta, -tot[:, 1:] / tot[:, :1])
        # re-impose the mass shell exactly (the boost rounds)
        for i in ids:
            v = momenta[i][:, 1:]
            momenta[i][:, 0] = np.sqrt(masses[i] ** 2 + np.sum(v**2, axis=1))
    return momenta


# --------------------------------------------------------------------------- independent kinematics


def to_helicity_frame(frame_p: np.ndarray, p: np.ndarray) -> np.ndarray:
    """`p` (N,4) seen from the helicity frame of the subsystem with four-momentum `frame_p`
    (N,4), both given in the same frame: rotate the subsystem's direction onto +z (first about z,
    then about y), then boost along z into its rest frame. Direction cosines, no angles."""
    E, x, y, z = (frame_p[:, k] for k in range(4))
    pt = np.sqrt(x * x + y * y)
    pn = np.sqrt(x * x + y * y + z * z)
    safe_pt = np.where(pt > 0, pt, 1)
    cphi = np.where(pt > 0, x / safe_pt, 1.0)
    sphi = np.where(pt > 0, y / safe_pt, 0.0)
    safe_pn = np.where(pn > 0, pn, 1)
    cth = np.where(pn > 0, z / safe_pn, 1.0)
    sth = np.where(pn > 0, pt / safe_pn, 0.0)
    e0, px, py, pz = (p[:, k] for k in range(4))
    x1 = cphi * px + sphi * py
    y1 = -sphi * px + cphi * py
    x2 = cth * x1 - sth * pz
    z2 = sth * x1 + cth * pz
    m2 = E * E - pn * pn
    m = np.sqrt(np.where(m2 > 0, m2, np.nan))
    g = E / m
    gb = pn / m
    e3 = g * e0 - gb * z2
    z3 = g * z2 - gb * e0
    return np.stack([e3, x2, y1, z3], axis=1)


def angles_of(p: np.ndarray):
    x, y, z = p[:, 1], p[:, 2], p[:, 3]
    pt = np.sqrt(x * x + y * y)
    return np.arctan2(y, x), np.arctan2(pt, z)


def oracle_angle(momenta: dict, chain, target):
    """(phi, theta) of the summed momenta of `target` after boosting successively through the
    subsystems of `chain`; extended precision"""
    pool = {k: v.astype(LD) for k, v in momenta.items()}
    for sub in chain:
        frame = sum(pool[i] for i in sorted(sub))
        pool = {i: to_helicity_frame(frame, pool[i]) for i in sub}
    tot = sum(pool[i] for i in sorted(target))
    return angles_of(tot)


def oracle_msq(momenta: dict, ids):
    tot = sum(momenta[i].astype(LD) for i in sorted(ids))
    return tot[:, 0] ** 2 - np.sum(tot[:, 1:] ** 2, axis=1), tot[:, 0]


def perturbed(momenta: dict, rs, rel: float) -> list[dict]:
    """three perturbed copies of the event: every component (energy included) moved by a relative
    `rel` — once energies up / three-momenta down (this one always changes every boost factor),
    twice with independent random signs. The largest change of an angle under these
    perturbations measures how strongly rounding of the inputs and of the intermediate results is
    amplified (for a boost with factor γ: ~γ²). A single random sign pattern is not enough: when
    all components that matter get the same sign the event is merely rescaled."""
    outs = []
    for mode in ("energy-vs-momentum", "random", "random"):
        out = {}
        for k, p in momenta.items():
            q = p.astype(LD).copy()
            if mode == "random":
                q *= 1 + rel * rs.choice([-1.0, 1.0], size=q.shape)
            else:
                q[:, 0] *= 1 + rel
                q[:, 1:] *= 1 - rel
            out[k] = q
        outs.append(out)
    return outs


def wrap(d):
    return (d + math.pi) % (2 * math.pi) - math.pi


# --------------------------------------------------------------------------- real code


def lambdify_topology(topology, cse: bool):
    """(names, function(p_sorted_ids...) -> list of arrays) for angles and masses of one topology"""
    import sympy as sp

    from ampform.kinematics.angles import compute_helicity_angles
    from ampform.kinematics.lorentz import compute_invariant_masses, create_four_momentum_symbols

    momenta = create_four_momentum_symbols(topology)
    exprs = {}
    exprs.update(compute_helicity_angles(momenta, topology))
    exprs.update(compute_invariant_masses(momenta, topology))
    names = [s.name for s in exprs]
    ids = sorted(momenta)
    f = sp.lambdify([momenta[i] for i in ids], [e.doit() for e in exprs.values()], "numpy", cse=cse)
    return names, ids, f


def evaluate_real(topology, momenta: dict, cse: bool, cache: dict | None = None):
    key = (topology, cse)
    if cache is not None and key in cache:
        names, ids, f = cache[key]
    else:
        names, ids, f = lambdify_topology(topology, cse)
        if cache is not None:
            cache[key] = (names, ids, f)
    with np.errstate(all="ignore"):
        vals = f(*[momenta[i] for i in ids])
    n = len(next(iter(momenta.values())))
    return {nm: np.broadcast_to(np.asarray(v), (n,)) for nm, v in zip(names, vals)}


# --------------------------------------------------------------------------- the oracle


def check_topology(chk, topology, variant: str, rng, n_events: int, kinds=EVENT_KINDS,
                   cse_modes=(True, False), cache=None, stats=None) -> list[dict]:
    """compare the real values of one topology with the oracle; returns failing inputs"""
    spec = PySpec(topology)
    exp_angles = spec.expected_angles(variant)
    exp_masses = spec.masses()
    bad: list[dict] = []
    stats = stats if stats is not None else {}
    ids = sorted(topology.outgoing_edge_ids)
    for kind in kinds:
        momenta = random_events(rng, ids, n_events, kind)
        rs = np.random.default_rng(rng.getrandbits(64))
        tot = sum(momenta.values())
        speed = np.sqrt(np.sum(tot[:, 1:] ** 2, axis=1)) / tot[:, 0]
        key = "events_initial_state_at_rest" if kind == "rest-frame" else "events_initial_state_moving"
        stats[key] = stats.get(key, 0) + len(speed)
        if kind != "rest-frame":
            stats["min_initial_state_speed"] = float(min(stats.get("min_initial_state_speed", 1.0), float(np.min(speed))))
        shape = _shape_of(spec)
        stats.setdefault("moving_events_by_shape", {})
        if kind != "rest-frame":
            stats["moving_events_by_shape"][shape] = stats["moving_events_by_shape"].get(shape, 0) + len(speed)
        pert = perturbed(momenta, rs, 1e-10)
        for cse in cse_modes:
            try:
                real = evaluate_real(topology, momenta, cse, cache)
            except Exception as e:  # noqa: BLE001
                bad.append({"what": "the lambdified kinematic variables raised", "cse": cse,
                            "error": f"{type(e).__name__}: {e}"[:300], "topology": _topo_repr(topology)})
                continue
            names_seen = set(real)
            want = {f"phi{s}" for s in exp_angles} | {f"theta{s}" for s in exp_angles} | set(exp_masses)
            if names_seen != want:
                bad.append({"what": "set of kinematic-variable names differs from the documented naming scheme",
                            "missing": sorted(want - names_seen), "unexpected": sorted(names_seen - want),
                            "topology": _topo_repr(topology)})
            # masses
            for nm, sub in exp_masses.items():
                if nm not in real:
                    continue
                msq, e_tot = oracle_msq(momenta, sub)
                got = np.asarray(real[nm]).astype(complex)
                got_sq = (got * got).real
                tol = 1e-11 * np.asarray(e_tot, dtype=float) ** 2 * len(sub)
                diff = np.abs(got_sq - np.asarray(msq, dtype=float))
                n_ok = int(np.sum(diff <= tol))
                stats["mass_points"] = stats.get("mass_points", 0) + len(diff)
                chk.count(("mass", _topo_repr(topology), nm, kind), n=len(diff))
                if n_ok != len(diff):
                    j = int(np.argmax(diff - tol))
                    bad.append({"what": f"invariant mass {nm} is not the Minkowski norm of the momenta named in its subscript",
                                "cse": cse, "kind": kind, "event": {str(i): momenta[i][j].tolist() for i in ids},
                                "observed_m": complex(got[j]).real, "expected_msq": float(msq[j]),
                                "topology": _topo_repr(topology)})
            # angles
            for sfx, accept in exp_angles.items():
                pn, tn = f"phi{sfx}", f"theta{sfx}"
                if pn not in real or tn not in real:
                    continue
                got_phi = np.asarray(real[pn], dtype=float)
                got_th = np.asarray(real[tn], dtype=float)
                ok_any = np.zeros(len(got_phi), dtype=bool)
                judged_any = np.zeros(len(got_phi), dtype=bool)
                detail = None
                for chain, target in accept:
                    phi, th = oracle_angle(momenta, chain, target)
                    sens_th = np.zeros(len(got_phi))
                    sens_phi = np.zeros(len(got_phi))
                    for pe in pert:
                        phi2, th2 = oracle_angle(pe, chain, target)
                        with np.errstate(all="ignore"):
                            sens_th = np.fmax(sens_th, np.asarray(np.abs(th2 - th) / 1e-10, dtype=float))
                            sens_phi = np.fmax(sens_phi, np.asarray(np.abs(wrap(phi2 - phi)) / 1e-10, dtype=float))
                    tol_th = 1e-9 + 1e-11 * sens_th
                    tol_phi = 1e-9 + 1e-11 * sens_phi
                    th_f = np.asarray(th, dtype=float)
                    phi_f = np.asarray(phi, dtype=float)
                    finite = np.isfinite(th_f) & np.isfinite(phi_f)
                    well = finite & (tol_th < 1e-5)
                    pole = (th_f < 1e-6) | (th_f > math.pi - 1e-6)
                    ok_th = np.abs(got_th - th_f) <= tol_th
                    phi_judged = well & ~pole & (tol_phi < 1e-5)
                    ok_phi = np.abs(wrap(got_phi - phi_f)) <= tol_phi
                    ok = well & ok_th & (ok_phi | ~phi_judged)
                    # a NaN polar angle exactly at a pole (acos argument one ulp beyond ±1) is
                    # rounding, not a wrong formula
                    nan_pole = np.isnan(got_th) & pole
                    ok_any |= ok | nan_pole
                    judged_any |= well
                    if detail is None:
                        detail = (chain, target, th_f, phi_f, tol_th, tol_phi)
                fails = judged_any & ~ok_any
                if detail is not None and judged_any.any() and len(accept) == 1:
                    _, _, th_f0, _, tol_th0, _ = detail
                    with np.errstate(all="ignore"):
                        ratio = np.abs(got_th - th_f0) / tol_th0
                    ratio = ratio[judged_any & ok_any & np.isfinite(ratio)]
                    if len(ratio):
                        stats["worst_theta_error_over_tolerance"] = float(max(stats.get("worst_theta_error_over_tolerance", 0.0), float(np.max(ratio))))
                stats["angle_points"] = stats.get("angle_points", 0) + int(np.sum(judged_any))
                stats["angle_skipped_ill_conditioned"] = stats.get("angle_skipped_ill_conditioned", 0) + int(np.sum(~judged_any))
                chk.count(("angle", _topo_repr(topology), sfx, kind) if judged_any.any() else None, n=int(np.sum(judged_any)))
                if fails.any():
                    j = int(np.argmax(fails))
                    chain, target, th_f, phi_f, tol_th, tol_phi = detail
                    bad.append({
                        "what": f"helicity angles phi{sfx}/theta{sfx} are not the angles of the documented momentum in the documented chain of helicity frames",
                        "cse": cse, "kind": kind, "topology": _topo_repr(topology),
                        "event": {str(i): momenta[i][j].tolist() for i in ids},
                        "observed": {"phi": float(got_phi[j]), "theta": float(got_th[j])},
                        "expected": {"phi": float(phi_f[j]), "theta": float(th_f[j]),
                                     "chain": [sorted(s) for s in chain], "momentum_of": sorted(target),
                                     "alternatives": [[sorted(s) for s in c] + [sorted(t)] for c, t in accept]},
                        "tolerance": {"phi": float(tol_phi[j]), "theta": float(tol_th[j])},
                    })
    return bad


def _shape_of(spec) -> str:
    """shape of a decay tree by sizes only, e.g. '(2)(3:(1)(2))': which nodes have two decaying children"""

    def rec(item):
        _, ids, ch = item
        if not ch:
            return "1"
        a, b = sorted((rec(c) for c in ch), key=lambda x: (len(x), x))
        return f"({a} {b})"

    return rec(spec.root)


def _topo_repr(topology) -> str:
    def f(x):
        return "-" if x is None else str(x)

    return " ".join(f"{i}:{f(e.originating_node_id)}:{f(e.ending_node_id)}" for i, e in sorted(topology.edges.items()))


# --------------------------------------------------------------------------- Dalitz closed form


def check_dalitz(chk, rng, n_events: int, cache=None, stats=None) -> list[dict]:
    """three-body decays in the rest frame of the decaying particle: the polar helicity angle in
    the isobar frame vs `formulate_scattering_angle` on the Dalitz variables.

    ids: ampform's DPD functions call the decaying particle 0 and the final states 1,2,3; final
    state i of the topology is DPD particle i+1. θ_ij of the DPD paper is the polar angle of
    particle i in the rest frame of the isobar (ij) measured from the direction OPPOSITE to the
    spectator k, which is the helicity-frame z axis when the event is given in the rest frame of
    the decaying particle. The helicity angle symbol is named after the helicity child (smaller
    id): θ_12, θ_23 are that child's angle directly; for the pair (3,1) the formula describes
    particle 3, the opposite-helicity child, whose polar angle is π minus that of particle 1."""
    import sympy as sp
    from qrules.topology import create_isobar_topologies

    from ampform.kinematics.angles import formulate_scattering_angle
    from tools.corr.C07 import final_state_permutations, relabelled

    bad: list[dict] = []
    stats = stats if stats is not None else {}
    base = create_isobar_topologies(3)[0]
    tops = []
    for perm in final_state_permutations(base):
        top = relabelled(base, perm)
        if top not in tops:
            tops.append(top)
    for kind in ("generic", "massless", "mixed-scales"):
        momenta = random_events(rng, sorted(base.outgoing_edge_ids), n_events, kind, cm_frame=True)
        reals = [evaluate_real(top, momenta, True, cache) for top in tops]
        masses = {}
        for r in reals:
            masses.update({k: v for k, v in r.items() if k.startswith("m_")})
        for top, real in zip(tops, reals):
            spec = PySpec(top)
            # the isobar node: both children final
            iso = [(chain, h, o) for chain, h, o in spec.nodes() if chain]
            if len(iso) != 1:
                continue
            chain, h, o = iso[0]
            i, j = h[0], o[0]  # topology ids, i < j
            # both ordered DPD pairs of the isobar: theta_ab describes particle a, theta_ba = pi - theta_ab
            for pair in ((i + 1, j + 1), (j + 1, i + 1)):
                bad += _check_dalitz_pair(chk, pair, kind, top, real, masses, momenta, h, chain, stats)
    return bad


def _check_dalitz_pair(chk, pair, kind, top, real, masses, momenta, h, chain, stats) -> list[dict]:
    import sympy as sp

    from ampform.kinematics.angles import formulate_scattering_angle

    bad: list[dict] = []
    if True:
        if True:
            try:
                _, formula = formulate_scattering_angle(*pair)
            except NotImplementedError:
                stats.setdefault("dalitz_pairs_not_implemented", []).append(list(pair))
                return bad
            syms = sorted(formula.free_symbols, key=lambda s: s.name)
            f = sp.lambdify(syms, formula.doit(), "numpy")

            def mass_value(sym_name):
                digits = sym_name[2:]
                if digits == "0":
                    return np.asarray(masses["m_012"]).astype(complex).real
                own = "".join(str(int(c) - 1) for c in digits)
                return np.asarray(masses["m_" + "".join(sorted(own))]).astype(complex).real

            args = [mass_value(s.name) for s in syms]
            with np.errstate(all="ignore"):
                closed = np.asarray(f(*args), dtype=complex).real
            hel = np.asarray(real["theta" + PySpec.name_suffix(h[1], chain)], dtype=float)
            # the helicity angle symbol is that of the helicity child (smaller topology id h[1]);
            # theta_ab is the angle of DPD particle a = topology id a-1
            expect = closed if pair[0] - 1 == h[0] else math.pi - closed
            # conditioning: acos near ±1 and the mass route (masses recomputed from momenta)
            sin_t = np.abs(np.sin(hel))
            e_scale = np.asarray(sum(momenta.values())[:, 0])
            min_scale = np.min(np.stack([np.sqrt(np.sum(p[:, 1:] ** 2, axis=1)) for p in momenta.values()]), axis=0)
            cond = (e_scale / np.maximum(min_scale, 1e-300)) ** 2 / np.maximum(sin_t, 1e-300)
            tol = 1e-9 + 1e-13 * cond
            judged = np.isfinite(expect) & np.isfinite(hel) & (tol < 1e-5)
            fails = judged & (np.abs(hel - expect) > tol)
            stats["dalitz_points"] = stats.get("dalitz_points", 0) + int(np.sum(judged))
            chk.count(("dalitz", pair, kind), n=int(np.sum(judged)))
            if fails.any():
                jx = int(np.argmax(fails))
                bad.append({"what": "three-body polar helicity angle differs from formulate_scattering_angle on the Dalitz variables",
                            "pair": list(pair), "kind": kind, "topology": _topo_repr(top),
                            "event": {str(a): momenta[a][jx].tolist() for a in momenta},
                            "helicity_theta": float(hel[jx]), "closed_form_theta": float(expect[jx]),
                            "tolerance": float(tol[jx])})
    return bad


# --------------------------------------------------------------------------- numeric confirmation of a collision


def collision_is_numeric(topology_a, topology_b, name: str, rng, cache=None) -> dict | None:
    """evaluate one symbol in two topologies on the same random events; returns the first event
    on which the two values differ (or None)"""
    ids = sorted(topology_a.outgoing_edge_ids)
    momenta = random_events(rng, ids, 8, "generic")
    va = np.asarray(evaluate_real(topology_a, momenta, True, cache)[name], dtype=float)
    vb = np.asarray(evaluate_real(topology_b, momenta, True, cache)[name], dtype=float)
    d = np.abs(wrap(va - vb)) if name.startswith("phi") else np.abs(va - vb)
    if np.nanmax(d) > 1e-6:
        j = int(np.nanargmax(d))
        return {"event": {str(i): momenta[i][j].tolist() for i in ids}, "value_a": float(va[j]), "value_b": float(vb[j])}
    return None


# --------------------------------------------------------------------------- excluded points of the theorems


def guard_probes(cache=None) -> dict:
    """what the REAL code returns at the points the Lean theorems exclude by hypothesis
    (C07_dalitz_chain / chain_is_helicity_frame: subsystem moving exactly along z; subsystem at
    rest; C07_theta_polar: zero three-momentum)"""
    from qrules.topology import create_isobar_topologies

    from tools.corr.C07 import relabelled

    top = relabelled(create_isobar_topologies(3)[0], {0: 2, 1: 0, 2: 1})
    out = {}
    events = {
        "isobar_along_z (pt = 0)": {0: [[1.2, 0.3, 0.1, 0.5]], 1: [[1.1, -0.3, -0.1, 0.4]], 2: [[1.0, 0.0, 0.0, -0.9]]},
        "isobar_at_rest (|p| = 0)": {0: [[1.2, 0.3, 0.1, 0.5]], 1: [[1.2, -0.3, -0.1, -0.5]], 2: [[0.4, 0.0, 0.0, 0.0]]},
    }
    for name, ev in events.items():
        momenta = {k: np.array(v, dtype=float) for k, v in ev.items()}
        try:
            real = evaluate_real(top, momenta, True, cache)
            out[name] = {k: repr(complex(np.asarray(real[k]).reshape(-1)[0])) if np.iscomplexobj(real[k]) else repr(float(np.asarray(real[k]).reshape(-1)[0]))
                         for k in ("theta_0^01", "phi_0^01", "theta_01", "phi_01")}
        except Exception as e:  # noqa: BLE001
            out[name] = f"{type(e).__name__}: {e}"[:200]
    return out


# --------------------------------------------------------------------------- rules 1, 2, 7 of notes/HARDENING.md


def _np_boostz(b):
    g = 1 / np.sqrt(1 - b * b)
    z, o = np.zeros_like(b), np.ones_like(b)
    return np.array([[g, z, z, -g * b], [z, o, z, z], [z, z, o, z], [-g * b, z, z, g]]).transpose(2, 0, 1)


def _np_roty(a):
    c, s_ = np.cos(a), np.sin(a)
    z, o = np.zeros_like(a), np.ones_like(a)
    return np.array([[o, z, z, z], [z, c, z, s_], [z, z, o, z], [z, -s_, z, c]]).transpose(2, 0, 1)


def _np_rotz(a):
    c, s_ = np.cos(a), np.sin(a)
    z, o = np.zeros_like(a), np.ones_like(a)
    return np.array([[o, z, z, z], [z, c, -s_, z], [z, s_, c, z], [z, z, z, o]]).transpose(2, 0, 1)


def check_compound_arguments(chk, rng, stats, n_events: int = 6) -> list[dict]:
    """Phi, Theta, InvariantMass, Energy, FourMomentumX/Y/Z, EuclideanNorm(ThreeMomentum),
    EuclideanNormSquared(ThreeMomentum) constructed on COMPOUND array expressions (ArraySum,
    single-term ArraySum, ArrayMultiplication of the three matrix classes, ArraySum of an
    ArrayMultiplication, ArrayMultiplication of an ArraySum, NegativeMomentum of an ArraySum):
    the generated numpy code of the folded form (where the class prints itself) and of the
    unfolded form, cse off and on, against the definition evaluated by plain numpy.
    Forms the clean tree cannot print (PrintMethodNotImplementedError for folded Phi/Theta/…)
    are recorded, not judged; an UNFOLDED form that does not lambdify is a failing input."""
    import sympy as sp

    from ampform.kinematics import lorentz as lz
    from ampform.kinematics.angles import Phi, Theta
    from ampform.sympy._array_expressions import ArrayMultiplication, ArraySum

    bad: list[dict] = []
    p0, p1 = lz.create_four_momentum_symbol(0), lz.create_four_momentum_symbol(1)
    b, a1, a2 = sp.symbols("b a1 a2", real=True)
    n = lz.ArraySize(p0)
    mats = (lz.BoostZMatrix(b, n), lz.RotationYMatrix(a1, n), lz.RotationZMatrix(a2, n))
    rs = np.random.default_rng(rng.getrandbits(64))
    P0 = rs.normal(size=(n_events, 4)); P0[:, 0] = np.abs(P0[:, 0]) + 3
    P1 = rs.normal(size=(n_events, 4)); P1[:, 0] = np.abs(P1[:, 0]) + 3
    B, A1, A2 = rs.uniform(0.1, 0.8, n_events), rs.uniform(-1, 1, n_events), rs.uniform(-3, 3, n_events)
    M = np.einsum("nij,njk,nkl->nil", _np_boostz(B), _np_roty(A1), _np_rotz(A2))
    mul0 = np.einsum("nij,nj->ni", M, P0)
    flip = np.array([1.0, -1.0, -1.0, -1.0])
    compounds = {
        "ArraySum(p0,p1)": (ArraySum(p0, p1), P0 + P1),
        "ArraySum(p0)": (ArraySum(p0), P0),
        "ArrayMultiplication(Bz,Ry,Rz,p0)": (ArrayMultiplication(*mats, p0), mul0),
        "ArraySum(ArrayMultiplication(Bz,Ry,Rz,p0),p1)": (ArraySum(ArrayMultiplication(*mats, p0), p1), mul0 + P1),
        "ArrayMultiplication(Bz,Ry,Rz,ArraySum(p0,p1))": (ArrayMultiplication(*mats, ArraySum(p0, p1)),
                                                        np.einsum("nij,nj->ni", M, P0 + P1)),
        "NegativeMomentum(ArraySum(p0,p1))": (lz.NegativeMomentum(ArraySum(p0, p1)), (P0 + P1) * flip),
    }

    def norm3(v):
        return np.sqrt(np.sum(v[:, 1:] ** 2, axis=1))

    classes = {
        "Phi": (Phi, lambda v: np.arctan2(v[:, 2], v[:, 1])),
        "Theta": (Theta, lambda v: np.arccos(v[:, 3] / norm3(v))),
        "InvariantMass": (lz.InvariantMass, lambda v: np.sqrt((v[:, 0] ** 2 - norm3(v) ** 2).astype(complex))),
        "Energy": (lz.Energy, lambda v: v[:, 0]),
        "FourMomentumX": (lz.FourMomentumX, lambda v: v[:, 1]),
        "FourMomentumY": (lz.FourMomentumY, lambda v: v[:, 2]),
        "FourMomentumZ": (lz.FourMomentumZ, lambda v: v[:, 3]),
        "EuclideanNorm(ThreeMomentum)": (lz.three_momentum_norm, norm3),
        "EuclideanNormSquared(ThreeMomentum)": (lambda a: lz.EuclideanNormSquared(lz.ThreeMomentum(a)), lambda v: norm3(v) ** 2),
    }
    unprintable = 0
    for cname, (arg, value) in compounds.items():
        for kname, (cls, ref_fn) in classes.items():
            expr = cls(arg)
            ref = np.asarray(ref_fn(value), dtype=complex)
            for form, ex in (("folded", expr), ("unfolded", expr.doit())):
                for cse in (False, True):
                    try:
                        f = sp.lambdify([p0, p1, b, a1, a2], ex, "numpy", cse=cse)
                        with np.errstate(all="ignore"):
                            got = np.broadcast_to(np.asarray(f(P0, P1, B, A1, A2), dtype=complex), ref.shape)
                    except Exception as e:  # noqa: BLE001
                        if form == "folded":
                            unprintable += 1
                            continue
                        bad.append({"what": f"the unfolded {kname} of a compound array expression does not lambdify",
                                    "argument": cname, "cse": cse, "error": f"{type(e).__name__}: {e}"[:200]})
                        continue
                    chk.count(("compound", cname, kname, form, cse), n=len(ref))
                    stats["compound_points"] = stats.get("compound_points", 0) + len(ref)
                    scale = np.maximum(1.0, np.abs(ref))
                    if not np.all(np.abs(got - ref) <= 1e-9 * scale):
                        j = int(np.argmax(np.abs(got - ref) / scale))
                        bad.append({"what": f"generated code of {kname} on a compound array expression differs from its definition",
                                    "argument": cname, "form": form, "cse": cse,
                                    "event": {"p0": P0[j].tolist(), "p1": P1[j].tolist(), "b": float(B[j]), "a1": float(A1[j]), "a2": float(A2[j])},
                                    "observed": repr(complex(got[j])), "expected": repr(complex(ref[j]))})
    stats["compound_folded_forms_not_printable"] = unprintable
    return bad


def check_invariant_mass_dtypes(chk, rng, stats, n_events: int = 40) -> list[dict]:
    """InvariantMass of time-like, light-like and SPACE-like sums: real (float64) and complex
    (complex128) input arrays, cse off and on, one and three summed momenta, against
    sqrt(E²−|p|²) resp. i·sqrt(|p|²−E²) (positive imaginary part for space-like sums)."""
    import sympy as sp

    from ampform.kinematics import lorentz as lz
    from ampform.sympy._array_expressions import ArraySum

    bad: list[dict] = []
    ps = [lz.create_four_momentum_symbol(i) for i in range(3)]
    rs = np.random.default_rng(rng.getrandbits(64))
    for k in (1, 2, 3):
        expr = lz.InvariantMass(ArraySum(*ps[:k])).doit()
        for cse in (False, True):
            f = sp.lambdify(ps[:k], expr, "numpy", cse=cse)
            for family in ("time-like", "space-like", "mixed"):
                arrs = []
                for _ in range(k):
                    v = rs.normal(size=(n_events, 4)) * 2
                    if family == "time-like":
                        v[:, 0] = np.sqrt(np.sum(v[:, 1:] ** 2, axis=1)) + rs.uniform(0.05, 2, n_events)
                    elif family == "space-like":
                        v[:, 0] = rs.uniform(0, 0.2, n_events)
                    arrs.append(v)
                tot = sum(arrs)
                msq = tot[:, 0] ** 2 - np.sum(tot[:, 1:] ** 2, axis=1)
                want = np.where(msq >= 0, np.sqrt(np.abs(msq)), 1j * np.sqrt(np.abs(msq)))
                for dt in (float, complex):
                    try:
                        with np.errstate(all="ignore"):
                            got = np.asarray(f(*[a.astype(dt) for a in arrs]), dtype=complex)
                    except Exception as e:  # noqa: BLE001
                        bad.append({"what": "InvariantMass does not evaluate", "dtype": dt.__name__, "cse": cse,
                                    "n_momenta": k, "family": family, "error": f"{type(e).__name__}: {e}"[:200]})
                        continue
                    chk.count(("invariant-mass-dtype", k, cse, family, dt.__name__), n=n_events)
                    stats["mass_dtype_points"] = stats.get("mass_dtype_points", 0) + n_events
                    # compare the squares with the scale of the terms; the branch (real vs +i) exactly
                    scale = np.maximum(1e-300, tot[:, 0] ** 2 + np.sum(tot[:, 1:] ** 2, axis=1))
                    ok_sq = np.abs((got * got).real - msq) <= 1e-11 * scale
                    clear = np.abs(msq) > 1e-9 * scale
                    ok_branch = ~clear | ((msq > 0) & (np.abs(got.imag) <= 1e-9 * np.sqrt(scale)) & (got.real > 0)) \
                        | ((msq < 0) & (np.abs(got.real) <= 1e-9 * np.sqrt(scale)) & (got.imag > 0))
                    if not np.all(ok_sq & ok_branch):
                        j = int(np.argmin(ok_sq & ok_branch))
                        bad.append({"what": "InvariantMass is not the (complex) Minkowski norm of the summed momenta",
                                    "dtype": dt.__name__, "cse": cse, "n_momenta": k, "family": family,
                                    "momenta": [a[j].tolist() for a in arrs], "observed": repr(complex(got[j])),
                                    "expected": repr(complex(want[j]))})
    return bad


def check_numbers_vs_symbols(chk, stats) -> list[dict]:
    """the matrix classes called with exact numbers (Rational, 0, int, float, pi fractions) vs the
    symbolic explicit matrix with the numbers substituted (rule 1)"""
    import sympy as sp

    from ampform.kinematics import lorentz as lz

    bad: list[dict] = []
    x = sp.Symbol("x", real=True)
    n = sp.Symbol("n", integer=True, positive=True)
    cases = {
        lz.BoostZMatrix: [sp.Rational(3, 5), sp.Integer(0), sp.Rational(-4, 5), sp.Float(0.25)],
        lz.RotationYMatrix: [sp.Integer(0), sp.pi / 2, sp.pi, sp.Rational(1, 3), -sp.pi / 3, sp.Float(0.7)],
        lz.RotationZMatrix: [sp.Integer(0), sp.pi / 2, sp.pi, sp.Rational(1, 3), -sp.pi / 3, sp.Float(0.7)],
    }
    for cls, values in cases.items():
        sym = cls(x, n).as_explicit()
        for v in values:
            try:
                direct = cls(v, n).as_explicit()
                subst = sym.subs(x, v)
                diff = (direct - subst).applyfunc(lambda e: abs(complex(sp.N(e.doit() if hasattr(e, "doit") else e, 30))))
                worst = max(diff)
            except Exception as e:  # noqa: BLE001
                bad.append({"what": f"{cls.__name__} with a numeric argument raised", "argument": str(v),
                            "error": f"{type(e).__name__}: {e}"[:200]})
                continue
            chk.count(("numbers-vs-symbols", cls.__name__, str(v)))
            stats["numbers_vs_symbols_cases"] = stats.get("numbers_vs_symbols_cases", 0) + 1
            if worst > 1e-12:
                bad.append({"what": f"{cls.__name__}(number).as_explicit() differs from the symbolic matrix with the number substituted",
                            "argument": str(v), "direct": str(direct), "substituted": str(subst)})
    return bad
