"""C14 — independent oracle: the clauses of the property evaluated on real instances of every class.

No Lean model involved: real `xreplace/subs/doit/func(*args)/==/hash/lambdify` only.
"""

from __future__ import annotations

import dataclasses

from tools.corr import C18m1 as m1


def respectful_map(pools, rng, expr):
    """Substitution map whose values satisfy the assumptions of the replaced symbol (replacing a
    positive symbol by an arbitrary complex term is outside any substitution law: SymPy has
    already simplified with the assumption, e.g. sqrt(m**2) -> m)."""
    import sympy as sp

    from tools.corr.C14 import symbols_in

    syms = symbols_in(expr)
    keys = rng.sample(syms, min(len(syms), rng.randint(1, 3))) if syms else []
    m = {}
    for k in keys:
        orig = getattr(k, "_assumptions_orig", {}) or {}
        if k.name.startswith("p") and k.name[1:].isdigit():
            m[k] = sp.Symbol("q" + k.name[1:])
        elif orig:
            r = rng.random()
            if r < 0.5:
                m[k] = sp.Symbol(k.name + "_new", **orig)
            elif orig.get("integer"):
                m[k] = sp.Integer(rng.randint(1, 3))
            else:
                m[k] = sp.Rational(rng.choice([1, 2, 3, 5]), rng.choice([1, 2, 3]))
        else:
            m[k] = pools.scalar(rng, 1)
    return m


def same_value(a, b, ctx):
    """True / False / None (undecidable: array-valued or symbolic-limit terms that differ structurally)."""
    import sympy as sp

    if a == b or m1.canon(a, ctx) == m1.canon(b, ctx):
        return True
    if sp.count_ops(a) + sp.count_ops(b) < 600:
        try:
            ea, eb = sp.expand(a), sp.expand(b)
            if ea == eb or m1.canon(ea, ctx) == m1.canon(eb, ctx):
                return True
        except Exception:  # noqa: BLE001, S110
            pass
    return positive_point_equal(a, b)


def positive_point_equal(a, b, n_points=3):
    import random

    import sympy as sp

    rng = random.Random(4711)
    syms = sorted((a.free_symbols | b.free_symbols), key=str)
    decided = 0
    for _ in range(n_points + 4):
        vals = {}
        for s in syms:
            if s.is_integer:
                vals[s] = sp.Integer(rng.randint(0, 2))
            else:
                vals[s] = sp.Float(rng.uniform(0.6, 2.9), 30)
        try:
            va = complex(sp.N(a.xreplace(vals).doit(), 25))
            vb = complex(sp.N(b.xreplace(vals).doit(), 25))
        except Exception:  # noqa: BLE001
            return None
        if any(x != x or abs(x) == float("inf") for x in (va.real, va.imag, vb.real, vb.imag)):
            continue
        if abs(va - vb) > 1e-8 * max(abs(va), abs(vb), 1e-12):
            return False
        decided += 1
        if decided >= n_points:
            return True
    return None


def all_attrs(expr) -> list:
    """(class, field, value) of every non-SymPy attribute in the tree (str()/srepr() do not show them)."""
    import sympy as sp

    out = []
    for n in sp.preorder_traversal(expr):
        if m1.is_unevaluated_class(type(n)):
            for f in dataclasses.fields(type(n)):
                if not f.metadata.get("sympify"):
                    v = getattr(n, f.name)
                    out.append(f"{type(n).__name__}.{f.name} = " + (f"{getattr(v, '__module__', '')}.{getattr(v, '__qualname__', '')}" if callable(v) else repr(v)))
    return out[:12]


def check_instance(entry, r, pools, rng, ctx, stats):  # noqa: C901, PLR0912
    """Clauses 1-3 on one real instance. Returns failing inputs."""
    import sympy as sp

    fails = []
    rec = {"expr": sp.srepr(r)[:2000], "instance": str(r)[:300], "non_sympy_attributes": all_attrs(r)}
    # (1) substitution commutes with unfolding
    for how in ("xreplace", "subs"):
        sigma = respectful_map(pools, rng, r)
        if not sigma:
            continue
        try:
            if how == "xreplace":
                lhs = r.xreplace(sigma).doit()
                rhs = r.doit().xreplace(sigma).doit()  # the inserted values may be foldable themselves
            else:
                k, v = next(iter(sigma.items()))
                sigma = {k: v}
                lhs = r.subs(k, v).doit()
                rhs = r.doit().subs(k, v).doit()
        except Exception as e:  # noqa: BLE001
            # a literal value can hit a pole (division by zero, "Invalid NaN comparison"): only a
            # failure if a pure renaming (no pole possible) raises as well
            if "not supported between instances of 'function'" in str(e):
                # two instances that differ only in a function-valued attribute inside one Add/Mul: SymPy cannot
                # order them (Basic.compare on _hashable_content); excluded input, recorded (notes/findings_C14.md)
                stats["unorderable_function_attributes_skipped"] = stats.get("unorderable_function_attributes_skipped", 0) + 1
                continue
            ren = {k: sp.Symbol(k.name + "_r", **(getattr(k, "_assumptions_orig", {}) or {})) for k in sigma}
            try:
                r.xreplace(ren).doit()
                r.doit().xreplace(ren)
                stats["singular_substitutions_skipped"] = stats.get("singular_substitutions_skipped", 0) + 1
            except Exception as e2:  # noqa: BLE001
                fails.append({"class": f"{how} or doit raised on a valid instance", **rec, "map": {str(k): str(v) for k, v in ren.items()},
                              "error": f"{type(e2).__name__}: {e2}", "first_error": f"{type(e).__name__}: {e}"})
            continue
        if any(x.has(sp.nan, sp.zoo, sp.oo, -sp.oo) for x in (lhs, rhs)):
            stats["singular_substitutions_skipped"] = stats.get("singular_substitutions_skipped", 0) + 1
            continue
        verdict = same_value(lhs, rhs, ctx)
        stats["commute_" + ("decided" if verdict is not None else "undecided")] += 1
        if verdict is False:
            fails.append({"class": f"{how} then unfold != unfold then {how}", **rec, "map": {str(k): str(v) for k, v in sigma.items()},
                          "subst_then_doit": str(lhs)[:400], "doit_then_subst": str(rhs)[:400]})
        elif verdict is None:
            # undecidable numerically (array-valued): the two fully unfolded sides must at least
            # mention the same symbols (a replacement that happened on one side only shows here)
            if lhs.free_symbols != rhs.free_symbols:
                fails.append({"class": f"{how} then unfold != unfold then {how}", **rec,
                              "map": {str(a): str(b) for a, b in sigma.items()},
                              "symbols_only_in_one_side": sorted(map(str, lhs.free_symbols ^ rhs.free_symbols)),
                              "subst_then_doit": str(lhs)[:400], "doit_then_subst": str(rhs)[:400]})
    # nested unevaluated arguments survive substitution as instances (no Tuple)
    if entry is not None:
        sigma = respectful_map(pools, rng, r)
        if sigma:
            out = r.xreplace(sigma)
            for a_old, a_new in zip(r.args, getattr(out, "args", ())):
                if m1.is_unevaluated_class(type(a_old)) and type(a_new) is not type(a_old):
                    fails.append({"class": "xreplace turns a nested unevaluated argument into another type", **rec,
                                  "map": {str(k): str(v) for k, v in sigma.items()}, "argument_before": str(a_old), "argument_after": sp.srepr(a_new)[:300]})
                    break
                if m1.is_unevaluated_class(type(a_old)) and a_new != a_old.xreplace(sigma):
                    fails.append({"class": "xreplace does not reach inside a nested unevaluated argument", **rec,
                                  "map": {str(k): str(v) for k, v in sigma.items()}, "argument_before": str(a_old), "argument_after": str(a_new)[:300]})
                    break
    # (3) rebuild from own arguments (classes whose fields are all SymPy arguments)
    if entry is not None and not entry.attr_fields:
        try:
            rb = r.func(*r.args)
            if rb != r or type(rb) is not type(r):
                fails.append({"class": "func(*args) does not reproduce an all-SymPy-field instance", **rec, "rebuilt": str(rb)[:300]})
        except Exception as e:  # noqa: BLE001
            fails.append({"class": "func(*args) does not reproduce an all-SymPy-field instance", **rec, "error": f"{type(e).__name__}: {e}"})
    return fails


def check_calling_conventions(entry, r, rng, stats):
    """The instance must not depend on HOW the caller wrote the constructor call: positional vs keywords in
    any written order vs mixed vs a defaulted field skipped. `.args` must follow the field DECLARATION order
    (methods unpack `.args` by position), attributes are compared by name, then `_hashable_content`,
    `==`/hash, the rebuild from `.args` and `doit()`."""
    from tools.corr import C14 as corr

    fails = []
    fields = entry.fields
    vals = [getattr(r, f.name) for f in fields]
    try:
        ref = entry.cls(*vals)
    except Exception:  # noqa: BLE001
        return fails
    want_args = tuple(v for f, v in zip(fields, vals) if f.metadata.get("sympify"))
    for conv in corr.calling_conventions(entry, rng, 3):
        eff = list(vals)
        for name in conv["skipped"]:
            j = [f.name for f in fields].index(name)
            eff[j] = corr.field_default(fields[j])[1]
        stats["calling_conventions"] = stats.get("calling_conventions", 0) + 1
        rec = {"constructor": entry.key, "calling_convention": conv["label"], "positional": conv["n_pos"],
               "keywords_as_written": conv["kw"], "skipped_defaulted": conv["skipped"],
               "values": {f.name: str(v)[:120] for f, v in zip(fields, eff)}}
        try:
            obj = corr.call_convention(entry, vals, conv)
            pos = entry.cls(*eff) if conv["skipped"] else ref
        except Exception as e:  # noqa: BLE001
            if conv["skipped"]:
                continue  # the default itself is not an acceptable value for this instance's other fields
            fails.append({"class": "constructor rejects a calling convention that the positional call accepts", **rec,
                          "error": f"{type(e).__name__}: {e}"[:300]})
            continue
        diffs = []
        want = tuple(a for f, a in zip(fields, [getattr(pos, f.name) for f in fields]) if f.metadata.get("sympify"))
        if not conv["skipped"] and tuple(pos.args) != want_args:
            continue  # the class post-processes its arguments; only the convention dimension is judged here
        if tuple(obj.args) != tuple(pos.args):
            diffs.append(".args order/content")
        if tuple(obj.args) != want:
            diffs.append(".args is not the field-declaration order")
        for f in fields:
            if not _field_equal(getattr(obj, f.name), getattr(pos, f.name)):
                diffs.append(f"attribute {f.name}")
        try:
            if obj._hashable_content() != pos._hashable_content():  # noqa: SLF001
                diffs.append("_hashable_content")
            if not (obj == pos) or hash(obj) != hash(pos):
                diffs.append("==/hash")
        except TypeError:
            pass  # unorderable/unhashable function attributes (notes/findings_C14.md)
        if not diffs:
            try:
                a, b = obj.doit(), pos.doit()
                if a != b:
                    diffs.append("doit()")
            except Exception:  # noqa: BLE001
                pass
        if diffs:
            fails.append({"class": "instance depends on the calling convention of the constructor (" + ", ".join(diffs[:3]) + ")", **rec,
                          "keyword_call_args": [str(a)[:100] for a in obj.args], "positional_call_args": [str(a)[:100] for a in pos.args]})
            break
    return fails


def numeric_arrays_equal(a, b, rng, n_events=4):
    """True / False / None: lambdify both sides (numpy, cse) over their array symbols and scalars and compare on
    random real-valued four-momenta and positive scalars. None = code cannot be generated/run or is not finite."""
    import warnings

    import numpy as np
    import sympy as sp
    from sympy.tensor.array.expressions import ArraySymbol

    warnings.filterwarnings("ignore", category=RuntimeWarning)
    arrays = sorted(a.atoms(ArraySymbol) | b.atoms(ArraySymbol), key=str)
    names = {arr.args[0] for arr in arrays}
    free = sorted((s for s in (a.free_symbols | b.free_symbols) if isinstance(s, sp.Symbol) and s not in names), key=str)
    if any(not isinstance(s, sp.Symbol) for s in (a.free_symbols | b.free_symbols) - names):
        return None
    lam_args = [*arrays, *free]
    nprng = np.random.default_rng(rng.randrange(2**31))
    vals = []
    for arg in lam_args:
        if arg in arrays:
            mom = nprng.normal(size=(n_events, 3))
            mass = nprng.uniform(0.1, 1.0, size=n_events)
            vals.append(np.column_stack([np.sqrt((mom**2).sum(axis=1) + mass**2), mom]))
        elif arg.is_integer:
            vals.append(int(nprng.integers(0, 3)))
        else:
            vals.append(float(nprng.uniform(0.3, 0.9)))
    try:
        fa = sp.lambdify(lam_args, a, "numpy", cse=True)
        fb = sp.lambdify(lam_args, b, "numpy", cse=True)
        va = np.asarray(fa(*vals), dtype=complex)
        vb = np.asarray(fb(*vals), dtype=complex)
    except Exception:  # noqa: BLE001
        return None
    if va.shape != vb.shape:
        try:
            va, vb = np.broadcast_arrays(va, vb)
        except ValueError:
            return False
    ok = np.isfinite(va) & np.isfinite(vb)
    if not ok.any():
        return None
    scale = np.maximum(np.abs(vb[ok]), 1e-300)
    return bool(np.all(np.abs(va[ok] - vb[ok]) <= 1e-9 * scale))


def numeric_substitution_semantics(r, old, new, result, rng, n_events=4):
    """Independent numerical reading of `r.subs(old, new).doit()` for an ArraySymbol `old`: the generated numpy code
    of the result, evaluated on random four-momenta, must equal the code generated from `r.doit()` evaluated with
    the array of `old` set to the numerical value of `new` (another array, or the sum of two arrays).
    True / False / None (code cannot be generated or run, e.g. an undefined function is left)."""
    import warnings

    import numpy as np
    import sympy as sp
    from sympy.tensor.array.expressions import ArraySymbol

    from ampform.sympy._array_expressions import ArraySum

    warnings.filterwarnings("ignore", category=RuntimeWarning)
    try:
        orig = r.doit()
    except Exception:  # noqa: BLE001
        return None
    arrays = sorted(orig.atoms(ArraySymbol) | result.atoms(ArraySymbol) | new.atoms(ArraySymbol) | {old}, key=str)
    names = {arr.args[0] for arr in arrays}
    frees = orig.free_symbols | result.free_symbols
    if any(not isinstance(s_, sp.Symbol) for s_ in frees - names):
        return None
    scalars = sorted((s_ for s_ in frees if s_ not in names), key=str)
    nprng = np.random.default_rng(rng.randrange(2**31))
    data = {}
    for arr in arrays:
        mom = nprng.normal(size=(n_events, 3))
        mass = nprng.uniform(0.1, 1.0, size=n_events)
        data[arr] = np.column_stack([np.sqrt((mom**2).sum(axis=1) + mass**2), mom])
    sval = {s_: (int(nprng.integers(0, 3)) if s_.is_integer else float(nprng.uniform(0.3, 0.9))) for s_ in scalars}
    if isinstance(new, ArraySymbol):
        new_value = data[new]
    elif isinstance(new, ArraySum) and all(isinstance(t_, ArraySymbol) for t_ in new.args):
        new_value = sum(data[t_] for t_ in new.args)
    else:
        return None
    lam_args = [*arrays, *scalars]
    try:
        f_res = sp.lambdify(lam_args, result, "numpy", cse=True)
        f_orig = sp.lambdify(lam_args, orig, "numpy", cse=True)
        v_res = np.asarray(f_res(*[data[a] for a in arrays], *[sval[s_] for s_ in scalars]), dtype=complex)
        v_ref = np.asarray(f_orig(*[(new_value if a == old else data[a]) for a in arrays], *[sval[s_] for s_ in scalars]), dtype=complex)
    except Exception:  # noqa: BLE001
        return None
    if v_res.shape != v_ref.shape:
        try:
            v_res, v_ref = np.broadcast_arrays(v_res, v_ref)
        except ValueError:
            return False
    ok = np.isfinite(v_ref) & np.isfinite(v_res)
    if not ok.any():
        return None
    scale = np.maximum(np.abs(v_ref[ok]), 1e-300)
    return bool(np.all(np.abs(v_res[ok] - v_ref[ok]) <= 1e-9 * scale))


def check_term_keys(key, label, r, pools, rng, ctx, stats):  # noqa: C901, PLR0912
    """Clause 1 with substitution KEYS that are terms, not plain symbols: an ArraySymbol four-momentum (replaced by
    another one / by an ArraySum), an applied function, an indexed symbol, the compound sub-expression c**2 — `subs`
    and `xreplace`, then unfold, against unfold, then substitute; structurally, by value, by the symbols that are
    left, and numerically through lambdify for array-valued terms."""
    import sympy as sp
    from sympy.tensor.array.expressions import ArraySymbol

    from tools.corr.C14 import term_key_requests

    fails = []
    rec = {"expr": sp.srepr(r)[:2000], "instance": str(r)[:300], "cls": key, "form": label, "non_sympy_attributes": all_attrs(r)}
    for req in term_key_requests(r, rng, pools, oracle=True):
        pairs = req["pairs"]
        kind = req["kind"]
        hows = ["xreplace"] if req.get("xreplace_only") else ["subs", "xreplace"]
        if kind.startswith("compound"):
            hows = ["subs"]  # xreplace is structural: x**4 does not contain the node x**2 (no law to check)
        for how in hows:
            try:
                if how == "subs":
                    lhs = r.subs(pairs).doit()
                    rhs = r.doit().subs(pairs).doit()
                else:
                    lhs = r.xreplace(dict(pairs)).doit()
                    rhs = r.doit().xreplace(dict(pairs)).doit()
            except Exception as e:  # noqa: BLE001
                if "not supported between instances of 'function'" in str(e):
                    stats["unorderable_function_attributes_skipped"] = stats.get("unorderable_function_attributes_skipped", 0) + 1
                else:
                    stats["term_key_raised"] = stats.get("term_key_raised", 0) + 1
                    stats.setdefault("term_key_raised_examples", []).append(f"{key}/{label}/{kind}: {type(e).__name__}: {str(e)[:80]}")
                continue
            stats["term_key_checks"] = stats.get("term_key_checks", 0) + 1
            stats.setdefault("term_key_kinds", {})
            stats["term_key_kinds"][kind + " / " + how] = stats["term_key_kinds"].get(kind + " / " + how, 0) + 1
            base = {"class": f"{how} then unfold != unfold then {how}", **rec, "substitution_key_kind": kind,
                    "map": {str(k): str(v) for k, v in pairs}, "subst_then_doit": str(lhs)[:400], "doit_then_subst": str(rhs)[:400]}
            if kind.startswith("array-symbol") and len(pairs) == 1:
                # independent of the order of operations: the substituted result computes what the original computes
                # on the substituted DATA (generated numpy code on random four-momenta)
                sem = numeric_substitution_semantics(r, pairs[0][0], pairs[0][1], lhs, rng)
                stats["lambdify_semantics_" + ("undecided" if sem is None else "compared")] = \
                    stats.get("lambdify_semantics_" + ("undecided" if sem is None else "compared"), 0) + 1
                if sem is False:
                    fails.append({**base, "class": f"{how} then unfold != unfold then {how}",
                                  "why": "numpy code of the substituted-and-unfolded term differs from the code of the unfolded term "
                                         "evaluated on the substituted four-momentum data"})
                    continue
            if lhs == rhs:
                stats["term_key_structurally_equal"] = stats.get("term_key_structurally_equal", 0) + 1
                continue
            # the replaced keys must be gone from both sides, the same atoms must be left
            left_l = {k for k, _ in pairs if lhs.has(k)}
            left_r = {k for k, _ in pairs if rhs.has(k)}
            atoms_l = lhs.atoms(ArraySymbol, sp.Symbol)
            atoms_r = rhs.atoms(ArraySymbol, sp.Symbol)
            if left_l != left_r or atoms_l != atoms_r:
                fails.append({**base, "key_still_present_after_subst_then_doit": sorted(map(str, left_l)),
                              "key_still_present_after_doit_then_subst": sorted(map(str, left_r)),
                              "atoms_only_in_one_side": sorted(map(str, atoms_l ^ atoms_r))})
                continue
            verdict = None
            if not lhs.has(ArraySymbol) and not rhs.has(ArraySymbol):
                verdict = same_value(lhs, rhs, ctx)
            if verdict is None:
                verdict = numeric_arrays_equal(lhs, rhs, rng)
                stats["term_key_lambdify_" + ("decided" if verdict is not None else "undecided")] = \
                    stats.get("term_key_lambdify_" + ("decided" if verdict is not None else "undecided"), 0) + 1
            if verdict is False:
                fails.append(base)
    return fails


def check_template_globals(entry, pools, rng, ctx):
    """A symbol that `evaluate()` introduces although it is not an argument (and not a Dummy)
    is rewritten by a substitution after unfolding but not before: the law fails for it."""
    import sympy as sp

    fails = []
    globals_ = [s for s in entry.locals if "#dummy" not in s[2]]
    for s in globals_:
        sym = m1.make_symbol(s[1], s[2])
        r = pools.instance_of(entry, rng, 0)
        sigma = {sym: sp.Integer(7)}
        try:
            lhs, rhs = r.xreplace(sigma).doit(), r.doit().xreplace(sigma).doit()
        except Exception:  # noqa: BLE001, S112
            continue
        if same_value(lhs, rhs, ctx) is False or (sym in lhs.free_symbols) != (sym in rhs.free_symbols):
            fails.append({"class": "xreplace then unfold != unfold then xreplace", "expr": sp.srepr(r)[:1500], "map": {str(sym): "7"},
                          "why": "evaluate() introduces a free symbol that is not an argument",
                          "subst_then_doit": str(lhs)[:300], "doit_then_subst": str(rhs)[:300]})
    return fails


def check_equality(entry, r, others, notes):
    """(2) equal and hash alike exactly when class, arguments and non-SymPy attributes are equal."""
    import sympy as sp

    fails = []
    for kind, o in others:
        same_fields = type(o) is type(r) and all(
            _field_equal(getattr(r, f.name), getattr(o, f.name)) for f in dataclasses.fields(entry.cls))
        eq = (r == o)
        heq = hash(r) == hash(o)
        if kind.endswith("(hash corner)"):
            if eq:
                notes.append({"excluded": "None vs 'builtins.NoneType' attribute (_get_hashable_object)", "a": str(r), "equal": eq, "hash_equal": heq})
            continue
        if eq != same_fields:
            fails.append({"class": "== disagrees with equality of (class, arguments, attributes)", "expr": sp.srepr(r)[:1500],
                          "other": sp.srepr(o)[:1500], "kind": kind, "==": eq, "hash_equal": heq, "fields_equal": same_fields,
                          "attributes": _attr_report(entry, r), "other_attributes": _attr_report(entry, o)})
        elif same_fields and not heq:
            fails.append({"class": "equal instances hash differently", "expr": sp.srepr(r)[:1500], "other": sp.srepr(o)[:1500]})
        elif not same_fields and heq:
            fails.append({"class": "different instances hash alike", "expr": sp.srepr(r)[:1500], "other": sp.srepr(o)[:1500], "kind": kind})
    return fails


def check_pair_commute(r, o, kind, pools, rng, ctx, stats):
    """Substitution laws on a SECOND instance that differs from the first one only in a non-SymPy
    attribute: SymPy caches `subs` by equality, so instances that wrongly compare equal get each
    other's results."""
    import sympy as sp

    fails = []
    sigma = respectful_map(pools, rng, r)
    if not sigma:
        return fails
    k, v = next(iter(sigma.items()))
    try:
        first = r.subs(k, v).doit()
        lhs = o.subs(k, v).doit()
        rhs = o.doit().subs(k, v).doit()
        lhs_x = o.xreplace({k: v}).doit()
    except Exception:  # noqa: BLE001
        return fails
    if any(x.has(sp.nan, sp.zoo, sp.oo, -sp.oo) for x in (lhs, rhs, lhs_x)):
        return fails
    stats["pair_commute"] = stats.get("pair_commute", 0) + 1
    for how, left in (("subs", lhs), ("xreplace", lhs_x)):
        if same_value(left, rhs, ctx) is False:
            fails.append({"class": f"{how} then unfold != unfold then {how}", "expr": sp.srepr(o)[:1500], "instance": str(o)[:300],
                          "map": {str(k): str(v)}, "after_the_same_substitution_on": str(r)[:300], "difference_to_that_instance": kind,
                          "subst_then_doit": str(left)[:300], "doit_then_subst": str(rhs)[:300],
                          "first_instance_result": str(first)[:300]})
            break
    return fails


def _attr_report(entry, obj) -> dict:
    out = {}
    for f in entry.attr_fields:
        v = getattr(obj, f.name)
        out[f.name] = f"{type(v).__name__} {getattr(v, '__module__', '')}.{getattr(v, '__qualname__', repr(v))} id={id(v)}" if callable(v) else repr(v)
    return out


def _field_equal(a, b) -> bool:
    if a is None or b is None or isinstance(a, (str, type)) or isinstance(b, (str, type)):
        return a is b or (type(a) is type(b) and a == b)
    return a == b


def standard_instance(entry, pools, rng, compound: bool = False):
    """An instance of a NumPyPrintable class with arguments of the kinds its printer expects;
    `compound`: every argument is a compound expression (ArraySum of momenta, sums, negated sums,
    quotients) — printers and string templates break on arguments that print as a sum."""
    import sympy as sp

    from ampform.kinematics.lorentz import ArraySize, ThreeMomentum
    from ampform.sympy._array_expressions import ArraySum

    p = pools.momenta[0]
    x, y, z = sp.symbols("x y z", positive=True)
    scal = iter([x, y, z, x * y, x + z, y / 2, x, y, z, x, y, z])
    if compound:
        p = ArraySum(pools.momenta[0], pools.momenta[1])
        scal = iter([x + y, -(x + z), x / (y + z), (x + y) * z, x - y / 2, -x, x + y, y - z, x + z, x + y, y + z, z + x])
    args = []
    for f in entry.sympy_fields:
        n = f.name.lower()
        if n in {"momentum", "array"}:
            args.append(p)
        elif n == "vector":
            args.append(ThreeMomentum(p))
        elif n in {"n_events", "shape"}:
            args.append(ArraySize(p))
        elif n in {"ones", "zeros"}:
            from ampform.kinematics import lorentz

            args.append((lorentz._OnesArray if n == "ones" else lorentz._ZerosArray)(ArraySize(p)))  # noqa: SLF001
        elif n in {"angular_momentum", "l"}:
            args.append(sp.Integer(rng.randint(0, 2)))
        elif n in {"beta", "angle"}:
            args.append((x - y / 3) / (x + y) if compound else x / (x + y))
        else:
            args.append(next(scal))
    attrs = tuple(dom[0] for dom in entry.attr_domain)
    return entry.build(*args, attrs=attrs)


def compound_variants(entry, pools, rng, limit: int):
    """Compound arguments at the level of the DIRECT argument of each printer: for every SymPy slot
    of the class, the standard argument replaced by an Add / ArraySum of two valid arguments, by a
    negation and by a scalar multiple (hand-written `_numpycode` strings forget parentheses exactly there).
    Returns (label, instance) pairs, at most `limit` (seeded sample)."""
    import sympy as sp

    from ampform.kinematics.lorentz import ThreeMomentum
    from ampform.sympy._array_expressions import ArraySum

    p0, p1 = pools.momenta[0], pools.momenta[1]
    x, y = sp.symbols("x y", positive=True)
    base = standard_instance(entry, pools, rng)
    vals = [getattr(base, f.name) for f in entry.fields]
    out = []
    for i, f in enumerate(entry.fields):
        if not f.metadata.get("sympify"):
            continue
        n = f.name.lower()
        if n in {"momentum", "array"}:
            alts = [("ArraySum", ArraySum(p0, p1)), ("Add", p0 + p1), ("negation", -p0), ("scalar multiple", 2 * p0)]
        elif n == "vector":
            v0, v1 = ThreeMomentum(p0), ThreeMomentum(p1)
            alts = [("ArraySum", ArraySum(v0, v1)), ("Add", v0 + v1), ("negation", -v0), ("scalar multiple", 2 * v0),
                    ("difference", v0 - v1)]
        elif n in {"n_events", "shape", "ones", "zeros", "angular_momentum", "l"}:
            continue
        elif n in {"beta", "angle"}:
            alts = [("Add", x / (x + y) + y / 7), ("negation", -x / (x + y)), ("scalar multiple", x / (2 * (x + y)))]
        else:
            alts = [("Add", vals[i] + y), ("negation", -vals[i]), ("scalar multiple", 3 * vals[i]), ("quotient", vals[i] / (x + y))]
        for kind, a in alts:
            v2 = list(vals)
            v2[i] = a
            try:
                out.append((f"{f.name} = {kind}", entry.cls(*v2)))
            except Exception:  # noqa: BLE001, S112
                continue
    if len(out) > limit:
        out = rng.sample(out, limit)
    return out


def generated_source(expr, lam_args, cse: bool) -> str:
    import inspect

    import sympy as sp

    return inspect.getsource(sp.lambdify(lam_args, expr, "numpy", cse=cse))


def source_structure(src: str) -> str:
    """The generated function as a Python AST dump (layout, comments and the name of the generated
    function do not matter)."""
    import ast

    tree = ast.parse(src)
    fn = tree.body[0]
    fn.name = "_"
    return ast.dump(fn, annotate_fields=False, include_attributes=False)


def numpy_code_agrees(entry, pools, rng, n_events=6, n_compound=8):  # noqa: C901, PLR0912, PLR0915
    """(4) numerical code of the folded form = numerical code of the unfolded form.

    Two ways, for cse off and on:
    * structurally: every `_numpycode` of the package prints its own definition (or, for the
      implement_doit=False classes, is untouched by doit), so the generated SOURCE of the folded
      form must be the same program (equal Python AST) as the source generated from `doit()`;
      a hand-written printer that takes a short cut shows up here whatever inputs are tried;
    * numerically on real-valued AND complex-valued inputs (arrays and scalars), tolerance relative
      to the unfolded value, skipping only points where the unfolded code itself is not finite.
    Returns (failing inputs, number of numeric comparisons, structural notes)."""
    import warnings

    import numpy as np
    import sympy as sp

    warnings.filterwarnings("ignore", category=RuntimeWarning)
    warnings.filterwarnings("ignore", category=np.exceptions.ComplexWarning) if hasattr(np, "exceptions") else None
    fails, structural = [], []
    p = pools.momenta[0]
    try:
        r = standard_instance(entry, pools, rng)
    except Exception as e:  # noqa: BLE001
        return [{"class": "cannot instantiate a NumPyPrintable class with standard arguments", "cls": entry.key, "error": repr(e)}], 0, []
    subjects = [("instance", r)]
    try:
        subjects.append(("instance", standard_instance(entry, pools, rng, compound=True)))
    except Exception as e:  # noqa: BLE001
        fails.append({"class": "cannot instantiate a NumPyPrintable class with standard arguments", "cls": entry.key, "error": repr(e), "arguments": "compound"})
    subjects += [("instance", v, lab) for lab, v in compound_variants(entry, pools, rng, n_compound)]
    if label_ok(entry):
        # also inside arithmetic, as it occurs in kinematic variables
        subjects.append(("instance**2 + 1", r**2 + 1))
    nprng = np.random.default_rng(rng.randrange(2**31))
    n = 0
    for subject in subjects:
        label, folded = subject[0], subject[1]
        variant = subject[2] if len(subject) > 2 else ""
        unfolded = folded.doit()
        free = sorted(folded.free_symbols | unfolded.free_symbols, key=str)
        arrays = sorted((a for a in folded.atoms(type(p)) | unfolded.atoms(type(p))), key=str)
        free = [s for s in free if s not in {a.args[0] for a in arrays}]
        lam_args = [*arrays, *free]
        inputs = {}
        for kind in ("real", "complex"):
            vals = []
            for a in lam_args:
                if a in arrays:
                    mom = nprng.normal(size=(n_events, 3))
                    mass = nprng.uniform(0.1, 1.0, size=n_events)
                    arr = np.column_stack([np.sqrt((mom**2).sum(axis=1) + mass**2), mom])
                    if kind == "complex":
                        arr = arr + 1j * nprng.uniform(-0.8, 0.8, size=arr.shape)
                    vals.append(arr)
                else:
                    v = nprng.uniform(0.3, 0.9, size=n_events)
                    if kind == "complex":
                        v = v + 1j * nprng.uniform(-0.5, 0.5, size=n_events)
                    vals.append(v)
            inputs[kind] = vals
        for cse in (False, True):
            rec = {"cls": entry.key, "expr": sp.srepr(folded)[:800], "form": label, "cse": cse}
            if variant:
                rec["compound_argument"] = variant
            try:
                src_f, src_u = generated_source(folded, lam_args, cse), generated_source(unfolded, lam_args, cse)
                f1 = sp.lambdify(lam_args, folded, "numpy", cse=cse)
                f2 = sp.lambdify(lam_args, unfolded, "numpy", cse=cse)
            except Exception as e:  # noqa: BLE001
                fails.append({"class": "numerical code of the folded or unfolded form cannot be generated/run", **rec,
                              "error": f"{type(e).__name__}: {e}"[:300]})
                continue
            # (inside arithmetic SymPy simplifies the unfolded form, e.g. sqrt(x)**2 -> x: numeric only)
            same_program = label != "instance" or source_structure(src_f) == source_structure(src_u)
            if not same_program:
                structural.append({**rec, "folded_code": src_f.strip().splitlines()[-1].strip()[:300],
                                   "unfolded_code": src_u.strip().splitlines()[-1].strip()[:300]})
            for kind, vals in inputs.items():
                try:
                    v2 = np.asarray(f2(*vals), dtype=complex)
                except Exception:  # noqa: BLE001, S112  the unfolded code itself is not defined on this input class
                    continue
                try:
                    v1 = np.asarray(f1(*vals), dtype=complex)
                except Exception as e:  # noqa: BLE001
                    fails.append({"class": "numerical code of the folded or unfolded form cannot be generated/run", **rec, "input": kind,
                                  "error": f"folded code raised {type(e).__name__}: {e}"[:300]})
                    continue
                n += 1
                if v1.shape != v2.shape:
                    if v1.ndim == 0 or v2.ndim == 0:
                        v1, v2 = np.broadcast_arrays(v1, v2)
                    else:
                        fails.append({"class": "numerical code of the folded form != code of the unfolded form", **rec, "input": kind,
                                      "shapes": [list(v1.shape), list(v2.shape)]})
                        continue
                ok = np.isfinite(v2)
                if not ok.any():
                    continue
                scale = np.maximum(np.abs(v2[ok]), 1e-300)
                if np.any(np.abs(v1[ok] - v2[ok]) > 1e-9 * scale) or not np.all(np.isfinite(v1[ok])):
                    j = int(np.argmax(np.abs(v1[ok] - v2[ok]) / scale))
                    fails.append({"class": "numerical code of the folded form != code of the unfolded form", **rec, "input": kind + "-valued",
                                  "first_input_row": [str(np.asarray(a)[0]) for a in vals][:3],
                                  "folded": str(v1[ok].ravel()[j]), "unfolded": str(v2[ok].ravel()[j]),
                                  "folded_code": src_f.strip().splitlines()[-1].strip()[:300],
                                  "unfolded_code": src_u.strip().splitlines()[-1].strip()[:300]})
    return fails, n, structural


def label_ok(entry) -> bool:
    """array-of-matrices classes are not put inside scalar arithmetic."""
    return entry.cls.__name__ in {"EuclideanNorm", "EuclideanNormSquared", "ThreeMomentum", "ArraySize", "HPrint"}


def numbers_vs_symbols(entry, pools, rng, ctx, stats):  # noqa: C901
    """HARDENING rule 1: called with exact numbers == symbolic result with the numbers substituted
    (both branches of argument-inspecting `evaluate`/`__new__`: BlattWeisskopfSquared with integer L,
    equal masses, ...). Scalar classes with implement_doit only; compared numerically at exact numbers."""
    import sympy as sp

    fails = []
    if not (entry.implement_doit and pools.is_scalar_class(entry)) or not entry.sympy_fields:
        return fails
    syms = sp.symbols(f"n0:{len(entry.sympy_fields)}", positive=True)
    for trial in range(2):
        nums = []
        for f in entry.sympy_fields:
            name = f.name.lower()
            if name in {"angular_momentum", "l"}:
                nums.append(sp.Integer(rng.randint(0, 3)))
            elif name == "s" or name.startswith("sigma"):
                # above every threshold: below it sqrt(z) is imaginary and the symbolic Blatt-Weisskopf
                # formula (|h_L(sqrt z)|^2, for real z) is not the continuation of the integer-L polynomial
                nums.append(sp.Rational(rng.randint(60, 120), rng.choice([2, 3])))
            elif name in {"mass0", "m0"}:
                nums.append(sp.Rational(rng.randint(9, 12), 2))
            else:
                nums.append(sp.Rational(rng.choice([1, 2, 3, 4]), rng.choice([2, 3])))
        if trial == 1 and len(nums) >= 3:
            nums[2] = nums[1]  # numerically equal arguments (equal masses)
        attrs = tuple(rng.choice([v for v in dom]) for dom in entry.attr_domain)
        sub = dict(zip(syms, nums))
        try:
            direct = entry.build(*nums, attrs=attrs).doit()
            folded_then = entry.build(*syms, attrs=attrs).xreplace(sub).doit()
            unfolded_then = entry.build(*syms, attrs=attrs).doit().xreplace(sub).doit()
            vals = [complex(sp.N(v, 25)) for v in (direct, folded_then, unfolded_then)]
        except Exception:  # noqa: BLE001, S112  (symbolic L left in a sum limit, pole, ...)
            continue
        if any(v != v or abs(v) == float("inf") for v in vals):
            continue
        stats["numbers_vs_symbols"] = stats.get("numbers_vs_symbols", 0) + 1
        scale = max(abs(vals[2]), 1e-300)
        if abs(vals[0] - vals[2]) > 1e-9 * scale or abs(vals[1] - vals[2]) > 1e-9 * scale:
            fails.append({"class": "numeric arguments != symbolic result with the numbers substituted", "cls": entry.key,
                          "expr": sp.srepr(entry.build(*nums, attrs=attrs))[:800], "numbers": [str(n) for n in nums],
                          "called_with_numbers": str(vals[0]), "substituted_then_unfolded": str(vals[1]), "unfolded_then_substituted": str(vals[2])})
    return fails


def complex_sqrt_numbers():
    """`ComplexSqrt.__new__` evaluates on numbers: must equal the definition with the number substituted."""
    import sympy as sp

    from ampform.sympy.math import ComplexSqrt

    x = sp.Symbol("x")
    fails = []
    for v in (sp.Integer(4), sp.Integer(-4), sp.Rational(9, 4), sp.Rational(-1, 4), sp.Integer(0), sp.Float(2.25), sp.Float(-2.25), 4, -1.0):
        try:
            a = ComplexSqrt(v)
            b = ComplexSqrt(x).xreplace({x: sp.sympify(v)})
            c = ComplexSqrt(x).get_definition().xreplace({x: sp.sympify(v)})
            va, vb, vc = (complex(sp.N(t_)) for t_ in (a, b, c))
        except Exception as e:  # noqa: BLE001
            fails.append({"class": "numeric arguments != symbolic result with the numbers substituted", "cls": "ComplexSqrt", "numbers": [str(v)],
                          "error": f"{type(e).__name__}: {e}"})
            continue
        want = complex(sp.N(sp.sqrt(sp.sympify(v))))
        if max(abs(va - vc), abs(vb - vc), abs(vc - want)) > 1e-12:
            fails.append({"class": "numeric arguments != symbolic result with the numbers substituted", "cls": "ComplexSqrt", "numbers": [str(v)],
                          "ComplexSqrt(number)": str(va), "substituted": str(vb), "definition": str(vc), "principal root": str(want)})
    return fails


def decorator_options(entries):  # noqa: C901, PLR0912
    """HARDENING rule 5: the decorator machinery on classes defined at run time with every option."""
    import sympy as sp

    by_name = {e.cls.__name__: e.cls for e in entries}
    fails = []

    def bad(what, **kw):
        fails.append({"class": "decorator option not honoured", "what": what, **kw})

    x, y, z = sp.symbols("x y z")
    hfull, hopaque, hnc, hprint = (by_name.get(n) for n in ("HFull", "HOpaque", "HNonComm", "HPrint"))
    if not all((hfull, hopaque, hnc, hprint)):
        return fails
    from tools.corr.C14 import harness_weight, harness_weight2

    # assumptions: commutative is forced to True, other assumptions are set
    if hnc(x, y).is_commutative is not True or hfull(x).is_commutative is not True:
        bad("commutative must be forced to True", got=str(hnc(x, y).is_commutative))
    if hnc(x, y).is_real is not True:
        bad("assumption real=True not set", got=str(hnc(x, y).is_real))
    # defaults, keywords, positional order with an attribute in the middle of the field list
    a = hfull(x)
    if (a.a, a.weight, a.b, a.tag) != (x, harness_weight, sp.Integer(2), None) or a.args != (x, sp.Integer(2)):
        bad("defaults of omitted arguments", got=str((a.a, a.weight, a.b, a.tag, a.args)))
    b = hfull(x, harness_weight2, y, "t")
    c = hfull(a=x, b=y, tag="t", weight=harness_weight2)
    d = hfull(x, harness_weight2, tag="t", b=y)
    if not (b == c == d) or (b.weight, b.b, b.tag) != (harness_weight2, y, "t") or b.args != (x, y):
        bad("positional vs keyword construction", got=str((b, c, d)))
    if hfull(x, tag="t") == hfull(x) or hfull(x, harness_weight2) == hfull(x) or hfull(x, b=3) == hfull(x):
        bad("instances that differ in one field compare equal")
    if hfull(x, harness_weight, 2, None) != hfull(x) or hash(hfull(x, harness_weight, 2, None)) != hash(hfull(x)):
        bad("defaults given explicitly differ from defaults omitted")
    if hfull(x, b=y).doit() != (x + 2 * y) ** 2 + x or hfull(x, harness_weight2, y).doit() != (x * y - 1) ** 2 + x:
        bad("doit does not use the attribute", got=str(hfull(x, b=y).doit()))
    if hfull(x, b=y, evaluate=True) != (x + 2 * y) ** 2 + x:
        bad("evaluate=True in the constructor", got=str(hfull(x, b=y, evaluate=True)))
    if "counter" in {f.name for f in __import__("dataclasses").fields(hfull)}:
        bad("ClassVar became a field")
    if tuple(hfull.__slots__) != ("weight", "tag"):
        bad("__slots__ are not the non-SymPy fields", got=str(hfull.__slots__))
    # sympify: SymPy fields are sympified, attributes are not
    e = hfull(1, b="z")
    if e.args != (sp.Integer(1), z) or hopaque(x, tag=5).tag != 5:
        bad("sympify flags", got=str(e.args))
    for what, fn, exc in (("too many positional arguments", lambda: hfull(x, harness_weight, y, "t", 1), ValueError),
                          ("missing constructor argument", lambda: hnc(x), ValueError),
                          ("unsympifiable SymPy argument", lambda: hnc(x, object()), TypeError)):
        try:
            fn()
            bad(what + " accepted")
        except exc:
            pass
        except Exception as ex:  # noqa: BLE001
            bad(what + f" raises {type(ex).__name__} instead of {exc.__name__}")
    # implement_doit=False keeps the node folded (arguments are still unfolded)
    o = hopaque(hfull(x), y)
    if not isinstance(o.doit(), hopaque) or o.doit() != hopaque(hfull(x).doit(), y):
        bad("implement_doit=False", got=str(o.doit()))
    if hopaque(x).b != sp.Rational(1, 2) or hopaque(x).tag != "t":
        bad("default values", got=str((hopaque(x).b, hopaque(x).tag)))
    # latex from a string template and from a method, with compound arguments
    try:
        l1, l2 = sp.latex(hfull(x + y, b=-z)), sp.latex(hopaque(x - y, -(x + z)))
        if "H\\left(" not in l1 or "x + y" not in l1 or not l2.startswith("O("):
            bad("_latex_repr_", got=l1 + " | " + l2)
    except Exception as ex:  # noqa: BLE001
        bad(f"_latex_repr_ raises {type(ex).__name__}: {ex}")
    # substitution reaches every field, attributes are carried over, noncommutative flag ignored in products
    s = hfull(x, harness_weight2, y, "t").xreplace({x: z, y: 3})
    if s != hfull(z, harness_weight2, 3, "t") or s.tag != "t" or s.weight is not harness_weight2:
        bad("xreplace with an attribute in the middle of the field list", got=str(s))
    s = hfull(x, harness_weight2, y, "t").subs({y: x, x: 1}, simultaneous=True)
    if s != hfull(1, harness_weight2, x, "t"):
        bad("simultaneous subs", got=str(s))
    if hnc(x, y) * hnc(y, x) != hnc(y, x) * hnc(x, y):
        bad("instances do not commute although commutative is forced")
    return fails


def complex_sqrt_code_agrees():
    """ComplexSqrt (helper class): generated numpy code = code of its definition, both signs."""
    import numpy as np
    import sympy as sp

    from ampform.sympy.math import ComplexSqrt

    import warnings

    warnings.filterwarnings("ignore", category=RuntimeWarning)
    x = sp.Symbol("x")
    e = ComplexSqrt(x**2 - 2)
    pts = np.array([-1.7, -0.3, 0.4, 1.9, 2.5])
    fails = []
    # folded vs its definition also on complex-valued input (where numpy still orders complex numbers)
    zpts = pts + 1j * np.array([0.3, -0.2, 0.5, -0.7, 0.1])
    for cse in (False, True):
        try:
            w2 = np.asarray(sp.lambdify([x], e.get_definition(), "numpy", cse=cse)(zpts), dtype=complex)
        except Exception:  # noqa: BLE001, S112
            continue
        try:
            w1 = np.asarray(sp.lambdify([x], e, "numpy", cse=cse)(zpts), dtype=complex)
        except Exception as exc:  # noqa: BLE001
            fails.append({"class": "numerical code of the folded or unfolded form cannot be generated/run", "cls": "ComplexSqrt", "input": "complex", "error": repr(exc)})
            continue
        ok = np.isfinite(w2)
        if ok.any() and not np.allclose(w1[ok], w2[ok], rtol=1e-10):
            fails.append({"class": "numerical code of the folded form != code of the unfolded form", "cls": "ComplexSqrt", "input": "complex-valued",
                          "expr": sp.srepr(e), "folded": str(w1), "unfolded": str(w2)})
    for cse in (False, True):
        try:
            v1 = np.asarray(sp.lambdify([x], e, "numpy", cse=cse)(pts), dtype=complex)
            v2 = np.asarray(sp.lambdify([x], e.get_definition(), "numpy", cse=cse)(pts), dtype=complex)
            want = np.sqrt((pts**2 - 2).astype(complex))
        except Exception as exc:  # noqa: BLE001
            fails.append({"class": "numerical code of the folded or unfolded form cannot be generated/run", "cls": "ComplexSqrt", "error": repr(exc)})
            continue
        if not (np.allclose(v1, v2, rtol=1e-12) and np.allclose(v1, want, rtol=1e-12)):
            fails.append({"class": "numerical code of the folded form != code of the unfolded form", "cls": "ComplexSqrt",
                          "expr": sp.srepr(e), "folded": str(v1), "unfolded": str(v2), "sqrt of complex": str(want)})
    return fails


def witness_astuple():
    """The replayable input of the Lean witness `C14.witness_astuple` on the real code."""
    import sympy as sp

    from ampform.dynamics.phasespace import BreakupMomentumSquared, PhaseSpaceFactor

    s, m1_, m2, x = sp.symbols("s m1 m2 x")
    e = PhaseSpaceFactor(BreakupMomentumSquared(s, m1_, m2), m1_, m2)
    want = PhaseSpaceFactor(BreakupMomentumSquared(s, x, m2), x, m2)
    out = []
    got = e.xreplace({m1_: x})
    if got != want:
        out.append({"class": "xreplace turns a nested unevaluated argument into another type"
                    if not isinstance(got.args[0], BreakupMomentumSquared) else "xreplace does not reach inside a nested unevaluated argument",
                    "expr": sp.srepr(e), "map": {"m1": "x"}, "result": sp.srepr(got), "expected": sp.srepr(want),
                    "python": "PhaseSpaceFactor(BreakupMomentumSquared(s,m1,m2),m1,m2).xreplace({m1:x})"})
    got = e.subs(m1_, x)
    if got != want:
        out.append({"class": "subs does not reach inside a nested unevaluated argument", "expr": sp.srepr(e), "map": {"m1": "x"},
                    "result": sp.srepr(got), "expected": sp.srepr(want),
                    "python": "PhaseSpaceFactor(BreakupMomentumSquared(s,m1,m2),m1,m2).subs(m1,x)"})
    return out
