"""C11 hardening oracle (notes/HARDENING.md rules 1, 2, 5, 7, 9) — evaluated on the real code.

* numbers vs symbols: every public class/function of dynamics/phasespace.py and `ComplexSqrt`, called
  with exact numbers (Rational / int / float; equal masses, zero masses, s exactly at (m1±m2)² and at
  0-adjacent values) gives the symbolic result with the numbers substituted;
* exact values ON the boundaries (rationals): q² = 0 at both thresholds, every ρ variant 0 at threshold,
  the branch of `_analytic_continuation` taken at s = 0, s = s_thr and on either side;
* compound arguments: `ComplexSqrt` (custom `_numpycode`/`_pythoncode`) and the phase-space classes on
  sums, negated sums, quotients, products with a sum, squares — generated numpy code with cse off/on,
  complex and real inputs, against the definition evaluated on the compound value;
* folded vs unfolded generated code: `ComplexSqrt` printed through its own `_numpycode` vs its
  `get_definition()` substituted beforehand;
* defaults: `name=None`, and `name=` does not change the unfolded expression.

Every case has a wall-clock cap (a stuck case is reported as a failing input).
"""

from __future__ import annotations

import cmath
import math
import signal
from contextlib import contextmanager

CLASSES = ["BreakupMomentumSquared", "PhaseSpaceFactor", "PhaseSpaceFactorAbs", "PhaseSpaceFactorComplex",
           "PhaseSpaceFactorSWave", "EqualMassPhaseSpaceFactor"]


class CaseTimeout(Exception):
    pass


@contextmanager
def time_cap(seconds: int):
    def handler(signum, frame):  # noqa: ARG001
        raise CaseTimeout

    old = signal.signal(signal.SIGALRM, handler)
    signal.alarm(seconds)
    try:
        yield
    finally:
        signal.alarm(0)
        signal.signal(signal.SIGALRM, old)


def numeric(expr, digits=30):
    """complex value of an ampform expression through its own doit(); None when undefined (nan/zoo/oo)."""
    import sympy as sp

    from ampform.sympy.math import ComplexSqrt

    e = sp.sympify(expr)
    e = e.doit() if hasattr(e, "doit") else e
    e = e.replace(lambda x: isinstance(x, ComplexSqrt), lambda x: x.get_definition())
    if e.has(sp.nan, sp.zoo, sp.oo, -sp.oo):
        return None
    try:
        v = sp.N(e, digits)
        if v.has(sp.nan, sp.zoo, sp.oo, -sp.oo) or v.free_symbols:
            return None
        return complex(v)
    except (TypeError, ValueError, ZeroDivisionError):
        return None


def same(a, b, tol):
    if a is None or b is None:
        return a is None and b is None
    return abs(a - b) <= tol * max(1.0, abs(a), abs(b))


def number_triples(rng):
    import sympy as sp

    R = sp.Rational  # noqa: N806
    fixed = [
        (R(13, 4), 1, R(1, 2)), (1, 1, R(1, 2)), (R(1, 8), 1, R(1, 2)), (-3, R(1, 2), R(1, 2)), (2, R(1, 2), R(1, 2)),
        (R(1, 2), R(1, 2), R(1, 2)), (R(9, 4), 1, R(1, 2)), (R(1, 4), 1, R(1, 2)), (1, R(1, 2), R(1, 2)), (4, 1, 1), (16, 2, 2),
        (4, 1, 0), (4, 0, 1), (4, 0, 0), (-2, 1, 0), (10, 1, 2), (9, 1, 2), (1, 1, 2), (-5, 3, 3),
        (2.5, 0.3, 0.7), (0.5, 0.3, 0.7), (-3.0, 0.5, 0.5), (1.0, 0.5, 0.5), (2.0, 0.5, 0.5),
        (sp.Float("2.25"), 1, sp.Float("0.5")), (R(7, 3), R(2, 3), R(2, 3)),
    ]
    for _ in range(6):
        a, b = R(rng.randint(1, 40), rng.randint(1, 12)), R(rng.randint(1, 40), rng.randint(1, 12))
        fixed.append((R(rng.randint(-60, 200), rng.randint(1, 9)), a, rng.choice([a, b])))
    return fixed


def hardening_oracle(chk, rng, tier: str):  # noqa: C901, PLR0912, PLR0915
    import numpy as np
    import sympy as sp

    from ampform.dynamics import phasespace as ps
    from ampform.sympy.math import ComplexSqrt

    bad = []
    info = {}
    s, m1, m2 = sp.symbols("s m1 m2", real=True)
    R = sp.Rational  # noqa: N806

    def fail(what, **kw):
        bad.append({"what": what, **{k: (v if isinstance(v, (int, float, bool, type(None), list, dict)) else str(v)) for k, v in kw.items()}})

    builders = {name: getattr(ps, name) for name in CLASSES}
    builders["chew_mandelstam_s_wave"] = ps.chew_mandelstam_s_wave
    symbolic = {}
    for name, f in builders.items():
        e = f(s, m1, m2)
        symbolic[name] = e.doit() if hasattr(e, "doit") else e

    # ---- rule 1: numbers vs symbols
    n_cases = 0
    for trip in number_triples(rng):
        tol = 1e-12  # both sides are 30-digit evaluations rounded to complex128
        for name, f in builders.items():
            try:
                with time_cap(20):
                    try:
                        direct = numeric(f(*trip))
                    except ZeroDivisionError:
                        direct = None
                    subst = numeric(symbolic[name].xreplace({s: sp.sympify(trip[0]), m1: sp.sympify(trip[1]), m2: sp.sympify(trip[2])}))
            except CaseTimeout:
                fail(f"{name} with numeric arguments does not terminate within 20 s", arguments=[str(x) for x in trip])
                continue
            n_cases += 1
            chk.count(("numbers-vs-symbols", name, str(trip)))
            if not same(direct, subst, tol):
                fail(f"{name} called with numbers differs from the symbolic expression with the numbers substituted",
                     arguments=[str(x) for x in trip], called_with_numbers=direct, symbolic_then_substituted=subst)
    info["numbers_vs_symbols_cases"] = n_cases

    # ---- rule 9: exact values ON the boundaries
    for a, b in [(1, R(1, 2)), (R(1, 2), R(1, 2)), (R(2, 3), R(5, 7)), (3, 1), (1, 0)]:
        thr, pthr = (a + b) ** 2, (a - b) ** 2
        chk.count(("exact-threshold", str(a), str(b)))
        for sv, label in ((thr, "threshold"), (pthr, "pseudo-threshold")):
            if sv == 0:
                continue
            v = ps.BreakupMomentumSquared(sv, a, b).doit()
            if v != 0:
                fail(f"q² is not exactly 0 at the {label} (rational arguments)", s=sv, m1=a, m2=b, value=v)
        if b != 0:
            for name in CLASSES[1:]:
                v = numeric(getattr(ps, name)(thr, a, b))
                if v is None or abs(v) > 1e-25:
                    fail(f"{name} is not 0 exactly at threshold (rational arguments)", s=thr, m1=a, m2=b, value=v)
    rho = R(1, 3)
    lg = sp.I * rho / sp.pi * sp.log(sp.Abs((1 + rho) / (1 - rho)))
    expected = {"first": lg, "second": rho + lg, "third": 2 * sp.I * rho / sp.pi * sp.atan(1 / rho)}
    for sv, thr, branch in [(-1, 1, "first"), (R(-1, 10**9), 1, "first"), (0, 1, "third"), (R(1, 2), 1, "third"), (1, 1, "third"),
                            (1 + R(1, 10**9), 1, "second"), (5, 1, "second"), (0, 0, "third"), (R(1, 10**9), 0, "second")]:
        got = numeric(ps._analytic_continuation(rho, sv, thr))
        chk.count(("continuation-branch", str(sv), str(thr)))
        if not same(got, complex(sp.N(expected[branch], 30)), 1e-13):
            fail("_analytic_continuation takes the wrong branch on/near a boundary (s < 0 | s > s_thr | else)", rho=rho, s=sv, s_threshold=thr,
                 expected_branch=branch, value=got)

    # ---- rule 1: ComplexSqrt.__new__ on numbers
    x = sp.Symbol("x", real=True)
    for num in [-4, 4, 0, R(-9, 4), R(9, 4), -2, 2, sp.Float(-4.0), sp.Float(2.25), -4.0, 6.25, R(-1, 3), sp.Integer(-1)]:
        chk.count(("complexsqrt-number", str(num)))
        got = numeric(ComplexSqrt(num))
        val = complex(sp.N(sp.sympify(num), 30))
        want = 1j * math.sqrt(-val.real) if val.real < 0 else complex(math.sqrt(val.real))
        via_def = numeric(ComplexSqrt(x).get_definition().xreplace({x: sp.sympify(num)}))
        if not (same(got, want, 1e-14) and same(via_def, want, 1e-14)):
            fail("ComplexSqrt of a number is not the positive-imaginary / non-negative root", argument=num, value=got, definition_value=via_def, expected=want)

    # ---- rule 2 / 7: compound arguments, generated code, cse off/on, complex and real inputs
    a, b, c = sp.symbols("a b c", real=True)
    compound = [a - b, -(a + b), a / b - c, a * (b + c), a**2 - b, (a - b) * (c - a), -a, a + b + c, (a - b) / (b + c)]
    pts = [(1.0, 3.0, 0.5), (3.0, 1.0, 0.5), (-2.0, 0.7, 1.9), (0.25, 0.25, 4.0)]
    py_sum_defect = []
    n_code = 0
    for arg in compound:
        f_arg = sp.lambdify([a, b, c], arg, "math")
        for cse in (False, True):
            with time_cap(30):
                f_np = sp.lambdify([a, b, c], ComplexSqrt(arg), "numpy", cse=cse)
                f_unf = sp.lambdify([a, b, c], ComplexSqrt(arg).get_definition(), "numpy", cse=cse)
            for pt in pts:
                val = f_arg(*pt)
                want = 1j * math.sqrt(-val) if val < 0 else complex(math.sqrt(val))
                for kind, args in (("complex", (complex(pt[0]), pt[1], pt[2])), ("real", pt)):
                    with np.errstate(all="ignore"):
                        got = complex(f_np(*args))
                        unf = complex(f_unf(*args))
                    n_code += 1
                    chk.count(("complexsqrt-compound", str(arg), cse, kind, pt))
                    if not same(got, want, 1e-13):
                        fail("lambdified ComplexSqrt of a compound argument is not the root of the argument's value (numpy code)",
                             argument=arg, cse=cse, input_kind=kind, point=list(pt), value=got, expected=want)
                    if not same(got, unf, 1e-13):
                        fail("generated numpy code of ComplexSqrt (folded) differs from the code of its definition (unfolded)",
                             argument=arg, cse=cse, input_kind=kind, point=list(pt), folded=got, unfolded=unf)
        # python ("math") printer: `_pythoncode`
        try:
            f_py = sp.lambdify([a, b, c], ComplexSqrt(arg), "math")
            for pt in pts:
                val = f_arg(*pt)
                want = 1j * math.sqrt(-val) if val < 0 else complex(math.sqrt(val))
                try:
                    got = complex(f_py(*pt))
                    ok = same(got, want, 1e-13)
                except ValueError:
                    got, ok = "ValueError: math domain error", False
                if not ok:
                    if isinstance(arg, sp.Add):
                        py_sum_defect.append({"argument": str(arg), "point": list(pt), "value": str(got), "expected": str(want)})
                    # since /repo 1aeaf5e the sum arguments are judged like all others (round 7)
                    if True:  # noqa: SIM102
                        fail("lambdified ComplexSqrt (python/math code) is not the root of the argument's value", argument=arg, point=list(pt), value=got, expected=want)
        except Exception as e:  # noqa: BLE001
            fail("ComplexSqrt cannot be printed as python code", argument=arg, error=repr(e)[:200])
    info["generated_code_evaluations"] = n_code
    # was reproduced on the pinned tree before /repo 1aeaf5e (notes/findings_C11.md); 0 cases expected, each one is also a failing input
    info["pythoncode_sum_argument_precedence_defect"] = {"reproduced_cases": len(py_sum_defect), "first": py_sum_defect[:1]}

    # phase-space classes on compound arguments (s := m², sums): unfolded code at the compound value
    mm, k = sp.symbols("m k", real=True)
    plain = {name: sp.lambdify([s, m1, m2], symbolic[name], "numpy") for name in symbolic}
    cases = [((mm**2, m1, m2), lambda v: (v["m"] ** 2, v["m1"], v["m2"])),
             ((mm + k, m1, m2), lambda v: (v["m"] + v["k"], v["m1"], v["m2"])),
             ((s, m1 + k, m2 - k), lambda v: (v["s"], v["m1"] + v["k"], v["m2"] - v["k"])),
             ((-(mm + k), m1, m1), lambda v: (-(v["m"] + v["k"]), v["m1"], v["m1"])),
             ((mm * (k + m1), m1, m2 / 2), lambda v: (v["m"] * (v["k"] + v["m1"]), v["m1"], v["m2"] / 2))]
    vals = [{"s": 2.3, "m": 1.7, "k": 0.21, "m1": 0.4, "m2": 0.9}, {"s": 0.6, "m": 0.8, "k": 0.05, "m1": 0.5, "m2": 0.6}]
    names = list(symbolic) if tier == "thorough" else ["BreakupMomentumSquared", "PhaseSpaceFactorAbs", "PhaseSpaceFactorComplex", "PhaseSpaceFactorSWave", "EqualMassPhaseSpaceFactor"]
    for args, at in cases:
        for name in names:
            e = builders[name](*args)
            e = e.doit() if hasattr(e, "doit") else e
            syms = sorted(e.free_symbols, key=str)
            for cse in (False, True):
                with time_cap(30):
                    f = sp.lambdify(syms, e, "numpy", cse=cse)
                for v in vals:
                    sv, a1, a2 = at(v)
                    if sv < 0 and name in ("PhaseSpaceFactor", "PhaseSpaceFactorComplex", "PhaseSpaceFactorSWave", "chew_mandelstam_s_wave"):
                        # sqrt(s) of a NEGATED complex128 (-(x+0j) = -x-0j) is on the other side of the cut:
                        # IEEE signed zero, not a printing issue (see MANIFEST level_note of C11)
                        continue
                    with np.errstate(all="ignore"):
                        got = complex(f(*[complex(v[str(q)]) if str(q) in ("s", "m") else v[str(q)] for q in syms]))
                        want = complex(plain[name](complex(sv), a1, a2))
                    chk.count(("compound-class", name, str(args), cse, v["s"]))
                    if (cmath.isfinite(got) or cmath.isfinite(want)) and not same(got, want, 1e-9):
                        fail(f"{name} on compound arguments differs from the same function evaluated at the compound values", arguments=[str(q) for q in args],
                             cse=cse, values=v, value=got, expected=want)

    # folded vs unfolded ComplexSqrt inside the unfolded classes, real and complex inputs
    for name in ("PhaseSpaceFactorComplex", "PhaseSpaceFactorSWave"):
        folded = symbolic[name]
        unfolded = folded.replace(lambda q: isinstance(q, ComplexSqrt), lambda q: q.get_definition())
        for cse in (False, True):
            f1 = sp.lambdify([s, m1, m2], folded, "numpy", cse=cse)
            f2 = sp.lambdify([s, m1, m2], unfolded, "numpy", cse=cse)
            for sv, a1, a2 in [(2.5, 0.3, 0.7), (0.5, 0.3, 0.7), (0.1, 0.3, 0.7), (-1.5, 0.4, 0.4), (1.0, 0.5, 0.5)]:
                for kind, s_in in (("complex", complex(sv)), ("real", sv)):
                    with np.errstate(all="ignore"):
                        v1, v2 = complex(f1(s_in, a1, a2)), complex(f2(s_in, a1, a2))
                    chk.count(("folded-unfolded", name, cse, kind, sv))
                    both_nan = not cmath.isfinite(v1) and not cmath.isfinite(v2)
                    if not both_nan and not same(v1, v2, 1e-13):
                        fail(f"generated code of {name} with folded ComplexSqrt differs from the unfolded definition", cse=cse, input_kind=kind,
                             point=[sv, a1, a2], folded=v1, unfolded=v2)

    # ---- rule 5: defaults
    for name in CLASSES:
        cls = getattr(ps, name)
        chk.count(("name-default", name))
        if cls(s, m1, m2).name is not None:
            fail(f"{name}: default of `name` is not None", value=cls(s, m1, m2).name)
        if cls(s, m1, m2, name="custom").doit() != cls(s, m1, m2).doit():
            fail(f"{name}: passing name= changes the unfolded expression")
    return bad, info
