"""NOT USED BY THE CHECK. Development-time generator of lean/Ampverif/Lemmas/C19Cos.lean (the output is a fixed, checked-in file)"""
import sys; sys.path.insert(0,'/verif')
from tools.lib import common; common.use_repo_source()
from tools.props import C19
import sympy as sp, itertools
from ampform.kinematics.phasespace import Kallen
table = C19.probe()
msyms = C19._param_symbols()
m0,m1,m2,m3,m12,m13,m23 = msyms
ARGS = "m_0 m_1 m_2 m_3 m_12 m_13 m_23"
# component symbols
comp = {i: sp.symbols(f"E{i} x{i} y{i} z{i}", real=True) for i in (1,2,3)}
def vadd(*vs): return tuple(sum(c) for c in zip(*vs))
def dot(a,b): return a[0]*b[0]-a[1]*b[1]-a[2]*b[2]-a[3]*b[3]
P = {1: comp[1], 2: comp[2], 3: comp[3]}; P[0] = vadd(P[1],P[2],P[3])
PL = {1:"p1",2:"p2",3:"p3",0:"(p1 + p2 + p3)"}
sub = {m0**2: dot(P[0],P[0]), m1**2: dot(P[1],P[1]), m2**2: dot(P[2],P[2]), m3**2: dot(P[3],P[3]),
       m12**2: dot(vadd(P[1],P[2]),vadd(P[1],P[2])), m13**2: dot(vadd(P[1],P[3]),vadd(P[1],P[3])), m23**2: dot(vadd(P[2],P[3]),vadd(P[2],P[3]))}
pairmass = {frozenset((1,2)):"m_12", frozenset((1,3)):"m_13", frozenset((2,3)):"m_23"}
def geom(fam, idx):
    """returns (sign, Qvec, Qlean, a idx-vec, alean, b, blean, c-lean)"""
    if fam == "theta":
        i,j = idx; k = 6-i-j
        return -1, vadd(P[i],P[j]), f"(p{i} + p{j})", P[i], PL[i], P[k], PL[k], pairmass[frozenset((i,j))]+" ^ 2"
    if fam == "thetaHat":
        i,j = idx
        return 1, P[0], PL[0], P[i], PL[i], P[j], PL[j], "m_0 ^ 2"
    i,j,k = idx
    if i == 0:
        return 1, P[0], PL[0], P[j], PL[j], P[k], PL[k], "m_0 ^ 2"
    kk = i if k == 0 else k
    d = lambda j: 0 if j == i else 6-i-j
    return 1, P[i], PL[i], P[d(j)], PL[d(j)], P[d(kk)], PL[d(kk)], f"m_{i} ^ 2"
out = ['''/-
Per-definition lemmas about the regenerated arccos arguments `cos…` of `Gen/C19.lean`
(text produced once by a development script from the case table; fixed afterwards):
* `…_range`: `|cos| ≤ 1` wherever `Kibble ≤ 0`, through the identity
  `4 m₀² (λ_a λ_b − N²) = −c · Kibble` (`c = σ_k`, `m₀²` or `m_i²`), which holds modulo
  `σ₁+σ₂+σ₃ = Σ m²`;
* `…_cov`: for ANY three four-vectors whose invariant masses are the seven symbols, the cosine
  is the covariant Gram-determinant ratio `covCos Q a b` (no frame, no physical-region
  assumption).
-/
import Ampverif.Gen.C19
import Ampverif.Lemmas.C19Vec

namespace Ampverif.Lemmas.C19
open Ampverif.Gen.C19

theorem V4.covCos_comm (Q a b : V4) : V4.covCos Q a b = V4.covCos Q b a := by
  have : V4.dot a b = V4.dot b a := by unfold V4.dot; ring
  unfold V4.covCos
  rw [this, mul_comm (V4.dot Q a) (V4.dot Q b), mul_comm (Real.sqrt _) (Real.sqrt _)]

section
variable {m_0 m_1 m_2 m_3 m_12 m_13 m_23 : ℝ}
''']
names = []
for fam, apre, cpre, arity in C19.FAMILIES:
    for (f, idx), ent in table.items():
        if f != fam or ent[0] not in ("acos","negAcos"): continue
        X = ent[1]
        name = C19._name(cpre, idx)
        kal = [a.base for a in X.args if isinstance(a, sp.Pow) and a.exp == -sp.Rational(1,2)]
        assert len(kal)==2 and all(isinstance(k, Kallen) for k in kal), X
        N = sp.Mul(*[a for a in X.args if not (isinstance(a, sp.Pow) and a.exp == -sp.Rational(1,2))])
        sign, Q, Ql, a, al, b, bl, cl = geom(fam, idx)
        def gram(Q,a): return dot(Q,a)**2 - dot(Q,Q)*dot(a,a)
        ev = lambda e: sp.expand(e.doit().subs(sub))
        A, B = ev(kal[0]), ev(kal[1])
        if sp.expand(A - 4*gram(Q,a))==0 and sp.expand(B-4*gram(Q,b))==0: swapped=False
        elif sp.expand(A - 4*gram(Q,b))==0 and sp.expand(B-4*gram(Q,a))==0: swapped=True
        else: raise SystemExit(f"radicands do not match for {name}")
        assert sp.expand(ev(N) - sign*4*(dot(Q,a)*dot(Q,b)-dot(Q,Q)*dot(a,b)))==0, name
        names.append((fam, idx, name))
        out.append(f'''theorem {name}_range (hm : m_0 ≠ 0)
    (hc : m_12 ^ 2 + m_13 ^ 2 + m_23 ^ 2 = m_0 ^ 2 + m_1 ^ 2 + m_2 ^ 2 + m_3 ^ 2)
    (hK : Kibble (m_23 ^ 2) (m_13 ^ 2) (m_12 ^ 2) m_0 m_1 m_2 m_3 ≤ 0) :
    |{name} {ARGS}| ≤ 1 := by
  have e : m_12 ^ 2 = m_0 ^ 2 + m_1 ^ 2 + m_2 ^ 2 + m_3 ^ 2 - m_13 ^ 2 - m_23 ^ 2 := by linarith
  unfold {name}
  rw [ratio_shape]
  apply abs_ratio_le_one
  intro _ _
  apply sq_le_of_identity hm (c := {cl}) (sq_nonneg _) hK
  unfold Kibble Kallen
  rw [e]
  ring
''')
        rhs = f"V4.covCos {Ql} {al} {bl}"
        neg = "-" if sign<0 else ""
        steps = ["  unfold "+name]
        if swapped: steps.append(f"  rw [V4.covCos_comm]")
        steps.append("  unfold V4.covCos")
        steps.append("  rw [ratio_shape" + (", ← neg_div]" if sign<0 else "]"))
        out.append(f'''theorem {name}_cov {{p1 p2 p3 : V4}} (h : Masses p1 p2 p3 {ARGS}) :
    {name} {ARGS} = {neg}{rhs} := by
''' + "\n".join(steps) + '''
  apply ratio_scale
  all_goals
    simp only [Kallen, h.h0, h.h1, h.h2, h.h3, h.h12, h.h13, h.h23, V4.dot, V4.add_E, V4.add_x,
      V4.add_y, V4.add_z]
    ring
''')
out.append("end\n\nend Ampverif.Lemmas.C19")
open('/verif/lean/Ampverif/Lemmas/C19Cos.lean','w').write("\n".join(out).replace('namespace Ampverif.Lemmas.C19\nopen','set_option linter.unusedSimpArgs false\n\nnamespace Ampverif.Lemmas.C19\nopen')+"\n")
print(len(names))
