"""C08 — independent numeric oracle on the REAL lambdified code.

Evaluates the statement of the property itself (Lorentz condition, determinant, L00 >= 1, rest
frame, inverse, z-boost = general boost, additivity of rotations, code = explicit matrix) on the
arrays returned by `sympy.lambdify(<expr>.doit(), cse=...)`, for momenta over twelve orders of
magnitude of beta*gamma, axis-aligned / planar / generic directions and random batch sizes.

Independent of the translator and of the Lean side: the reference boost is the textbook formula
written with the unit vector n = p/|p| and evaluated with mpmath at 60 digits on the very doubles
the real code received; residuals of the matrix identities are computed exactly (mpmath) from
the doubles the real code returned, so the only rounding in play is that of the code under test.

Tolerances are condition aware: the code computes gamma = 1/sqrt(1 - |p|^2/E^2), whose relative
rounding error is about eps*(2*gamma^2 + 3) (cancellation in 1 - beta^2); every bound below is
that error propagated to first order with a safety factor of 8.
"""

from __future__ import annotations

import math

EPS = 2.0 ** -52
SAFETY = 8.0


# ------------------------------------------------------------------------------- inputs


def direction(rng, kind: str):
    if kind == "axis":
        v = [0.0, 0.0, 0.0]
        v[rng.randrange(3)] = rng.choice([-1.0, 1.0])
        return v
    if kind == "plane":
        i, j = rng.sample(range(3), 2)
        ph = rng.uniform(-math.pi, math.pi)
        v = [0.0, 0.0, 0.0]
        v[i], v[j] = math.cos(ph), math.sin(ph)
        return v
    c = rng.uniform(-1, 1)
    ph = rng.uniform(-math.pi, math.pi)
    s = math.sqrt(1 - c * c)
    return [s * math.cos(ph), s * math.sin(ph), c]


def momentum(rng, log_bg_range=(-6.0, 6.0), kind=None):
    """(E, px, py, pz), beta*gamma — mass and beta*gamma log-uniform, direction of the given kind."""
    kind = kind or rng.choice(["axis", "plane", "generic", "generic"])
    m = 10.0 ** rng.uniform(-3.0, 3.0)
    bg = 10.0 ** rng.uniform(*log_bg_range)
    n = direction(rng, kind)
    pabs = m * bg
    p3 = [pabs * c for c in n]
    # E from the components actually stored, so that the doubles are what they are
    E = math.sqrt(m * m + sum(c * c for c in p3))
    return [E, *p3], bg, kind


def batches(rng, n_total, max_batch=64):
    sizes = []
    left = n_total
    for k in (1, 2, 3):  # the smallest batches are always present
        if left >= k:
            sizes.append(k)
            left -= k
    while left > 0:
        k = min(left, rng.choice([1, 1, 2, 3, 5, 8, 17, rng.randint(1, max_batch)]))
        sizes.append(k)
        left -= k
    return sizes


# ------------------------------------------------------------------------------- references


def mp_boost(p, mp):
    """Textbook boost to the rest frame of p (mpmath matrix) and (gamma, m)."""
    E, x, y, z = [mp.mpf(c) for c in p]
    p2 = x * x + y * y + z * z
    m = mp.sqrt(E * E - p2)
    g = E / m
    pabs = mp.sqrt(p2)
    n = [x / pabs, y / pabs, z / pabs]
    bg = pabs / m  # beta*gamma
    L = mp.matrix(4, 4)
    L[0, 0] = g
    for i in range(3):
        L[0, i + 1] = L[i + 1, 0] = -bg * n[i]
        for j in range(3):
            L[i + 1, j + 1] = (1 if i == j else 0) + (g - 1) * n[i] * n[j]
    return L, g, m


def mp_of(a, mp):
    r, c = len(a), len(a[0])
    M = mp.matrix(r, c)
    for i in range(r):
        for j in range(c):
            M[i, j] = mp.mpf(float(a[i][j]))
    return M


def max_abs(M):
    return max(abs(M[i, j]) for i in range(M.rows) for j in range(M.cols))


def gamma_err(g):
    """first-order bound on the relative rounding error of the computed gamma"""
    return EPS * (2.0 * g * g + 8.0)


# ------------------------------------------------------------------------------- the oracle


class RealCode:
    """The real lambdified functions (built lazily; a failure to build or to run is a finding)."""

    def __init__(self):
        import sympy as sp

        from ampform.kinematics import lorentz as lz
        from ampform.sympy._array_expressions import ArrayMultiplication, MatrixMultiplication

        self.sp = sp
        p = lz.FourMomentumSymbol("p", shape=[])
        beta, a, b = sp.symbols("beta a b", real=True)
        na, nb = lz.ArraySize(a), lz.ArraySize(beta)
        self.exprs = {
            "boost": ([p], lz.BoostMatrix(p)),
            "boostNeg": ([p], lz.BoostMatrix(lz.NegativeMomentum(p))),
            "boostSelf": ([p], ArrayMultiplication(lz.BoostMatrix(p), p)),
            "negMom": ([p], lz.NegativeMomentum(p)),
            "metric": ([p], lz.MinkowskiMetric(p)),
            "boostZ": ([beta], lz.BoostZMatrix(beta, n_events=nb)),
            "rotY": ([a], lz.RotationYMatrix(a, n_events=na)),
            "rotZ": ([a], lz.RotationZMatrix(a, n_events=na)),
            "rotYY": ([a, b], MatrixMultiplication(lz.RotationYMatrix(a, n_events=na), lz.RotationYMatrix(b, n_events=na))),
            "rotZZ": ([a, b], MatrixMultiplication(lz.RotationZMatrix(a, n_events=na), lz.RotationZMatrix(b, n_events=na))),
            "rotYZp": ([a, b, p], ArrayMultiplication(lz.RotationYMatrix(a, n_events=na), lz.RotationZMatrix(b, n_events=na), p)),
            "invBoostChain": ([p], ArrayMultiplication(lz.BoostMatrix(lz.NegativeMomentum(p)), lz.BoostMatrix(p), p)),
        }
        self.explicit = {
            "boost": ([p], lz.BoostMatrix(p).as_explicit()),
            "boostZ": ([beta], lz.BoostZMatrix(beta, n_events=nb).as_explicit()),
            "rotY": ([a], lz.RotationYMatrix(a, n_events=na).as_explicit()),
            "rotZ": ([a], lz.RotationZMatrix(a, n_events=na).as_explicit()),
            "metric": ([p], lz.MinkowskiMetric(p).as_explicit()),
        }
        self._f = {}
        self._e = {}

    def f(self, name, cse):
        k = (name, cse)
        if k not in self._f:
            args, e = self.exprs[name]
            self._f[k] = self.sp.lambdify(args, e.doit(), "numpy", cse=cse)
        return self._f[k]

    def explicit_entries(self, name):
        """per-entry lambdified explicit matrix: list of 16 callables"""
        if name not in self._e:
            args, m = self.explicit[name]
            self._e[name] = [self.sp.lambdify(args, m[i, j].doit(), "numpy") for i in range(4) for j in range(4)]
        return self._e[name]

    def explicit_eval(self, name, *arrays):
        import numpy as np

        n = len(arrays[0])
        out = np.empty((n, 4, 4), dtype=complex)
        with np.errstate(all="ignore"):
            for k, fn in enumerate(self.explicit_entries(name)):
                out[:, k // 4, k % 4] = np.broadcast_to(np.asarray(fn(*arrays), dtype=complex), (n,))
        return out


def run(chk, rng, n: int, tier: str = "quick"):  # noqa: C901, PLR0912, PLR0915
    """Returns a list of failing inputs (dicts with a 'what' key)."""
    import mpmath
    import numpy as np

    mp = mpmath.mp
    mp.dps = 60
    bad: list[dict] = []
    rc = RealCode()
    eta = mp.matrix(4, 4)
    for i in range(4):
        eta[i, i] = 1 if i == 0 else -1

    def call(name, cse, *arrays):
        try:
            with np.errstate(all="ignore"):
                return np.asarray(rc.f(name, cse)(*arrays))
        except Exception as e:  # noqa: BLE001
            bad.append({"what": f"the generated code of {name} raised (cse={cse})", "cse": cse,
                        "error": f"{type(e).__name__}: {e}"[:400],
                        "input_shapes": [list(np.shape(a)) for a in arrays],
                        "first_input": [np.asarray(a).tolist()[:1] for a in arrays]})
            return None

    # ------------------------------------------------------------------ metric
    for cse in (False, True):
        for nev in (1, 3):
            pp = np.array([momentum(rng)[0] for _ in range(nev)])
            M = call("metric", cse, pp)
            if M is None:
                continue
            chk.count(("metric", cse, nev))
            want = np.broadcast_to(np.diag([1.0, -1.0, -1.0, -1.0]), (nev, 4, 4))
            if M.shape != (nev, 4, 4) or not np.array_equal(M, want):
                bad.append({"what": "MinkowskiMetric code is not diag(1,-1,-1,-1) per event", "cse": cse,
                            "n_events": nev, "observed": M.tolist()})

    # ------------------------------------------------------------------ boosts
    n_mom = max(8, n)
    moms = [momentum(rng) for _ in range(n_mom)]
    # deterministic extremes and axis-aligned cases are always present
    for lbg in (-6.0, -3.0, 0.0, 3.0, 6.0):
        for kind in ("axis", "generic"):
            moms.append(momentum(rng, (lbg, lbg), kind))
    P = np.array([m_[0] for m_ in moms])
    sizes = batches(rng, len(moms))
    dist = {"beta_gamma_decades": {}, "direction": {}, "batch_sizes": sorted(set(sizes))}
    for _, bg, kind in moms:
        d = str(math.floor(math.log10(bg)))
        dist["beta_gamma_decades"][d] = dist["beta_gamma_decades"].get(d, 0) + 1
        dist["direction"][kind] = dist["direction"].get(kind, 0) + 1
    chk.info("oracle_input_distribution", dist)

    def batched(name, cse, *arrays):
        outs = []
        i = 0
        for k in sizes:
            r = call(name, cse, *[a[i:i + k] for a in arrays])
            if r is None:
                return None
            if r.shape[0] != k:
                bad.append({"what": f"{name} code returns {r.shape} for a batch of {k} events", "cse": cse})
                return None
            outs.append(r)
            i += k
        return np.concatenate(outs)

    expl = None
    try:
        expl = rc.explicit_eval("boost", P)
    except Exception as e:  # noqa: BLE001
        bad.append({"what": "explicit BoostMatrix could not be evaluated", "error": f"{type(e).__name__}: {e}"[:300]})
    for cse in (False, True):
        B = batched("boost", cse, P)
        Bn = batched("boostNeg", cse, P)
        Bs = batched("boostSelf", cse, P)
        Nm = batched("negMom", cse, P)
        Ch = batched("invBoostChain", cse, P)
        if Nm is not None:
            chk.count(("negMom", cse), len(P))
            want = P * np.array([1.0, -1.0, -1.0, -1.0])
            if Nm.shape != P.shape or not np.array_equal(Nm, want):
                k = int(np.argmax(np.any(Nm != want, axis=-1))) if Nm.shape == P.shape else 0
                bad.append({"what": "NegativeMomentum(p) code is not (E,-px,-py,-pz)", "cse": cse,
                            "p": P[k].tolist(), "observed": np.asarray(Nm)[k].tolist()})
        if B is None:
            continue
        if B.shape != (len(P), 4, 4):
            bad.append({"what": "BoostMatrix code has the wrong shape", "cse": cse, "shape": list(B.shape)})
            continue
        for k, (p, bg, kind) in enumerate(moms):
            Lref, g, m = mp_boost(p, mp)
            gf = float(g)
            rel = gamma_err(gf)
            L = mp_of(B[k], mp)
            case = {"cse": cse, "p": p, "beta_gamma": bg, "direction": kind, "event_index": k}
            chk.count(("boost", cse, k))
            if k < 2 and cse:
                chk.sample({"oracle": "boost", "p": p, "beta_gamma": bg, "B00": float(B[k][0][0]), "gamma_ref": gf})
            if not np.all(np.isfinite(B[k])):
                bad.append({"what": "BoostMatrix code returns a non-finite entry for a time-like momentum", **case,
                            "observed": B[k].tolist()})
                continue
            # (i) entries against the 60-digit reference
            tol_e = SAFETY * rel * gf + SAFETY * EPS
            d = max_abs(L - Lref)
            if d > tol_e:
                bad.append({"what": "BoostMatrix code differs from the textbook boost", **case,
                            "max_abs_diff": float(d), "tolerance": tol_e, "observed": B[k].tolist()})
            # (a) Lorentz condition, exact residual of the returned doubles
            tol_l = SAFETY * 2 * 4 * gf * gf * rel + SAFETY * EPS
            r = max_abs(L.T * eta * L - eta)
            if r > tol_l:
                bad.append({"what": "L^T eta L != eta for BoostMatrix code", **case, "residual": float(r), "tolerance": tol_l})
            # (b) determinant
            dd = abs(mp.det(L) - 1)
            if dd > tol_l:
                bad.append({"what": "det BoostMatrix != 1", **case, "det_minus_1": float(dd), "tolerance": tol_l})
            # (c) L00 >= 1
            if float(B[k][0][0]) < 1.0 - 4 * EPS:
                bad.append({"what": "B00 < 1", **case, "B00": float(B[k][0][0])})
            # symmetric
            if max_abs(L - L.T) > SAFETY * EPS * gf:
                bad.append({"what": "BoostMatrix code is not symmetric", **case})
            # (d) rest frame through the generated einsum
            if Bs is not None and Bs.shape == P.shape:
                mf = float(m)
                tol_d = SAFETY * 4 * rel * gf * gf * mf + SAFETY * EPS * mf
                got = [float(v) for v in Bs[k]]
                if abs(got[0] - mf) > tol_d or max(abs(v) for v in got[1:]) > tol_d:
                    bad.append({"what": "B(p) p != (m,0,0,0) (ArrayMultiplication code)", **case,
                                "observed": got, "m": mf, "tolerance": tol_d})
            # (e) inverse
            if Bn is not None and Bn.shape == B.shape:
                Ln = mp_of(Bn[k], mp)
                one = mp.eye(4)
                r = max_abs(Ln * L - one)
                if r > tol_l:
                    bad.append({"what": "B(eta p) B(p) != 1", **case, "residual": float(r), "tolerance": tol_l})
            if Ch is not None and Ch.shape == P.shape:
                tol_c = SAFETY * 16 * rel * gf * gf * abs(p[0]) + SAFETY * EPS * abs(p[0])
                diff = max(abs(float(Ch[k][i]) - p[i]) for i in range(4))
                if diff > tol_c:
                    bad.append({"what": "B(eta p) B(p) p != p (three-array ArrayMultiplication code)", **case,
                                "observed": [float(v) for v in Ch[k]], "tolerance": tol_c})
            # (h) code = explicit
            if expl is not None:
                ex = expl[k]
                tol_x = SAFETY * rel * gf + SAFETY * EPS
                if np.max(np.abs(ex.imag)) > 0 or np.max(np.abs(ex.real - B[k])) > tol_x:
                    bad.append({"what": "BoostMatrix code != as_explicit()", **case,
                                "max_abs_diff": float(np.max(np.abs(ex - B[k]))), "tolerance": tol_x})

    # at rest (outside the property: the source divides by beta^2) — probed and reported only
    try:
        with np.errstate(all="ignore"):
            rest = np.asarray(rc.f("boost", True)(np.array([[1.5, 0.0, 0.0, 0.0]])))
        chk.info("guard_probe_at_rest", {"p": [1.5, 0, 0, 0], "all_finite": bool(np.all(np.isfinite(rest))),
                                         "B": [[None if not math.isfinite(v) else v for v in r] for r in rest[0].tolist()]})
    except Exception as e:  # noqa: BLE001
        chk.info("guard_probe_at_rest", {"error": repr(e)[:200]})

    # ------------------------------------------------------------------ z boost
    n_z = max(8, n // 2)
    betas = [math.copysign(math.tanh(math.asinh(10.0 ** rng.uniform(-6, 6))), rng.choice([-1, 1])) for _ in range(n_z)]
    betas += [0.0, 0.6, -0.6, 1e-9]
    betas = [b for b in betas if abs(b) < 1.0]
    bz = np.array(betas)
    explz = None
    try:
        explz = rc.explicit_eval("boostZ", bz)
    except Exception as e:  # noqa: BLE001
        bad.append({"what": "explicit BoostZMatrix could not be evaluated", "error": f"{type(e).__name__}: {e}"[:300]})
    for cse in (False, True):
        Z = call("boostZ", cse, bz)
        if Z is None:
            continue
        if Z.shape != (len(bz), 4, 4):
            bad.append({"what": "BoostZMatrix code has the wrong shape", "cse": cse, "shape": list(Z.shape)})
            continue
        for k, b in enumerate(betas):
            bm = mp.mpf(b)
            g = 1 / mp.sqrt(1 - bm * bm)
            gf = float(g)
            rel = gamma_err(gf)
            Lref = mp.eye(4)
            Lref[0, 0] = Lref[3, 3] = g
            Lref[0, 3] = Lref[3, 0] = -g * bm
            L = mp_of(Z[k], mp)
            case = {"cse": cse, "beta": b}
            chk.count(("boostZ", cse, k))
            tol_e = SAFETY * rel * gf + SAFETY * EPS
            if not np.all(np.isfinite(Z[k])) or max_abs(L - Lref) > tol_e:
                bad.append({"what": "BoostZMatrix code differs from the textbook z boost", **case, "observed": Z[k].tolist()})
                continue
            tol_l = SAFETY * 2 * 4 * gf * gf * rel + SAFETY * EPS
            if max_abs(L.T * eta * L - eta) > tol_l:
                bad.append({"what": "L^T eta L != eta for BoostZMatrix code", **case})
            if abs(mp.det(L) - 1) > tol_l:
                bad.append({"what": "det BoostZMatrix != 1", **case})
            if float(Z[k][0][0]) < 1.0 - 4 * EPS:
                bad.append({"what": "Bz00 < 1", **case})
            if explz is not None and (np.max(np.abs(explz[k].imag)) > 0 or np.max(np.abs(explz[k].real - Z[k])) > tol_e):
                bad.append({"what": "BoostZMatrix code != as_explicit()", **case})
    # z boost = general boost for momenta along z
    zm = []
    for _ in range(max(6, n // 4)):
        m = 10.0 ** rng.uniform(-2, 2)
        bg = 10.0 ** rng.uniform(-5, 5)
        pz = rng.choice([-1.0, 1.0]) * m * bg
        zm.append([math.sqrt(m * m + pz * pz), 0.0, 0.0, pz])
    PZ = np.array(zm)
    for cse in (False, True):
        B = call("boost", cse, PZ)
        Z = call("boostZ", cse, PZ[:, 3] / PZ[:, 0])
        if B is None or Z is None:
            continue
        for k, p in enumerate(zm):
            _, g, _ = mp_boost(p, mp)
            gf = float(g)
            tol = 2 * SAFETY * gamma_err(gf) * gf + SAFETY * EPS
            chk.count(("boostZ=boost", cse, k))
            if not (np.max(np.abs(B[k] - Z[k])) <= tol):
                bad.append({"what": "BoostZMatrix(pz/E) != BoostMatrix(p) for p along z", "cse": cse, "p": p,
                            "max_abs_diff": float(np.max(np.abs(B[k] - Z[k]))), "tolerance": tol})

    # ------------------------------------------------------------------ rotations
    n_r = max(8, n // 2)
    angs = [rng.uniform(-2 * math.pi, 2 * math.pi) for _ in range(n_r)] + [0.0, math.pi / 2, -math.pi / 2, math.pi, 1e-9]
    angs2 = [rng.uniform(-2 * math.pi, 2 * math.pi) for _ in angs]
    A, A2 = np.array(angs), np.array(angs2)
    PR = np.array([momentum(rng, (-2, 2))[0] for _ in angs])

    def rot_ref(axis, a):
        c, s = mp.cos(mp.mpf(a)), mp.sin(mp.mpf(a))
        R = mp.eye(4)
        if axis == "Y":
            R[1, 1] = R[3, 3] = c
            R[1, 3] = s
            R[3, 1] = -s
        else:
            R[1, 1] = R[2, 2] = c
            R[1, 2] = -s
            R[2, 1] = s
        return R

    tol_r = 4 * SAFETY * EPS
    for axis in ("Y", "Z"):
        try:
            ex = rc.explicit_eval("rot" + axis, A)
        except Exception as e:  # noqa: BLE001
            bad.append({"what": f"explicit Rotation{axis}Matrix could not be evaluated", "error": repr(e)[:300]})
            ex = None
        for cse in (False, True):
            R = call("rot" + axis, cse, A)
            RR = call(f"rot{axis}{axis}", cse, A, A2)
            Rb = call("rot" + axis, cse, A2)
            Rab = call("rot" + axis, cse, A + A2)
            if R is None:
                continue
            if R.shape != (len(A), 4, 4):
                bad.append({"what": f"Rotation{axis}Matrix code has the wrong shape", "cse": cse, "shape": list(R.shape)})
                continue
            for k, a in enumerate(angs):
                L = mp_of(R[k], mp)
                case = {"cse": cse, "angle": a}
                chk.count(("rot" + axis, cse, k))
                if max_abs(L.T * eta * L - eta) > tol_r:
                    bad.append({"what": f"R^T eta R != eta for Rotation{axis}Matrix", **case})
                if abs(mp.det(L) - 1) > tol_r:
                    bad.append({"what": f"det Rotation{axis}Matrix != 1", **case})
                if float(R[k][0][0]) != 1.0:
                    bad.append({"what": f"Rotation{axis}Matrix 00 entry is not 1", **case})
                if ex is not None and np.max(np.abs(ex[k] - R[k])) > tol_r:
                    bad.append({"what": f"Rotation{axis}Matrix code != as_explicit()", **case})
                if max_abs(L - rot_ref(axis, a)) > tol_r:
                    bad.append({"what": f"Rotation{axis}Matrix code is not the active right-handed rotation about {axis.lower()} "
                                        "(convention of the docstring and of the Lean theorem rot" + axis + "Ex_abs)",
                                **case, "observed": R[k].tolist()})
                # additivity, on the code's own matrices: exact product of the returned doubles
                if Rb is not None and Rab is not None and Rb.shape == R.shape and Rab.shape == R.shape:
                    tol_a = 2 * tol_r * (1 + abs(a) + abs(angs2[k]))
                    if max_abs(L * mp_of(Rb[k], mp) - mp_of(Rab[k], mp)) > tol_a:
                        bad.append({"what": f"R{axis.lower()}(a) R{axis.lower()}(b) != R{axis.lower()}(a+b)", **case, "b": angs2[k]})
                    if RR is not None and RR.shape == R.shape and max_abs(mp_of(RR[k], mp) - L * mp_of(Rb[k], mp)) > tol_r * 2:
                        bad.append({"what": f"MatrixMultiplication(R{axis.lower()}(a), R{axis.lower()}(b)) code is not the matrix product",
                                    **case, "b": angs2[k], "observed": RR[k].tolist()})
    for cse in (False, True):
        V = call("rotYZp", cse, A, A2, PR)
        Ry = call("rotY", cse, A)
        Rz = call("rotZ", cse, A2)
        if V is None or Ry is None or Rz is None:
            continue
        for k, a in enumerate(angs):
            want = mp_of(Ry[k], mp) * (mp_of(Rz[k], mp) * mp.matrix([mp.mpf(c) for c in PR[k]]))
            scale = float(abs(PR[k][0]))
            chk.count(("rotYZp", cse, k))
            if V.shape != PR.shape or max(abs(mp.mpf(float(V[k][i])) - want[i]) for i in range(4)) > 4 * tol_r * scale:
                bad.append({"what": "ArrayMultiplication(Ry(a), Rz(b), p) code (three arrays) is not the chain product Ry(a)(Rz(b) p)",
                            "cse": cse, "a": a, "b": angs2[k], "p": PR[k].tolist(),
                            "observed": np.asarray(V)[k].tolist() if V.ndim == 2 else None})  # noqa: PLR2004
    run_compound(chk, rng, n, bad)
    run_wrapped(chk, rng, n, bad, tier)
    return bad


def run_compound(chk, rng, n: int, bad: list):  # noqa: C901, PLR0912, PLR0915
    """Compound ARGUMENTS (sums, differences, negated quotients, powers, products with a sum; sums of
    arrays; boosted momenta): the printed templates must keep their argument holes atomic. For each
    instance the real lambdified code (cse off / on) is compared with the textbook matrix at the value
    of the argument (mpmath), with the library's own `as_explicit()` evaluated numerically, and the
    Lorentz condition is checked on the returned doubles."""
    import mpmath
    import numpy as np
    import sympy as sp

    from ampform.kinematics import lorentz as lz
    from ampform.sympy._array_expressions import ArrayMultiplication, ArraySum

    mp = mpmath.mp
    eta = mp.matrix(4, 4)
    for i in range(4):
        eta[i, i] = 1 if i == 0 else -1
    b1, b2, eps = sp.symbols("b1 b2 epsilon", real=True)
    p = lz.FourMomentumSymbol("p", shape=[])
    q = lz.FourMomentumSymbol("q", shape=[])
    nev = max(4, min(n // 8, 300))

    def lam(args, expr, cse, what):
        try:
            return sp.lambdify(args, expr.doit(), "numpy", cse=cse)
        except Exception as e:  # noqa: BLE001
            bad.append({"what": f"lambdify failed for {what}", "cse": cse, "error": repr(e)[:300]})
            return None

    def run_f(f, arrays, what, cse):
        try:
            with np.errstate(all="ignore"):
                return np.asarray(f(*arrays))
        except Exception as e:  # noqa: BLE001
            bad.append({"what": f"the generated code of {what} raised (cse={cse})", "cse": cse,
                        "error": f"{type(e).__name__}: {e}"[:300]})
            return None

    def explicit_numeric(obj, args, arrays, k):
        """the library's own as_explicit() with the numbers of event k substituted (sympy evalf)"""
        subs = {}
        for a, arr in zip(args, arrays):
            subs[a] = float(arr[k])
        m = obj.as_explicit().xreplace(subs).doit()
        return np.array(m.evalf(30), dtype=complex)

    # ---------------- scalar-argument classes
    def u(lo, hi):
        return np.array([rng.uniform(lo, hi) for _ in range(nev)])

    scalar_forms = {
        "b1 + b2": (b1 + b2, [b1, b2], lambda: [u(-0.45, 0.45), u(-0.45, 0.45)], lambda v: v[0] + v[1]),
        "b1 - b2": (b1 - b2, [b1, b2], lambda: [u(-0.45, 0.45), u(-0.45, 0.45)], lambda v: v[0] - v[1]),
        "-b1 - b2": (-(b1 + b2), [b1, b2], lambda: [u(-0.45, 0.45), u(-0.45, 0.45)], lambda v: -(v[0] + v[1])),
        "1 - epsilon": (1 - eps, [eps], lambda: [np.array([10.0 ** rng.uniform(-6, -0.3) for _ in range(nev)])],
                        lambda v: 1 - v[0]),
        "-b1/b2": (-b1 / b2, [b1, b2], lambda: (lambda d: [u(-0.9, 0.9) * d, d])(u(0.3, 3.0)), lambda v: -v[0] / v[1]),
        "b1**2": (b1**2, [b1], lambda: [u(-0.95, 0.95)], lambda v: v[0] ** 2),
        "b1*(b1 + b2)": (b1 * (b1 + b2), [b1, b2], lambda: [u(-0.6, 0.6), u(-0.6, 0.6)], lambda v: v[0] * (v[0] + v[1])),
    }
    tol_r = 4 * SAFETY * EPS
    for fname, (arg, syms, gen, val) in scalar_forms.items():
        arrays = gen()
        mp_arrays = None
        for cname, cls in (("BoostZMatrix", lz.BoostZMatrix), ("RotationYMatrix", lz.RotationYMatrix),
                           ("RotationZMatrix", lz.RotationZMatrix)):
            obj = cls(arg, n_events=lz.ArraySize(syms[0]))
            what = f"{cname}({fname})"
            for cse in (False, True):
                f = lam(syms, obj, cse, what)
                if f is None:
                    continue
                M = run_f(f, arrays, what, cse)
                if M is None:
                    continue
                if M.shape != (nev, 4, 4):
                    bad.append({"what": f"{what} code has the wrong shape", "cse": cse, "shape": list(M.shape)})
                    continue
                for k in range(nev):
                    # value of the argument from the very doubles, in 60 digits
                    mv = [mp.mpf(float(a[k])) for a in arrays]
                    x = val(mv)
                    case = {"cse": cse, "argument": fname, "values": [float(a[k]) for a in arrays], "argument_value": float(x)}
                    chk.count(("compound", cname, fname, cse, k))
                    L = mp_of(M[k], mp)
                    if cname == "BoostZMatrix":
                        g = 1 / mp.sqrt(1 - x * x)
                        gf = float(g)
                        # the argument itself is rounded by the code: d(gamma)/gamma = gamma^2 beta d(beta)
                        rel = gamma_err(gf) + 4 * EPS * gf * gf
                        ref = mp.eye(4)
                        ref[0, 0] = ref[3, 3] = g
                        ref[0, 3] = ref[3, 0] = -g * x
                        tol_e = SAFETY * rel * gf + SAFETY * EPS
                        tol_l = SAFETY * 8 * gf * gf * rel + SAFETY * EPS
                    else:
                        c, sn = mp.cos(x), mp.sin(x)
                        ref = mp.eye(4)
                        if cname == "RotationYMatrix":
                            ref[1, 1] = ref[3, 3] = c
                            ref[1, 3] = sn
                            ref[3, 1] = -sn
                        else:
                            ref[1, 1] = ref[2, 2] = c
                            ref[1, 2] = -sn
                            ref[2, 1] = sn
                        tol_e = tol_r * (1 + abs(float(x)))
                        tol_l = tol_r
                    if not np.all(np.isfinite(M[k])) or max_abs(L - ref) > tol_e:
                        bad.append({"what": f"{cname} code with a compound argument differs from the matrix at the value of the argument",
                                    **case, "max_abs_diff": float(max_abs(L - ref)) if np.all(np.isfinite(M[k])) else None,
                                    "tolerance": tol_e, "observed": M[k].tolist()})
                        continue
                    if max_abs(L.T * eta * L - eta) > tol_l:
                        bad.append({"what": f"L^T eta L != eta for {cname} code with a compound argument", **case})
                    if k < 2:  # the library's own explicit matrix at the same numbers (slow: sympy evalf)
                        try:
                            ex = explicit_numeric(obj, syms, arrays, k)
                            if np.max(np.abs(ex - M[k])) > tol_e * 4 + 1e-13:
                                bad.append({"what": f"{cname} code with a compound argument != as_explicit()", **case,
                                            "max_abs_diff": float(np.max(np.abs(ex - M[k]))), "tolerance": tol_e * 4 + 1e-13})
                        except Exception as e:  # noqa: BLE001
                            bad.append({"what": f"as_explicit() of {what} could not be evaluated", "error": repr(e)[:200]})

    # ---------------- the unfolded implementation object REWRITTEN after doit(): expand(), expand(trig=True),
    # replacement of a whole argument by an equal sum (xreplace), direct construction with a sum argument.
    # The value of every argument is unchanged, so the generated code must still give the matrix at b1 + b2.
    B1, B2 = u(-0.45, 0.45), u(-0.45, 0.45)
    n12 = lz.ArraySize(b1)

    def rewrites(cls):
        base = cls(b1 + b2, n_events=n12).doit()
        out = {"doit().expand()": lambda: base.expand(),
               "doit().expand(trig=True)": lambda: base.expand(trig=True)}
        k = 2  # gamma_beta / sin_angle
        summed = base.args[k].expand(trig=True)
        out["doit().xreplace({argument: equal sum})"] = lambda: base.xreplace({base.args[k]: summed})
        out["direct construction with a sum argument"] = lambda: type(base)(*[summed if i == k else a for i, a in enumerate(base.args)])
        k1 = 1  # gamma / cos_angle
        summed1 = base.args[k1].expand(trig=True)
        out["direct construction with expanded first entry"] = lambda: type(base)(*[summed1 if i == k1 else a for i, a in enumerate(base.args)])
        return out

    for cname, cls in (("BoostZMatrix", lz.BoostZMatrix), ("RotationYMatrix", lz.RotationYMatrix),
                       ("RotationZMatrix", lz.RotationZMatrix)):
        for rname, make in rewrites(cls).items():
            what = f"{cname}(b1 + b2).{rname}"
            try:
                obj = make()
            except Exception as e:  # noqa: BLE001
                bad.append({"what": f"rewriting the unfolded {cname} failed", "rewrite": rname, "error": repr(e)[:300]})
                continue
            for cse in (False, True):
                try:
                    f = sp.lambdify([b1, b2], obj, "numpy", cse=cse)
                except Exception as e:  # noqa: BLE001
                    bad.append({"what": f"lambdify failed for {what}", "cse": cse, "error": repr(e)[:300]})
                    continue
                M = run_f(f, [B1, B2], what, cse)
                if M is None:
                    continue
                if M.shape != (nev, 4, 4):
                    bad.append({"what": f"{what} code has the wrong shape", "cse": cse, "shape": list(M.shape)})
                    continue
                for k in range(nev):
                    x = mp.mpf(float(B1[k])) + mp.mpf(float(B2[k]))
                    ref = mp.eye(4)
                    if cname == "BoostZMatrix":
                        g = 1 / mp.sqrt(1 - x * x)
                        gf = float(g)
                        ref[0, 0] = ref[3, 3] = g
                        ref[0, 3] = ref[3, 0] = -g * x
                        tol_e = SAFETY * (gamma_err(gf) + 8 * EPS * gf * gf) * gf + 4 * SAFETY * EPS
                    else:
                        c, sn = mp.cos(x), mp.sin(x)
                        if cname == "RotationYMatrix":
                            ref[1, 1] = ref[3, 3] = c
                            ref[1, 3] = sn
                            ref[3, 1] = -sn
                        else:
                            ref[1, 1] = ref[2, 2] = c
                            ref[1, 2] = -sn
                            ref[2, 1] = sn
                        tol_e = 4 * tol_r
                    chk.count(("rewritten", cname, rname, cse, k))
                    d = max_abs(mp_of(M[k], mp) - ref) if np.all(np.isfinite(M[k])) else mp.inf
                    if d > tol_e:
                        bad.append({"what": f"code generated for a {cname} implementation object rewritten after doit() "
                                            "is not the matrix at the value of its argument",
                                    "rewrite": rname, "cse": cse, "b1": float(B1[k]), "b2": float(B2[k]),
                                    "max_abs_diff": float(d), "tolerance": tol_e, "observed": M[k].tolist(),
                                    "expected_03_or_13": float(ref[0, 3] if cname == "BoostZMatrix" else ref[1, 3])})

    # ---------------- velocity computed from a momentum along z: pz/E and 1 - (E - pz)/E
    zm = []
    for _ in range(nev):
        m = 10.0 ** rng.uniform(-2, 1)
        bg = 10.0 ** rng.uniform(-3, 3) * rng.choice([-1.0, 1.0])
        pz = m * bg
        zm.append([math.sqrt(m * m + pz * pz), 0.0, 0.0, pz])
    PZ = np.array(zm)
    mom_forms = {
        "pz/E": lz.FourMomentumZ(p) / lz.Energy(p),
        "1 - (E - pz)/E": 1 - (lz.Energy(p) - lz.FourMomentumZ(p)) / lz.Energy(p),
    }
    for fname, arg in mom_forms.items():
        obj = lz.BoostZMatrix(arg, n_events=lz.ArraySize(p))
        what = f"BoostZMatrix({fname})"
        for cse in (False, True):
            f = lam([p], obj, cse, what)
            M = run_f(f, [PZ], what, cse) if f is not None else None
            if M is None or M.shape != (nev, 4, 4):
                continue
            for k, pk in enumerate(zm):
                Lref, g, _ = mp_boost(pk, mp)
                gf = float(g)
                # beta = 1 - (E - pz)/E carries an ABSOLUTE error of a few eps: d(gamma*beta) ~ eps*gamma^3
                rel = gamma_err(gf) + 8 * EPS * gf * gf
                tol_e = SAFETY * rel * gf + 4 * SAFETY * EPS
                chk.count(("compound", "BoostZ(momentum)", fname, cse, k))
                d = max_abs(mp_of(M[k], mp) - Lref)
                if not np.all(np.isfinite(M[k])) or d > tol_e:
                    bad.append({"what": "BoostZMatrix with a velocity computed from a momentum along z != BoostMatrix(p)",
                                "cse": cse, "argument": fname, "p": pk, "max_abs_diff": float(d), "tolerance": tol_e,
                                "observed": M[k].tolist()})

    # ---------------- array arguments: sum of momenta, boosted momentum (boost chain), negated sum
    P = np.array([momentum(rng, (-2.0, 1.5))[0] for _ in range(nev)])
    Q = np.array([momentum(rng, (-2.0, 1.5))[0] for _ in range(nev)])
    S = P + Q  # what `p + q` evaluates to in the generated code
    arr_cases = {
        "BoostMatrix(p + q)": (lz.BoostMatrix(ArraySum(p, q)), lambda k: [float(c) for c in S[k]]),
        "BoostMatrix(NegativeMomentum(p + q))": (lz.BoostMatrix(lz.NegativeMomentum(ArraySum(p, q))),
                                                 lambda k: [float(S[k][0]), *[-float(c) for c in S[k][1:]]]),
    }
    for what, (obj, arg_of) in arr_cases.items():
        for cse in (False, True):
            f = lam([p, q], obj, cse, what)
            M = run_f(f, [P, Q], what, cse) if f is not None else None
            if M is None:
                continue
            if M.shape != (nev, 4, 4):
                bad.append({"what": f"{what} code has the wrong shape", "cse": cse, "shape": list(M.shape)})
                continue
            for k in range(nev):
                Lref, g, _ = mp_boost(arg_of(k), mp)
                gf = float(g)
                tol_e = SAFETY * gamma_err(gf) * gf + SAFETY * EPS
                chk.count(("compound", what, cse, k))
                d = max_abs(mp_of(M[k], mp) - Lref)
                if not np.all(np.isfinite(M[k])) or d > tol_e:
                    bad.append({"what": f"{what} code is not the boost matrix of the summed momentum", "cse": cse,
                                "p": P[k].tolist(), "q": Q[k].tolist(), "max_abs_diff": float(d), "tolerance": tol_e})
    # boost chain as built by compute_boost_chain: BoostMatrix(ArrayMultiplication(BoostMatrix(q), p))
    Pc = np.array([momentum(rng, (-2.0, 1.0))[0] for _ in range(nev)])
    Qc = np.array([momentum(rng, (-2.0, 1.0))[0] for _ in range(nev)])
    obj = lz.BoostMatrix(ArrayMultiplication(lz.BoostMatrix(q), p))
    for cse in (False, True):
        f = lam([p, q], obj, cse, "boost chain")
        M = run_f(f, [Pc, Qc], "BoostMatrix(ArrayMultiplication(BoostMatrix(q), p))", cse) if f is not None else None
        if M is None or M.shape != (nev, 4, 4):
            continue
        for k in range(nev):
            Lq, gq, _ = mp_boost([float(c) for c in Qc[k]], mp)
            v = Lq * mp.matrix([mp.mpf(float(c)) for c in Pc[k]])
            Lref, g, _ = mp_boost([v[i] for i in range(4)], mp)
            gf, gqf = float(g), float(gq)
            # error of the boosted momentum (relative ~ gamma_err(gq)*gq^2) enters gamma_v with a factor gamma_v^2
            rel = gamma_err(gf) + 8 * gf * gf * gamma_err(gqf) * gqf * gqf * float(mp.mpf(float(Pc[k][0])) * gq / v[0])
            tol_e = SAFETY * rel * gf + SAFETY * EPS
            chk.count(("compound", "boost chain", cse, k))
            d = max_abs(mp_of(M[k], mp) - Lref)
            if not np.all(np.isfinite(M[k])) or d > tol_e:
                bad.append({"what": "BoostMatrix(ArrayMultiplication(BoostMatrix(q), p)) code is not the boost matrix of the boosted momentum",
                            "cse": cse, "p": Pc[k].tolist(), "q": Qc[k].tolist(), "max_abs_diff": float(d), "tolerance": tol_e})


class _TimeLimit:
    """wall-clock cap for one case (SIGALRM; main thread only — a no-op elsewhere)"""

    class Exceeded(Exception):
        pass

    def __init__(self, seconds: float):
        self.seconds = seconds
        self.armed = False

    def __enter__(self):
        import signal
        import threading

        if threading.current_thread() is threading.main_thread() and hasattr(signal, "setitimer"):
            def handler(signum, frame):
                raise _TimeLimit.Exceeded

            self.old = signal.signal(signal.SIGALRM, handler)
            signal.setitimer(signal.ITIMER_REAL, self.seconds)
            self.armed = True
        return self

    def __exit__(self, *exc):
        import signal

        if self.armed:
            signal.setitimer(signal.ITIMER_REAL, 0)
            signal.signal(signal.SIGALRM, self.old)
        return False


def run_wrapped(chk, rng, n: int, bad: list, tier: str = "quick"):  # noqa: C901, PLR0912, PLR0915
    """WRAPPED momenta: the momentum argument of `BoostMatrix` is an expression tree — space inversion
    applied several times, inversions inside and around sums, a momentum boosted by another boost (and
    inverted before / after that). For each such argument A(p[, q]) the real lambdified code (cse off / on) is
    evaluated and judged on the statement of the property:

    * `BoostMatrix(A)` is the textbook boost (60 digits) at the VALUE of A, a Lorentz matrix with det 1;
    * `ArrayMultiplication(BoostMatrix(A), A)` is `(m, 0, 0, 0)`;
    * `MatrixMultiplication(BoostMatrix(NegativeMomentum(A)), BoostMatrix(A))` is the unit matrix;
    * the code agrees with the library's own `BoostMatrix(A).as_explicit()`;
    * the code of A itself is the value of A (exactly, where only the metric and sums are involved).

    Every case has a wall-clock cap (nested arguments make the printed code grow geometrically)."""
    import time

    import mpmath
    import numpy as np
    import sympy as sp

    from ampform.kinematics import lorentz as lz
    from ampform.sympy._array_expressions import ArrayMultiplication, ArraySum, MatrixMultiplication

    mp = mpmath.mp
    eta = mp.matrix(4, 4)
    for i in range(4):
        eta[i, i] = 1 if i == 0 else -1
    p = lz.FourMomentumSymbol("p", shape=[])
    q = lz.FourMomentumSymbol("q", shape=[])
    N, B = lz.NegativeMomentum, lz.BoostMatrix
    nev = max(4, min(n // 20, 60))
    cap = 120.0 if tier == "quick" else 600.0
    P = np.array([momentum(rng, (-2.0, 1.5))[0] for _ in range(nev)])
    Q = np.array([momentum(rng, (-2.0, 1.0))[0] for _ in range(nev)])
    flip = np.array([1.0, -1.0, -1.0, -1.0])

    def mp_vec(v):
        return mp.matrix([mp.mpf(float(c)) for c in v])

    def boosted_by(qv, pv):
        """(B(q) p in 60 digits, gamma_q, relative error bound of the float64 result)"""
        Lq, gq, _ = mp_boost([float(c) for c in qv], mp)
        v = Lq * mp_vec(pv)
        gqf = float(gq)
        return v, gqf, gamma_err(gqf) * gqf * gqf * float(mp.mpf(float(pv[0])) * gq / v[0])

    # name -> (expression A of the argument, value of A for event k -> (mp 4-vector, relative error of the float64
    #          value of A), exact?, expressions evaluated WITHOUT cse, expressions evaluated WITH cse);
    # expressions: A itself, B = BoostMatrix(A), rest = B(A)·A, inv = B(NegativeMomentum(A))·B(A).
    # Without cse the printer repeats a nested argument inside every `len(..)` of the metric arrays and in every
    # entry of a boost matrix: the source grows by a factor ~17 per inversion and ~20 per boost (8 MB for three
    # inversions), so the deeper expressions are evaluated with cse only (thorough: one level deeper).
    ALL = ("A", "B", "rest", "inv")
    AB = ("A", "B")
    thorough = tier != "quick"
    S, D = P + Q, np.column_stack([P[:, 0] + Q[:, 0], P[:, 1:] - Q[:, 1:]])
    args1 = {
        "NegativeMomentum(NegativeMomentum(p))": (N(N(p)), lambda k: (mp_vec(P[k]), 0.0), True, ALL if thorough else AB, ALL),
        "NegativeMomentum(NegativeMomentum(NegativeMomentum(p)))": (N(N(N(p))), lambda k: (mp_vec(P[k] * flip), 0.0), True,
                                                                    AB if thorough else (), ALL),
        "NegativeMomentum applied four times to p": (N(N(N(N(p)))), lambda k: (mp_vec(P[k]), 0.0), True, (), ALL),
    }
    args2 = {
        "ArraySum(NegativeMomentum(p), NegativeMomentum(q))": (ArraySum(N(p), N(q)), lambda k: (mp_vec(S[k] * flip), 0.0), True,
                                                               ALL if thorough else AB, ALL),
        "ArraySum(p, NegativeMomentum(q))": (ArraySum(p, N(q)), lambda k: (mp_vec(D[k]), 0.0), True,
                                             ALL if thorough else AB, ALL),
        "NegativeMomentum(ArraySum(NegativeMomentum(p), q))": (N(ArraySum(N(p), q)), lambda k: (mp_vec(D[k]), 0.0), True,
                                                               ("A", "B", "rest") if thorough else (), ALL),
        "NegativeMomentum(NegativeMomentum(ArraySum(p, q)))": (N(N(ArraySum(p, q))), lambda k: (mp_vec(S[k]), 0.0), True,
                                                               ("A", "B", "rest") if thorough else (), ALL),
        "ArraySum(NegativeMomentum(NegativeMomentum(p)), q)": (ArraySum(N(N(p)), q), lambda k: (mp_vec(S[k]), 0.0), True,
                                                               ("A", "B", "rest") if thorough else (), ALL),
        # boosted momenta: `doit()` of a boost of a boosted momentum already takes seconds (it walks the tree, not
        # the DAG), so the quick tier keeps one of them, with cse, and leaves rest frame / inverse to the thorough tier
        "ArrayMultiplication(BoostMatrix(q), NegativeMomentum(p))": (
            ArrayMultiplication(B(q), N(p)), lambda k: (lambda v, g, r: (v, r))(*boosted_by(Q[k], P[k] * flip)), False,
            AB if thorough else ("A",), ALL if thorough else AB),
    }
    if thorough:
        args2.update({
            "NegativeMomentum(ArrayMultiplication(BoostMatrix(q), p))": (
                N(ArrayMultiplication(B(q), p)),
                lambda k: (lambda v, g, r: (mp.matrix([v[0], -v[1], -v[2], -v[3]]), r))(*boosted_by(Q[k], P[k])), False,
                AB, ALL),
            "ArrayMultiplication(BoostMatrix(NegativeMomentum(q)), p)": (
                ArrayMultiplication(B(N(q)), p), lambda k: (lambda v, g, r: (v, r))(*boosted_by(Q[k] * flip, P[k])), False,
                AB, ALL),
            "ArrayMultiplication(BoostMatrix(NegativeMomentum(NegativeMomentum(q))), p)": (
                ArrayMultiplication(B(N(N(q))), p), lambda k: (lambda v, g, r: (v, r))(*boosted_by(Q[k], P[k])), False,
                ("A",), ALL),
        })
    one = mp.eye(4)
    timings = {}
    for table, syms, arrays in ((args1, [p], [P]), (args2, [p, q], [P, Q])):
        for aname, (A, value, exact, without_cse, with_cse) in table.items():
            t_case = time.time()
            try:
                with _TimeLimit(cap):
                    try:
                        fx = sp.lambdify(syms, B(A).as_explicit().doit(), "numpy", cse=True)
                        with np.errstate(all="ignore"):
                            rows = fx(*arrays)
                        EX = np.empty((nev, 4, 4), dtype=complex)
                        for i in range(4):
                            for j in range(4):
                                EX[:, i, j] = np.broadcast_to(np.asarray(rows[i][j], dtype=complex), (nev,))
                    except _TimeLimit.Exceeded:
                        raise
                    except Exception as e:  # noqa: BLE001
                        bad.append({"what": "as_explicit() of BoostMatrix with a wrapped momentum could not be evaluated",
                                    "argument": aname, "error": f"{type(e).__name__}: {e}"[:300]})
                        EX = None
                    for cse in (False, True):
                        exprs = {
                            "A": A,
                            "B": B(A),
                            "rest": ArrayMultiplication(B(A), A),
                            "inv": MatrixMultiplication(B(N(A)), B(A)),
                        }
                        wanted = with_cse if cse else without_cse
                        if not wanted:
                            continue
                        out = {}
                        for key, ex in exprs.items():
                            if key not in wanted:
                                continue
                            try:
                                f = sp.lambdify(syms, ex.doit(), "numpy", cse=cse)
                                with np.errstate(all="ignore"):
                                    out[key] = np.asarray(f(*arrays))
                            except _TimeLimit.Exceeded:
                                raise
                            except Exception as e:  # noqa: BLE001
                                bad.append({"what": "the generated code for a wrapped momentum raised", "argument": aname,
                                            "expression": key, "cse": cse, "error": f"{type(e).__name__}: {e}"[:300]})
                        shapes = {"A": (nev, 4), "B": (nev, 4, 4), "rest": (nev, 4), "inv": (nev, 4, 4)}
                        for key in list(out):
                            if out[key].shape != shapes[key]:
                                bad.append({"what": "the generated code for a wrapped momentum has the wrong shape",
                                            "argument": aname, "expression": key, "cse": cse, "shape": list(out[key].shape)})
                                del out[key]
                        for k in range(nev):
                            a, rel_a = value(k)
                            Lref, g, m = mp_boost([a[i] for i in range(4)], mp)
                            gf, mf = float(g), float(m)
                            # the argument's own relative error enters gamma with a factor gamma^2
                            rel = gamma_err(gf) + 8 * gf * gf * rel_a
                            case = {"argument": aname, "cse": cse, "p": P[k].tolist(), "event_index": k,
                                    "argument_value": [float(a[i]) for i in range(4)]}
                            if len(syms) == 2:  # noqa: PLR2004
                                case["q"] = Q[k].tolist()
                            chk.count(("wrapped", aname, cse, k))
                            if "A" in out:
                                got = out["A"][k]
                                scale = abs(float(a[0]))
                                tol_a = 0.0 if exact else SAFETY * (rel_a + EPS) * scale * 4
                                d = max(abs(mp.mpf(float(got[i])) - a[i]) for i in range(4))
                                if not np.all(np.isfinite(got)) or d > tol_a:
                                    bad.append({"what": "the generated code of a wrapped momentum is not the value of that momentum",
                                                **case, "observed": got.tolist(), "max_abs_diff": float(d), "tolerance": tol_a})
                            if "B" not in out:
                                continue
                            M = out["B"][k]
                            if not np.all(np.isfinite(M)):
                                bad.append({"what": "BoostMatrix code with a wrapped momentum returns a non-finite entry", **case,
                                            "observed": M.tolist()})
                                continue
                            L = mp_of(M, mp)
                            tol_e = SAFETY * rel * gf + SAFETY * EPS
                            tol_l = SAFETY * 8 * gf * gf * rel + SAFETY * EPS
                            d = max_abs(L - Lref)
                            if d > tol_e:
                                bad.append({"what": "BoostMatrix code with a wrapped momentum is not the boost matrix at the value of the momentum",
                                            **case, "max_abs_diff": float(d), "tolerance": tol_e, "observed": M.tolist(),
                                            "expected": [[float(Lref[i, j]) for j in range(4)] for i in range(4)]})
                            r = max_abs(L.T * eta * L - eta)
                            if r > tol_l:
                                bad.append({"what": "L^T eta L != eta for BoostMatrix code with a wrapped momentum", **case,
                                            "residual": float(r), "tolerance": tol_l})
                            dd = abs(mp.det(L) - 1)
                            if dd > tol_l:
                                bad.append({"what": "det BoostMatrix != 1 with a wrapped momentum", **case,
                                            "det_minus_1": float(dd), "tolerance": tol_l})
                            if "rest" in out:
                                got = [float(v) for v in out["rest"][k]]
                                tol_d = SAFETY * 4 * rel * gf * gf * mf + SAFETY * EPS * mf * gf
                                if not all(math.isfinite(v) for v in got) or abs(got[0] - mf) > tol_d or max(abs(v) for v in got[1:]) > tol_d:
                                    bad.append({"what": "B(A) A != (m,0,0,0) for a wrapped momentum A", **case, "observed": got,
                                                "m": mf, "residual": max(abs(got[0] - mf), *[abs(v) for v in got[1:]]),
                                                "tolerance": tol_d})
                            if "inv" in out and np.all(np.isfinite(out["inv"][k])):
                                r = max_abs(mp_of(out["inv"][k], mp) - one)
                                if r > 2 * tol_l:
                                    bad.append({"what": "B(NegativeMomentum(A)) B(A) != 1 for a wrapped momentum A", **case,
                                                "residual": float(r), "tolerance": 2 * tol_l})
                            if EX is not None:
                                ex = EX[k]
                                tol_x = 2 * tol_e
                                if np.max(np.abs(ex.imag)) > 0 or not np.max(np.abs(ex.real - M)) <= tol_x:
                                    bad.append({"what": "BoostMatrix code != as_explicit() for a wrapped momentum", **case,
                                                "max_abs_diff": float(np.max(np.abs(ex - M))), "tolerance": tol_x})
            except _TimeLimit.Exceeded:
                bad.append({"what": "evaluating BoostMatrix with a wrapped momentum did not finish within the time cap",
                            "argument": aname, "cap_seconds": cap})
            timings[aname] = round(time.time() - t_case, 2)
    chk.info("oracle_wrapped_momenta", {"events_per_argument": nev, "arguments": list(args1) + list(args2),
                                        "seconds_per_argument": timings, "cap_seconds": cap})
