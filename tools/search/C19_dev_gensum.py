"""NOT USED BY THE CHECK. Development-time generator of lean/Ampverif/Lemmas/C19Sum.lean: theta_ij + theta_ji = pi and the zeta sum rule"""
import sys; sys.path.insert(0,'/verif')
from tools.lib import common; common.use_repo_source()
from tools.props import C19
from tools.translate import core
import sympy as sp
from ampform.kinematics.phasespace import Kallen
table = C19.probe()
m0,m1,m2,m3,m12,m13,m23 = C19._param_symbols()
ARGS = "m_0 m_1 m_2 m_3 m_12 m_13 m_23"
S = m0**2+m1**2+m2**2+m3**2
CON = m12**2+m13**2+m23**2 - S
tr = core.Translator(classes={Kallen: "Kallen"})
rp = core.RealPrinter()
L = lambda e: rp.p(tr(e))
def parts(fam, idx):
    X = table[fam, idx][1]
    kal = [a.base for a in X.args if isinstance(a, sp.Pow) and a.exp == -sp.Rational(1,2)]
    N = sp.Mul(*[a for a in X.args if not (isinstance(a, sp.Pow) and a.exp == -sp.Rational(1,2))])
    return N, kal
def cof(expr):
    """expr = q * CON (exact); returns q"""
    t = sp.Symbol('t')
    e = sp.expand(expr.subs(m12**2, t + S - m13**2 - m23**2))
    q, r = sp.div(sp.Poly(e, t), sp.Poly(t, t))
    assert r.as_expr() == 0, r
    return sp.expand(q.as_expr().subs(t, CON))
out = ['''/-
θ_ij + θ_ji = π and the ζ sum rule for the regenerated definitions of `Gen/C19.lean`
(text produced once by a development script; fixed afterwards). The numerators `N` written
out here are compared with the regenerated definitions by `ring`.
-/
import Ampverif.Gen.C19
import Ampverif.Lemmas.C19SumRule
import Mathlib.Tactic.LinearCombination

set_option linter.unusedSimpArgs false

namespace Ampverif.Lemmas.C19
open Ampverif.Gen.C19

theorem kallen_symm_yz (x y z : ℝ) : Kallen x y z = Kallen x z y := by unfold Kallen; ring

section
variable {m_0 m_1 m_2 m_3 m_12 m_13 m_23 : ℝ}
''']
HC = "(hc : m_12 ^ 2 + m_13 ^ 2 + m_23 ^ 2 = m_0 ^ 2 + m_1 ^ 2 + m_2 ^ 2 + m_3 ^ 2)"
for (i,j) in ((1,2),(1,3),(2,3)):
    N1,k1 = parts('theta',(i,j)); N2,k2 = parts('theta',(j,i))
    assert k1[0]==k2[0] and k1[1].args[0]==k2[1].args[0] and k1[1].args[1]==k2[1].args[2]
    q = cof(sp.expand(N2 + N1))
    n1, n2 = f"cosTheta_{i}_{j}", f"cosTheta_{j}_{i}"
    out.append(f'''/-- `cos θ_{j}{i} = −cos θ_{i}{j}` modulo `σ₁+σ₂+σ₃ = Σ m²` -/
theorem {n2}_eq_neg {HC} :
    {n2} {ARGS} = -{n1} {ARGS} := by
  unfold {n1} {n2}
  rw [ratio_shape, ratio_shape, kallen_symm_yz {L(k2[1].args[0])} {L(k2[1].args[1])} {L(k2[1].args[2])}, ← neg_div]
  congr 1
  linear_combination ({L(q)}) * hc

theorem theta_{i}_{j}_add_theta_{j}_{i} {HC} :
    theta_{i}_{j} {ARGS} + theta_{j}_{i} {ARGS} = Real.pi := by
  unfold theta_{i}_{j} theta_{j}_{i}
  rw [{n2}_eq_neg hc, Real.arccos_neg]
  ring
''')
HK = "(hK : Kibble (m_23 ^ 2) (m_13 ^ 2) (m_12 ^ 2) m_0 m_1 m_2 m_3 ≤ 0)"
mm = {1:m1,2:m2,3:m3}
for i in (1,2,3):
    j = i%3+1; k = j%3+1
    Nc, kc = parts('zeta', (i,j,k)); Na, ka = parts('zeta', (i,j,i)); Nb, kb = parts('zeta', (i,i,k))
    A0, A3, A2 = ka[0], ka[1], kb[1]
    assert kb[0] == A0
    # the two Kallen factors of c must be A2 and A3 up to the symmetry y<->z
    def canon(kx):
        for A in (A2, A3):
            if kx == A: return A, None
            if kx.args[0]==A.args[0] and kx.args[1]==A.args[2] and kx.args[2]==A.args[1]: return A, kx
        raise SystemExit("no match")
    rew = []
    for kx in kc:
        A, r = canon(kx)
        if r is not None: rew.append(f"kallen_symm_yz {L(r.args[0])} {L(r.args[1])} {L(r.args[2])}")
    mi = mm[i]
    zc, za, zb = f"{i}_{j}_{k}", f"{i}_{j}_{i}", f"{i}_{i}_{k}"
    G = f"(-(m_{i} ^ 2 * Kibble (m_23 ^ 2) (m_13 ^ 2) (m_12 ^ 2) m_0 m_1 m_2 m_3) / (4 * m_0 ^ 2))"
    rwline = ("rw [" + ", ".join(rew) + "]; " ) if rew else ""
    out.append(f'''/-- `ζ^{i}_{{{j}({k})}} = ζ^{i}_{{{j}({i})}} + ζ^{i}_{{{i}({k})}}` where `Kibble ≤ 0` and the three Källén
factors seen from particle {i} are positive -/
theorem zeta_sum_rule_{i} (hm : m_0 ≠ 0) {HC}
    {HK}
    (h0 : 0 < {L(A0)}) (h2 : 0 < {L(A2)})
    (h3 : 0 < {L(A3)}) :
    zeta_{zc} {ARGS} = zeta_{za} {ARGS} + zeta_{zb} {ARGS} := by
  have e : m_12 ^ 2 = m_0 ^ 2 + m_1 ^ 2 + m_2 ^ 2 + m_3 ^ 2 - m_13 ^ 2 - m_23 ^ 2 := by linarith
  have h4 : (4 * m_0 ^ 2) ≠ 0 := by positivity
  have ec : cosZeta_{zc} {ARGS}
      = {L(Nc)} / (Real.sqrt {L(A2)} * Real.sqrt {L(A3)}) := by
    unfold cosZeta_{zc}; {rwline}ring
  have ea : cosZeta_{za} {ARGS}
      = {L(Na)} / (Real.sqrt {L(A0)} * Real.sqrt {L(A3)}) := by
    unfold cosZeta_{za}; ring
  have eb : cosZeta_{zb} {ARGS}
      = {L(Nb)} / (Real.sqrt {L(A0)} * Real.sqrt {L(A2)}) := by
    unfold cosZeta_{zb}; ring
  unfold zeta_{zc} zeta_{za} zeta_{zb}
  rw [ec, ea, eb]
  refine sum_rule_abstract (G := {G}) h0 h2 h3 ?_ ?_ ?_ ?_ ?_ ?_ ?_
  · apply div_nonneg _ (by positivity)
    nlinarith [sq_nonneg m_{i}, mul_nonneg (sq_nonneg m_{i}) (neg_nonneg.mpr hK)]
  all_goals first
    | (rw [eq_div_iff h4]; unfold Kibble Kallen; rw [e]; ring)
    | (unfold Kallen; rw [e]; ring)
''')
out.append("end\n\nend Ampverif.Lemmas.C19")
open('/verif/lean/Ampverif/Lemmas/C19Sum.lean','w').write("\n".join(out)+"\n")
