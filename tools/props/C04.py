"""C04 — the unpolarised intensity is invariant under a global rotation of the event.

Layers (DESIGN §3 C04): (K) kinematics over ℝ on matrices regenerated from the source,
(A) algebra over ℂ for an abstract unitary representation, (I) the J = 1 instance from the
Wigner-D entries of the installed SymPy, (W) the known finding. Ties: T1 (matrices, Phi/Theta,
D¹ entries: Float twin vs the real lambdified code), T2 (frame-chain descriptors and Wigner-D
calls of the real builder vs the executable model `Model/C04Frames.lean`), numeric oracle.
"""

from __future__ import annotations

import json
import math
import time
import traceback

from tools.lib import common
from tools.translate import c04_ext, core

PROP_ID = "C04"
SOURCES = [
    "src/ampform/kinematics/angles.py",
    "src/ampform/kinematics/lorentz.py",
    "src/ampform/helicity/__init__.py",
    "src/ampform/helicity/decay.py",
    "src/ampform/helicity/naming.py",
    "src/ampform/helicity/align/axisangle.py",
]
GEN_MOD = "Ampverif.Gen.C04"
FLT_MOD = "Ampverif.GenFloat.C04"
PROP_MODULES = ["Ampverif.Props.C04", "Ampverif.Props.C04Wigner"]
MODEL_FILE = "Ampverif/Model/C04Frames.lean"
MATRICES = ["RotZ", "RotY", "BoostZ"]
MAX_REPLAYS = 4
D1_IDX = [(1, "p"), (0, "z"), (-1, "m")]  # row/column order of the generated D¹ matrix
DH_IDX = [(1, "p"), (-1, "m")]  # doubled projections of the generated D^{1/2} matrix


# ----------------------------------------------------------------------------- T1 definitions


def build_definitions():
    """(defs, reals, facts): definitions regenerated from the working tree.

    reals[name] = callable(points) -> list of reference values computed by the REAL lambdified
    code (numpy), used to validate the Float twins."""
    import numpy as np
    import sympy as sp
    from sympy.physics.quantum.spin import Rotation

    from ampform.kinematics import lorentz as lz
    from ampform.kinematics.angles import Phi, Theta

    tr = core.Translator(extra=c04_ext.array_hook)
    a = sp.Symbol("a", real=True)
    b = sp.Symbol("b", real=True)
    p = lz.ArraySymbol("p", shape=[])
    n = lz.ArraySize(p)
    defs, reals = [], {}
    classes = {"RotZ": (lz.RotationZMatrix, a), "RotY": (lz.RotationYMatrix, a), "BoostZ": (lz.BoostZMatrix, b)}
    facts = {}
    for name, (cls, var) in classes.items():
        obj = cls(var, n)
        explicit = obj.as_explicit()
        facts[f"{name}_shape"] = list(explicit.shape)
        # the code that is executed numerically: the `_…Implementation` printed by its _numpycode
        f = sp.lambdify([var, p], obj.doit(), "numpy", cse=True)
        for i in range(4):
            for j in range(4):
                dn = f"{name}_{i}_{j}"
                defs.append(core.Definition(dn, [var.name], tr(explicit[i, j]),
                                            doc=f"entry ({i},{j}) of {cls.__name__}({var.name}).as_explicit()"))

                def ref(points, f=f, i=i, j=j):
                    x = np.array([pt[0] for pt in points], dtype=float)
                    with np.errstate(all="ignore"):
                        return [[float(v)] for v in np.asarray(f(x, np.zeros((len(x), 4))))[:, i, j]]

                reals[dn] = ref
    # Phi, Theta as functions of the momentum components
    phi_e = Phi(p).evaluate().doit()
    theta_e = Theta(p).evaluate().doit()
    defs.append(core.Definition("PhiOf", ["px", "py"], tr(phi_e), doc="Phi(p).evaluate(): atan2(p_y, p_x)"))
    defs.append(core.Definition("ThetaOf", ["px", "py", "pz"], tr(theta_e), doc="Theta(p).evaluate(): acos(p_z / |p|)"))
    f_phi = sp.lambdify([p], Phi(p).doit(), "numpy", cse=True)
    f_theta = sp.lambdify([p], Theta(p).doit(), "numpy", cse=True)

    def ref_phi(points):
        arr = np.array([[1.0, pt[0], pt[1], 0.3] for pt in points])
        with np.errstate(all="ignore"):
            return [[float(v)] for v in f_phi(arr)]

    def ref_theta(points):
        arr = np.array([[1.0, *pt] for pt in points])
        with np.errstate(all="ignore"):
            return [[float(v)] for v in f_theta(arr)]

    reals["PhiOf"] = ref_phi
    reals["ThetaOf"] = ref_theta
    # compute_wigner_angles: alpha/beta/gamma as functions of the sliced entries W[i, j] of the Wigner
    # rotation matrix (the slices are replaced by real symbols w<i><j>; that they slice exactly
    # compute_wigner_rotation_matrix(...) is checked on every topology by the T2 correspondence)
    from qrules.topology import create_isobar_topologies

    from ampform.kinematics.angles import compute_wigner_angles
    from ampform.kinematics.lorentz import create_four_momentum_symbols
    from ampform.sympy._array_expressions import ArraySlice

    wtop = create_isobar_topologies(3)[0]
    wang = compute_wigner_angles(wtop, create_four_momentum_symbols(wtop), 1)
    wigner_slices = {}
    for sym, expr in wang.items():
        kind = sym.name.split("_")[0]
        repl = {}
        for s in expr.atoms(ArraySlice):
            idx = tuple(s.args[1])
            if not (len(idx) == 3 and c04_ext._full_slice(idx[0]) and all(isinstance(k, sp.Integer) for k in idx[1:])):
                raise core.Untranslatable(f"compute_wigner_angles: unexpected slice {idx!r}")
            repl[s] = sp.Symbol(f"w{int(idx[1])}{int(idx[2])}", real=True)
        e2 = expr.xreplace(repl)
        names = sorted(v.name for v in repl.values())
        wigner_slices[kind] = names
        dn = "Wigner" + kind.capitalize()
        defs.append(core.Definition(dn, names, tr(e2),
                                    doc=f"compute_wigner_angles: {kind} = {e2} (w<i><j> = entry (i,j) of the Wigner rotation matrix)"))
        fw = sp.lambdify([sp.Symbol(nm, real=True) for nm in names], e2, "numpy")

        def refw(points, fw=fw):
            with np.errstate(all="ignore"):
                return [[float(fw(*pt))] for pt in points]

        reals[dn] = refw
    # Wigner D¹ entries of the installed SymPy (index order +1, 0, -1)
    al, be, ga = sp.symbols("al be ga", real=True)
    for m, mn in D1_IDX:
        for mp, mpn in D1_IDX:
            e = Rotation.D(1, m, mp, al, be, ga).doit()
            dn = f"D1_{mn}_{mpn}"
            defs.append(core.Definition(dn, ["al", "be", "ga"], tr(e), ty="complex",
                                        doc=f"Rotation.D(1, {m}, {mp}, al, be, ga).doit() of the installed SymPy"))
            f = sp.lambdify([al, be, ga], e, "numpy")

            def ref(points, f=f):
                out = []
                for pt in points:
                    v = complex(f(*pt))
                    out.append([v.real, v.imag])
                return out

            reals[dn] = ref
    # Wigner D^{1/2} entries of the installed SymPy (index order +1/2, -1/2)
    half = sp.Rational(1, 2)
    for m, mn in DH_IDX:
        for mp, mpn in DH_IDX:
            e = Rotation.D(half, m * half, mp * half, al, be, ga).doit()
            dn = f"Dh_{mn}_{mpn}"
            defs.append(core.Definition(dn, ["al", "be", "ga"], tr(e), ty="complex",
                                        doc=f"Rotation.D(1/2, {m}/2, {mp}/2, al, be, ga).doit() of the installed SymPy"))
            f = sp.lambdify([al, be, ga], e, "numpy")

            def ref(points, f=f):
                out = []
                for pt in points:
                    v = complex(f(*pt))
                    out.append([v.real, v.imag])
                return out

            reals[dn] = ref
    # structural facts about the SymPy D-function: D^j_{m m'}(α,β,γ) = e^{-imα} d^j_{m m'}(β) e^{-im'γ}
    ok = True
    for j2 in range(0, 5):  # j = 0, 1/2, ..., 2
        j = sp.Rational(j2, 2)
        ms = [j - k for k in range(j2 + 1)]
        for m in ms:
            for mp in ms:
                D = Rotation.D(j, m, mp, al, be, ga).doit()
                d = Rotation.d(j, m, mp, be).doit()
                if sp.simplify(D - sp.exp(-sp.I * m * al) * d * sp.exp(-sp.I * mp * ga)) != 0:
                    ok = False
                if sp.im(d) != 0:
                    ok = False
    facts["sympy_D_is_phase_times_real_d_upto_j2"] = ok
    facts["wigner_angle_slices"] = wigner_slices
    return defs, reals, facts


EXPECTED_FACTS = {
    "RotZ_shape": [4, 4], "RotY_shape": [4, 4], "BoostZ_shape": [4, 4],
    "sympy_D_is_phase_times_real_d_upto_j2": True,
    "wigner_angle_slices": {"alpha": ["w31", "w32"], "beta": ["w33"], "gamma": ["w13", "w23"]},
}


def _assemblies() -> str:
    out = []
    for name, var in (("RotZ", "a"), ("RotY", "a"), ("BoostZ", "b")):
        rows = ";\n    ".join(", ".join(f"{name}_{i}_{j} {var}" for j in range(4)) for i in range(4))
        out.append(f"/-- the 4×4 matrix assembled from the generated entries -/\n"
                   f"noncomputable def {name} ({var} : ℝ) : Matrix (Fin 4) (Fin 4) ℝ :=\n  !![{rows}]\n")
    rows = ";\n    ".join(", ".join(f"D1_{mn}_{mpn} al be ga" for _, mpn in D1_IDX) for _, mn in D1_IDX)
    out.append("/-- SymPy's D¹(α,β,γ), rows/columns ordered m = +1, 0, −1 -/\n"
               f"noncomputable def D1 (al be ga : ℝ) : Matrix (Fin 3) (Fin 3) ℂ :=\n  !![{rows}]\n")
    rows = ";\n    ".join(", ".join(f"Dh_{mn}_{mpn} al be ga" for _, mpn in DH_IDX) for _, mn in DH_IDX)
    out.append("/-- SymPy's D^{1/2}(α,β,γ), rows/columns ordered m = +1/2, −1/2 -/\n"
               f"noncomputable def Dh (al be ga : ℝ) : Matrix (Fin 2) (Fin 2) ℂ :=\n  !![{rows}]\n")
    return "\n".join(out)


def _render(defs, header):
    gen = c04_ext.render_gen(GEN_MOD, defs, header, _assemblies(),
                             extra_imports=("Mathlib.LinearAlgebra.Matrix.Notation",
                                            "Mathlib.Analysis.SpecialFunctions.Trigonometric.Basic",
                                            "Mathlib.Analysis.Complex.Basic"))
    flt = core.render_float(FLT_MOD, defs, header)
    # constant matrix entries do not use their argument: keep the linter quiet (its warnings go to stdout)
    flt = flt.replace(f"namespace {FLT_MOD}", f"set_option linter.all false\nnamespace {FLT_MOD}", 1)
    return gen, flt


def regenerate():
    common.use_repo_source()
    hashes = common.source_blob_hashes(SOURCES)
    header = "sources: " + ", ".join(f"{k}@{v[:10]}" for k, v in hashes.items())
    defs, _, _ = build_definitions()
    gen, flt = _render(defs, header)
    common.write_if_changed(common.LEAN / (GEN_MOD.replace(".", "/") + ".lean"), gen)
    common.write_if_changed(common.LEAN / (FLT_MOD.replace(".", "/") + ".lean"), flt)


# ----------------------------------------------------------------------------- validation (T1)


def _points(name: str, rng, n: int):
    pts = []
    special = [0.0, math.pi / 2, -math.pi / 2, math.pi, 1.0, -2.5]
    for i in range(n):
        if name.startswith(("RotZ", "RotY")):
            pts.append([special[i] if i < len(special) else rng.uniform(-math.pi, math.pi)])
        elif name.startswith("BoostZ"):
            pts.append([[0.0, 0.5, -0.9, 0.999][i] if i < 4 else rng.uniform(-0.995, 0.995)])
        elif name == "PhiOf":
            sp_ = [[0.0, 0.0], [1.0, 0.0], [-1.0, 0.0], [0.0, -2.0], [-1.0, -0.0]]
            pts.append(sp_[i] if i < len(sp_) else [rng.uniform(-3, 3), rng.uniform(-3, 3)])
        elif name == "ThetaOf":
            sp_ = [[0.0, 0.0, 1.0], [0.0, 0.0, -2.0], [1.0, 0.0, 0.0], [0.3, -0.4, 0.0]]
            pts.append(sp_[i] if i < len(sp_) else [rng.uniform(-3, 3) for _ in range(3)])
        elif name in ("WignerAlpha", "WignerGamma"):
            sp_ = [[0.0, 0.0], [1.0, 0.0], [-1.0, 0.0], [0.0, -0.5], [-0.3, -0.0]]
            pts.append(sp_[i] if i < len(sp_) else [rng.uniform(-1, 1), rng.uniform(-1, 1)])
        elif name == "WignerBeta":
            sp_ = [[1.0], [-1.0], [0.0]]
            pts.append(sp_[i] if i < len(sp_) else [rng.uniform(-1, 1)])
        else:  # D1 entries
            sp_ = [[0.0, 0.0, 0.0], [0.3, 0.0, 0.0], [0.0, math.pi, 0.0], [1.0, math.pi / 2, -2.0]]
            pts.append(sp_[i] if i < len(sp_) else [rng.uniform(-math.pi, math.pi), rng.uniform(0, math.pi),
                                                    rng.uniform(-math.pi, math.pi)])
    return pts


def validate(chk: common.Check, defs, reals, rng, n: int):
    lines, plan = [], []
    for d in defs:
        pts = _points(d.name, rng, n if not d.name[-1].isdigit() or d.name.startswith("BoostZ_0") or "_1_" in d.name or "_3_" in d.name else max(3, n // 3))
        for pt in pts:
            lines.append(" ".join([d.name, *[str(core.float_bits(v)) for v in pt]]))
        plan.append((d, pts))
    out = common.lean_run(FLT_MOD.replace(".", "/") + ".lean", "\n".join(lines) + "\n")
    outs = out.strip().split("\n") if out.strip() else []
    if len(outs) != len(lines):
        chk.broken_correspondence("float-twin", f"driver returned {len(outs)} lines for {len(lines)} requests")
        return
    pos, mism, total = 0, 0, 0
    for d, pts in plan:
        ref = reals[d.name](pts)
        for pt, rv in zip(pts, ref):
            o = outs[pos]
            pos += 1
            total += 1
            if o == "bad-op":
                chk.broken_correspondence("float-twin", f"driver rejected {d.name}")
                return
            lv = [core.bits_float(int(t)) for t in o.split()]
            ok = len(lv) == len(rv)
            for a, b in zip(lv, rv):
                if math.isnan(a) and math.isnan(b):
                    continue
                if not (abs(a - b) <= 1e-12 * max(1.0, abs(b))):
                    ok = False
            chk.count((d.name, tuple(pt)) if all(math.isfinite(v) for v in rv) else None)
            if not ok:
                mism += 1
                if mism <= 3:
                    chk.broken_correspondence("float-twin", {"definition": d.name, "point": pt, "lean": lv, "real_code": rv})
    chk.info("translator_validation_points", total)
    chk.info("translator_validation_mismatches", mism)
    d, pts = plan[5]
    chk.sample({"translator_validation": d.name, "point": pts[-1], "real_code": reals[d.name](pts)[-1]})


# ----------------------------------------------------------------------------- the check


def wigner_oracle(chk: common.Check, rng, tier: str) -> dict:
    """For every final state of the 3- and 4-body isobar topologies (+ relabellings): the real lambdified Wigner
    matrix W on physical events is 1 (+) R with R orthogonal, det 1, and Rz(alpha)Ry(beta)Rz(gamma) built from the
    real lambdified compute_wigner_angles equals spat(W)^T away from the gimbal-lock set."""
    import itertools

    import numpy as np
    import sympy as sp
    from qrules.topology import create_isobar_topologies

    from ampform.kinematics.angles import compute_wigner_angles, compute_wigner_rotation_matrix
    from ampform.kinematics.lorentz import create_four_momentum_symbols
    from ampform.sympy._array_expressions import ArraySymbol

    g = np.random.default_rng(rng.getrandbits(63))
    n_ev = {"quick": 40, "thorough": 400}[tier]
    stats = {"matrices": 0, "events": 0, "worst_orthogonality": 0.0, "worst_euler": 0.0, "gimbal_skipped": 0,
             "chain_lengths": {}}

    def rz(a):
        c, s = np.cos(a), np.sin(a)
        z, o = np.zeros_like(a), np.ones_like(a)
        return np.stack([np.stack([c, -s, z], -1), np.stack([s, c, z], -1), np.stack([z, z, o], -1)], -2)

    def ry(a):
        c, s = np.cos(a), np.sin(a)
        z, o = np.zeros_like(a), np.ones_like(a)
        return np.stack([np.stack([c, z, s], -1), np.stack([z, o, z], -1), np.stack([-s, z, c], -1)], -2)

    tops = []
    for n in (3, 4):
        for k, top in enumerate(create_isobar_topologies(n)):
            # quick: both four-body shapes (cascade and two-resonance, chain lengths 1..3) without relabellings
            tops.append(top)
            if tier == "quick" and n == 4:
                continue
            ids = sorted(top.outgoing_edge_ids)
            perms = list(itertools.permutations(ids))[1:]
            for pm in rng.sample(perms, 1 if tier == "quick" else 4):
                tops.append(top.relabel_edges(dict(zip(ids, pm))))
    for top in tops:
        ids = sorted(top.outgoing_edge_ids)
        momenta = create_four_momentum_symbols(top)
        syms = [momenta[i] for i in ids]
        # physical events: massive particles, generic momenta, total momentum NOT at rest (the chain does not need it)
        masses = g.uniform(0.15, 1.2, size=len(ids))
        p3 = g.normal(0.0, 0.8, size=(len(ids), n_ev, 3))
        arrays = []
        for k in range(len(ids)):
            e = np.sqrt(masses[k] ** 2 + (p3[k] ** 2).sum(-1))
            arrays.append(np.concatenate([e[:, None], p3[k]], axis=1))
        for sid in ids:
            w = compute_wigner_rotation_matrix(top, momenta, sid)
            ang = compute_wigner_angles(top, momenta, sid)
            # the matrix is unfolded and lambdified ONCE; the three angle expressions of the real
            # compute_wigner_angles are lambdified with the matrix sub-tree replaced by an array symbol and
            # evaluated on that matrix (the real ArraySlice / atan2 / acos code runs, the big tree is not re-unfolded)
            f = sp.lambdify(syms, w.doit(), "numpy", cse=True)
            wsym = ArraySymbol("Wmat", shape=[])
            fa = sp.lambdify([wsym], [ang[s].xreplace({w: wsym}).doit() for s in sorted(ang, key=lambda s: s.name)],
                             "numpy")
            with np.errstate(all="ignore"):
                W = np.asarray(f(*arrays), dtype=float)
                al, be, ga = fa(W)
            stats["matrices"] += 1
            stats["events"] += n_ev
            n_chain = len(w.args) - 1
            stats["chain_lengths"][str(n_chain)] = stats["chain_lengths"].get(str(n_chain), 0) + 1
            R = np.transpose(W[:, 1:, 1:], (0, 2, 1))
            block = max(np.abs(W[:, 0, 0] - 1).max(), np.abs(W[:, 0, 1:]).max(), np.abs(W[:, 1:, 0]).max())
            orth = np.abs(np.einsum("nij,nkj->nik", R, R) - np.eye(3)).max()
            det = np.abs(np.linalg.det(R) - 1).max()
            worst = float(max(block, orth, det))
            stats["worst_orthogonality"] = max(stats["worst_orthogonality"], worst)
            chk.count(("wigner-oracle", str(top), sid))
            if not worst < 1e-7:
                chk.failing_input({"class": "wigner-matrix-not-a-rotation"},
                                  {"input": {"topology": str(top), "state": sid, "masses": masses.tolist(),
                                             "event0": [a[0].tolist() for a in arrays]},
                                   "observed": {"block": float(block), "orthogonality": float(orth), "det-1": float(det)},
                                   "expected": "W = 1 (+) R, R proper rotation (C04_wigner_matrix_is_rotation)"})
                continue
            ok = np.abs(W[:, 3, 3]) < 1 - 1e-6
            stats["gimbal_skipped"] += int((~ok).sum())
            E = np.einsum("nij,njk,nkl->nil", rz(np.asarray(al, dtype=float)), ry(np.asarray(be, dtype=float)),
                          rz(np.asarray(ga, dtype=float)))
            dev = float(np.abs(E - R)[ok].max()) if ok.any() else 0.0
            stats["worst_euler"] = max(stats["worst_euler"], dev)
            if not dev < 1e-6:
                k = int(np.argmax(np.abs(E - R).reshape(len(R), -1).max(1) * ok))
                chk.failing_input({"class": "wigner-angles-not-euler-angles"},
                                  {"input": {"topology": str(top), "state": sid, "masses": masses.tolist(),
                                             "event": [a[k].tolist() for a in arrays]},
                                   "observed": {"alpha": float(al[k]), "beta": float(be[k]), "gamma": float(ga[k]),
                                                "max|Rz(a)Ry(b)Rz(g) - spat(W)^T|": dev},
                                   "expected": "spat(W)^T = Rz(alpha)Ry(beta)Rz(gamma) (C04_wigner_angles_are_euler_angles)"})
    return stats


class C04Property:
    prop_id = PROP_ID

    def regenerate(self):
        regenerate()

    def run(self, tier: str, seed: int) -> int:  # noqa: C901, PLR0912, PLR0915
        import numpy as np

        chk = common.Check(PROP_ID, tier, seed)
        common.use_repo_source()
        hashes = common.source_blob_hashes(SOURCES)
        chk.info("source_blobs", hashes)
        header = "sources: " + ", ".join(f"{k}@{v[:10]}" for k, v in hashes.items())
        rng = common.rng_for(PROP_ID, seed)

        # ---- T1: regenerate the definitions
        defs = reals = facts = None
        translated = False
        try:
            defs, reals, facts = build_definitions()
            gen, flt = _render(defs, header)
            common.write_if_changed(common.LEAN / (GEN_MOD.replace(".", "/") + ".lean"), gen)
            common.write_if_changed(common.LEAN / (FLT_MOD.replace(".", "/") + ".lean"), flt)
            translated = True
            chk.info("generated_definitions", len(defs))
        except core.Untranslatable as e:
            chk.broken_correspondence("translator", f"source no longer translatable: {e}")
        except Exception as e:  # noqa: BLE001
            chk.broken_correspondence("translator", "".join(traceback.format_exception_only(type(e), e))[-600:])
        if translated:
            for k, v in EXPECTED_FACTS.items():
                chk.coverage["obligations"] += 1
                if facts.get(k) == v:
                    chk.coverage["discharged"] += 1
                else:
                    chk.broken_correspondence("fact", f"{k}: expected {v!r}, source gives {facts.get(k)!r}")
            chk.info("facts", facts)

        # Props/C04Wigner.lean speaks about the explicit boost matrices of Gen/C08.lean: regenerate them from the
        # working tree here as well, so that this run does not rely on C08's check having run before
        if translated:
            try:
                from tools.props import C08 as _c08

                (_c08.PROP.regenerate if hasattr(_c08.PROP, "regenerate") else _c08.regenerate)()
            except core.Untranslatable as e:
                chk.broken_correspondence("translator (Gen/C08 for the Wigner-rotation layer)", f"source no longer translatable: {e}")
            except Exception as e:  # noqa: BLE001
                chk.broken_correspondence("translator (Gen/C08 for the Wigner-rotation layer)",
                                          "".join(traceback.format_exception_only(type(e), e))[-600:])

        # ---- proofs (kernel re-checks every theorem against the regenerated definitions)
        if translated:
            res = common.prove(PROP_ID, PROP_MODULES)
            if not res["build_ok"]:
                # the property module did not compile: none of its theorems was checked by the kernel
                res["discharged"] = []
            chk.record_proof(res, "cd lean && lake build " + " ".join(PROP_MODULES)
                             + f" && lake env lean Ampverif/Audit/{PROP_ID}.lean")
            if res["failed"]:
                chk.note("proof obligations not discharged: "
                         + "; ".join(f"{k}: {v[:160]}" for k, v in list(res["failed"].items())[:5]))

        # ---- translator validation: Lean Float twin vs the real lambdified code
        if translated:
            try:
                validate(chk, defs, reals, rng, {"quick": 12, "thorough": 120}[tier])
            except common.LeanRunError as e:
                chk.broken_correspondence("float-twin", f"Lean driver failed: {e}"[:800])
            except Exception as e:  # noqa: BLE001
                chk.broken_correspondence("float-twin", "".join(traceback.format_exception_only(type(e), e))[-600:])

        # ---- T2: frame-chain descriptors + Wigner-D calls, real code vs executable model
        from tools.corr import C04_frames
        from tools.search import C04_oracle as orc

        reactions = {}
        try:
            for f in sorted(orc.CORPUS.glob("*.json")):
                reactions[f.stem] = orc.load_reaction(f.stem)
        except Exception as e:  # noqa: BLE001
            raise common.InfraError(f"corpus/C04 cannot be loaded: {e}") from e
        try:
            stats = C04_frames.run(chk, common.rng_for(PROP_ID, seed, "frames"), tier, reactions)
            chk.info("frame_correspondence", stats)
        except common.LeanRunError as e:
            chk.broken_correspondence("frame-chain model", f"Lean model failed: {e}"[:800])
        except Exception as e:  # noqa: BLE001  the real code raised on a valid topology
            chk.broken_correspondence("frame-chain correspondence",
                                      "".join(traceback.format_exception(type(e), e, e.__traceback__))[-1200:])

        # ---- Wigner-rotation oracle: the statements of Props/C04Wigner.lean evaluated on the REAL lambdified
        # compute_wigner_rotation_matrix / compute_wigner_angles (search for a failing input; never the tie)
        try:
            wstats = wigner_oracle(chk, common.rng_for(PROP_ID, seed, "wigner"), tier)
            chk.info("wigner_rotation_oracle", wstats)
        except Exception as e:  # noqa: BLE001
            chk.broken_correspondence("wigner-rotation oracle",
                                      "".join(traceback.format_exception(type(e), e, e.__traceback__))[-1200:])

        # ---- the oracle: the property statement itself on the real code (always)
        n_events = {"quick": 60, "thorough": 500}[tier] * (3 if chk.broken else 1)
        g = np.random.default_rng(common.rng_for(PROP_ID, seed, "oracle").getrandbits(63))
        new_found = 0
        summary = []
        built_cache: dict = {}
        beyond90 = 0

        def report(sig, replay):
            """known classes print KNOWN-FINDING; new ones become VIOLATION replays (capped, all listed in the evidence)."""
            nonlocal new_found
            if chk.match_known(sig) is None:
                new_found += 1
                if new_found > MAX_REPLAYS:
                    return
            chk.failing_input(sig, replay)

        import signal

        class _CaseTimeout(Exception):
            pass

        def _alarm(signum, frame):
            raise _CaseTimeout()

        cap = {"quick": 240, "thorough": 1200}[tier]
        # CPU time of this process (ITIMER_PROF), not wall time: a loaded machine must not turn a slow case into an alarm
        signal.signal(signal.SIGPROF, _alarm)

        # ---- histories (HARDENING rule 3/6): the same case on a fixed event set, (a) before anything else was
        # formulated in this process, (b) after everything else, (c) in fresh interpreters with other hash seeds
        from tools.search import C04_fresh

        hist_cases = [orc.Case(orc.RHO, ("rho(770)+", "rho(770)-"), "axis")]
        if tier == "thorough":
            hist_cases += [orc.Case("synthetic_J0_spin_at_1", (), "axis"), orc.Case(orc.RHO, ("rho(770)+", "rho(770)-"), "dpd1")]
        early = {}
        for hc in hist_cases:
            try:
                early[hc.id] = C04_fresh.fixed_values(hc)
            except Exception as e:  # noqa: BLE001
                early[hc.id] = {"error": "".join(traceback.format_exception_only(type(e), e))[-300:]}

        degenerate = {}
        for case in orc.CASES:
            if tier == "quick" and case.tier != "quick":
                continue
            t0 = time.time()
            entry = {"case": case.id}
            signal.setitimer(signal.ITIMER_PROF, cap)
            try:
                import dataclasses

                ck = (case.reaction, case.keep, case.alignment, case.opts)
                if ck not in built_cache:
                    built_cache[ck] = orc.build(case)
                b = dataclasses.replace(built_cache[ck], case=case)
            except _CaseTimeout:
                signal.setitimer(signal.ITIMER_PROF, 0)
                report({"class": "case exceeded the wall-clock cap", "case": case.id},
                       {"input": {"case": _case_dict(case)}, "observed": f"> {cap} s", "broken": chk.broken})
                entry["error"] = "timeout"
                summary.append(entry)
                continue
            except Exception as e:  # noqa: BLE001  the real code cannot formulate/lambdify the model
                signal.setitimer(signal.ITIMER_PROF, 0)
                err = "".join(traceback.format_exception(type(e), e, e.__traceback__))[-1500:]
                sig = {"class": "the real code raised while the model was formulated", "case": case.id}
                report(sig, {"input": {"case": _case_dict(case)}, "error": err, "broken": chk.broken})
                entry["error"] = err[-300:]
                summary.append(entry)
                continue
            entry.update({"topologies": [f["shape"] for f in b.facts], "required": b.required, "why": b.why})
            if not b.required:
                summary.append(entry)
                continue
            try:
                r = orc.run_case(b, g, n_events)
            except Exception as e:  # noqa: BLE001
                err = "".join(traceback.format_exception(type(e), e, e.__traceback__))[-1500:]
                sig = {"class": "the real code raised while the intensity was evaluated", "case": case.id}
                report(sig, {"input": {"case": _case_dict(case)}, "error": err, "broken": chk.broken})
                entry["error"] = err[-300:]
                summary.append(entry)
                continue
            key = (case.id, tuple(entry["topologies"])) if r["n"] > 0 else None
            chk.count(key, n=2 * r["n"])
            beyond90 += r.get("wigner_beyond_90deg", 0)
            entry.update({"worst_relative_change": r["worst"], "events": r["n"], "skipped": r["skipped"],
                          "wigner_rotation_beyond_90deg_events": r.get("wigner_beyond_90deg", 0),
                          "seconds": round(time.time() - t0, 1)})
            if r["n"] < max(1, (r["n"] + r["skipped"]) // 2):
                sig = {"class": "non-finite or vanishing intensity on physical events", "case": case.id}
                entry["failing"] = sig
                report(sig, {"input": {"case": _case_dict(case)}, "observed": f"{r['skipped']} of {r['n'] + r['skipped']} "
                                        "physical events give a non-finite (or vanishing) intensity", "domain": b.why, "broken": chk.broken})
            elif r["fail"] is not None:
                sig = orc.classify(b, r)
                entry["failing"] = sig
                replay = {"input": {"case": _case_dict(case), **r["fail"]},
                          "observed": {"intensity": r["fail"]["intensity"], "intensity_rotated": r["fail"]["intensity_rotated"]},
                          "expected": "equal intensities (relative 1e-9)", "signature_detail": sig,
                          "domain": b.why, "broken": chk.broken}
                report(sig, replay)
            elif len(chk.coverage["samples"]) < 4:
                chk.sample({"case": case.id, "topologies": entry["topologies"], "events": r["n"],
                            "worst_relative_change": r["worst"]})
            # degenerate / near-degenerate events (HARDENING rule 7), on two models of the quick tier
            if case.id in (f"{orc.RHO}[rho(770)++rho(770)-]/none", f"{orc.SYN}[all]/axis") and r["fail"] is None:
                try:
                    probe = orc.degenerate_probe(b, g)
                    degenerate[case.id] = probe
                    for rec in probe:
                        chk.count(("degenerate", case.id, rec["family"], rec["eps"]), n=2 * rec["events"])
                        if rec["gating"] and not rec["ok"]:
                            report({"class": "rotation non-invariance near a degenerate configuration", "case": case.id,
                                    "family": rec["family"], "eps": rec["eps"]},
                                   {"input": {"case": _case_dict(case), "family": rec}, "observed": rec,
                                    "expected": "equal intensities within max(rtol, 1e-14/eps)", "broken": chk.broken})
                except _CaseTimeout:
                    raise
                except Exception as e:  # noqa: BLE001
                    degenerate[case.id] = {"error": "".join(traceback.format_exception_only(type(e), e))[-300:]}
            signal.setitimer(signal.ITIMER_PROF, 0)
            summary.append(entry)
        signal.setitimer(signal.ITIMER_PROF, 0)
        chk.info("oracle_cases", summary)
        chk.info("degenerate_events", degenerate)

        # ---- histories, continued
        import subprocess

        hist = {}
        hash_seeds = [str(common.rng_for(PROP_ID, seed, "hash").randrange(1, 10**6))] if tier == "quick" else ["0", "1", "4242", ""]
        for hc in hist_cases:
            rec = {"hash_seeds": hash_seeds, "compared": 0}
            vals = [("early", early[hc.id])]
            try:
                vals.append(("late", C04_fresh.fixed_values(hc)))
            except Exception as e:  # noqa: BLE001
                vals.append(("late", {"error": "".join(traceback.format_exception_only(type(e), e))[-300:]}))
            for hs in hash_seeds:
                env = dict(__import__("os").environ)
                if hs:
                    env["PYTHONHASHSEED"] = hs
                else:
                    env.pop("PYTHONHASHSEED", None)
                try:
                    pr = subprocess.run([common.PY, str(common.ROOT / "tools" / "search" / "C04_fresh.py"),
                                         json.dumps(_case_dict(hc))], cwd=common.ROOT, env=env, capture_output=True,
                                        text=True, timeout=600)
                except subprocess.TimeoutExpired as e:
                    raise common.InfraError(f"fresh-process evaluation of {hc.id} timed out") from e
                line = next((ln for ln in pr.stdout.splitlines() if ln.startswith("C04FRESH ")), None)
                vals.append((f"fresh:{hs or 'unset'}", json.loads(line[9:]) if line else {"error": pr.stderr[-400:]}))
            ref = vals[0][1]
            orders = {}
            for tag, v in vals:
                for k2, o in (v.get("order") or {}).items():
                    orders.setdefault(k2, set()).add(tuple(o))
                if "error" in v or "error" in ref:
                    report({"class": "the real code raised in a fresh process / after other models", "case": hc.id, "where": tag},
                           {"input": {"case": _case_dict(hc)}, "error": v.get("error") or ref.get("error"), "broken": chk.broken})
                    continue
                for key2 in ("intensity", "intensity_rotated"):
                    a_, b_ = np.array(ref[key2]), np.array(v[key2])
                    sc = np.maximum(np.abs(a_), np.abs(b_))
                    dev = float(np.max(np.abs(a_ - b_) / np.where(sc > 0, sc, 1)))
                    rec["compared"] += len(a_)
                    chk.count(("history", hc.id, tag, key2), n=len(a_))
                    rec["worst"] = max(rec.get("worst", 0.0), dev)
                    if not dev <= 1e-10:
                        report({"class": "intensity depends on the history of the process or on the hash seed", "case": hc.id,
                                "where": tag}, {"input": {"case": _case_dict(hc)}, "observed": {"reference(early)": ref[key2], tag: v[key2]},
                                                "expected": "identical values", "broken": chk.broken})
            rec["distinct_iteration_orders_observed"] = {k2: len(o) for k2, o in orders.items()}
            hist[hc.id] = rec
        chk.info("histories", hist)
        chk.info("events_with_a_wigner_rotation_beyond_90deg", beyond90)
        if chk.broken and new_found == 0:
            for bk in chk.broken:
                chk.unexplained(bk.get("theorem") or bk.get("what"), bk)

        chk.info("input_distribution", {
            "oracle": "events: sequential two-body phase space in the initial-state rest frame (unweighted, numpy), "
                      f"{n_events} per case; rotations: Haar-random SO(3) + 4 fixed axis rotations (incl. R_y(0.7)); "
                      "couplings: complex standard normal; cases = corpus reaction x resonance subset x alignment; plus the family "
                      "`lowpair:i,j` (pair mass in the lowest 12 % of its range on the synthetic 20 GeV parent: fast light resonance and "
                      "daughter, Wigner rotations beyond 90 degrees — counted in events_with_a_wigner_rotation_beyond_90deg)",
            "alignment": "every final state of every corpus topology: the Wigner-D functions of formulate_rotation_chain (index and angle symbols)",
            "frames": "all topologies of the corpus reactions, all isobar topologies with 3,4 (thorough: 5) final states "
                      "and seeded relabellings of the final-state ids; every D-function of the corpus transitions",
            "translator": "angles uniform in (-pi, pi] + special values, |beta| < 1, random and axis-aligned vectors",
        })
        chk.info("guards", [
            "BoostZ entries are translated with the real square root: |beta| < 1 (validated there only)",
            "event theorems: subsystem three-momentum non-zero; child not exactly on the z axis of the helicity frame "
            "(Phi discontinuous); the oracle's random events never hit these sets",
            "relative comparison skips events whose intensity is below 1e-9 of the median (none observed)",
        ])
        chk.assumptions += [
            "layer (A) theorems are conditional on the structure WignerRep (unitary, multiplicative, diagonal on z-rotations); "
            "instances (WignerRep / RepFamily) are constructed for J = 0 and J = 1 only (J = 1 from SymPy's D^1 entries); J = 1/2: unitary, "
            "z-diagonal, homomorphism up to sign proved on the regenerated matrix; J <= 5/2: unitarity from C05's regenerated d-tables; beyond that "
            "the representation property of SymPy's Wigner-D is executed (oracle), not proved",
            "arbitrary trees: C04_full_statement is proved (C04_full_trees) and tied to the event kinematics (C04_end_to_end) in the sound "
            "convention (a node's angles are those of its first child); integer spins only — half-integer spins need a representation of the "
            "double cover (C04_I_no_spin_half_representation_of_SO3); genericity guards EventOK",
        ]
        chk.coverage["rule"] = (
            "evaluations = translator-validation points + line-protocol requests' cases + 2 x (events per oracle case); "
            "distinct_nontrivial counts distinct (generated definition, point) pairs with finite reference values, distinct "
            "(topology label, shape) / Wigner-D requests of the correspondence, and distinct (oracle case, topology set) "
            "with at least one well-conditioned event")
        chk.coverage["trusted_base"] = [
            "Lean 4.33 kernel + Mathlib (axioms: see axioms_reported)",
            "tools/translate core + c04_ext (sympy tree -> Lean), validated on this run by the Float twin against the real lambdified code",
            "tools/corr/C04_frames.py printer of the real kinematic-variable trees (closed node set; unknown nodes print as (expr ...) and disagree)",
            "sympy (doit/lambdify, sympy.physics.quantum.spin.Rotation numerics for J not in {0,1}), numpy, qrules (reactions, topologies)",
            "tools/search/C04_oracle.py (independent numeric oracle: event generation, rotations, classification of topologies)",
        ]
        return chk.finish()


def _case_dict(case) -> dict:
    return {"reaction": case.reaction, "keep": list(case.keep), "alignment": case.alignment, "events": case.events,
            "opts": list(case.opts)}


def replay(rep: dict) -> int:
    """./check C04 --replay replays/C04_….json : re-evaluate the stored failing event."""
    common.use_repo_source()
    from tools.search import C04_oracle as orc

    inp = rep.get("input", {})
    print(json.dumps({k: rep.get(k) for k in ("signature", "observed", "expected", "domain")}, indent=1, default=str))
    if "event" not in inp:
        print("replay file names a broken obligation/correspondence without a concrete event; running the check instead")
        return PROP.run("quick", 0)
    res = orc.replay_single(inp)
    print(json.dumps(res, indent=1))
    return 1 if res["relative_change"] > orc.RTOL else 0


PROP = C04Property()


MANIFEST = {
    "technique": "Lean 4 theorems over definitions regenerated from the source (rotation/boost matrices, Phi/Theta, SymPy's "
                 "Wigner D^1) + executable Lean model of the helicity-frame recursion checked against the real code over a "
                 "line protocol + independent numeric oracle on real models (always run)",
    "design_ref": "DESIGN.md §3 C04 (layers K, A, I, W), §2.6, §2.7, §2.9",
    "text": (
        "Proof, layered; every run regenerates Gen/C04.lean from the working tree and the kernel re-checks the theorems of Props/C04.lean. "
        "(K) UNCONDITIONAL, all real arguments, on the matrices regenerated from RotationZMatrix/RotationYMatrix/BoostZMatrix.as_explicit() and the "
        "regenerated Phi = atan2(py,px), Theta = acos(pz/|p|): RotZ/RotY additivity, BoostZ.RotZ = RotZ.BoostZ; h(v) = Rz(Phi v)Ry(Theta v) maps z to "
        "v/|v|; the source's chain BoostZ(|p|/E).RotY(-Theta).RotZ(-Phi) takes a time-like subsystem to (m,0,0,0); key lemma: a proper rotation fixing z "
        "is Rz(delta); and, packaged over momentum trees (MTree, framesOf = the source's recursion in the sound convention), C04_K_all_helicity_frames: "
        "for EVERY isobar tree and event, all helicity frames (hence all helicity angles) of the rotated event equal those of the original except the "
        "root frame (R.h.Rz(-delta)) and the first frame below the root in each child subtree (Rz(+-delta).h: polar angle unchanged, azimuth shifted), "
        "every deeper frame identical. "
        "(A) CONDITIONAL on a structure of hypotheses (not axioms), WignerRep resp. RepFamily (unitary, multiplicative, diagonal on z-rotations, for "
        "the integer spins it provides): the amplitude of a tree of ANY depth and shape transforms as A_m -> Phi . sum conj D_{mm'}(R) A_{m'} with a "
        "unit phase Phi per final-state helicity configuration (Phi = 1 for spinless final states), so C04_full_trees (= C04_full_statement, now "
        "PROVED): the unpolarised intensity is invariant for any finite set of topologies with spinless final states and for a single topology with "
        "final states of any provided spin. "
        "END TO END (C04_end_to_end): from the final-state four-momenta of arbitrary trees in the initial-state rest frame, through the regenerated "
        "angle and matrix definitions, to the intensity; conditional on RepFamily only; C04_end_to_end_J01 UNCONDITIONAL for all spins in {0,1}. "
        "Two-level chains additionally: spectator of any spin, single topology under ANY sign convention between D-function index and child helicity "
        "(covers the pinned source's opposite-helicity convention and explains why every single topology is invariant). "
        "(I) UNCONDITIONAL instances from regenerated SymPy entries: D^1 = U.Rz(a)Ry(b)Rz(g).U^dagger (unitary, z-diagonal, homomorphism); "
        "D^{1/2} (2x2): unitary, z-diagonal diag(e^{-ia/2},e^{ia/2}), its adjoint action on v.sigma is the Euler rotation (covering SU(2)->SO(3)), "
        "homomorphism UP TO THE SIGN (if the Euler rotations compose, the D^{1/2} compose up to +-), the sign is real (a full turn flips D^{1/2}, "
        "not D^1), hence no representation of rotation MATRICES with weight 1/2 exists; unitarity of e^{-ima} d^J e^{-im'g} for all J <= 5/2 from the "
        "d-tables regenerated by C05 (J = 3/2, 2 stated separately). "
        "(R, Props/C04Wigner.lean) the Wigner rotation of the axis-angle alignment, UNBOUNDED in the depth of the decay chain: a proper Lorentz "
        "matrix fixing the time axis is 1 (+) R with R a proper rotation; compute_wigner_rotation_matrix = B(-p).B_1...B_n over the REGENERATED "
        "explicit boost matrices (Gen/C08) with the wiring of compute_boost_chain is 1 (+) R^T, R a proper rotation, whenever every momentum the "
        "chain boosts with is time-like with non-zero three-momentum (induction over the chain; uses the C08 boost theorems: Lorentz, det 1, symmetric, "
        "rest frame, inverse); the three expressions REGENERATED from compute_wigner_angles (alpha = atan2(W32,W31), beta = acos(W33), gamma = "
        "atan2(W23,-W13)) are ZYZ Euler angles of that rotation off the gimbal-lock set W33^2 < 1 (euler_decomposition, for EVERY proper rotation), "
        "so W = 1 (+) (Rz(alpha)Ry(beta)Rz(gamma))^T; the chain wiring of every final state of every topology is compared with the real expression "
        "trees (line protocol `wchain`), which entries are sliced is a checked fact. "
        "(W) the pinned source's convention for a decaying opposite-helicity child rephases the couplings by e^{2 i lambda delta} (proved); the "
        "executable model classifies 0(12) as such a topology and (01)2,(02)1 as not; the atan2 branch cut (Phi = pi on the negative x axis, phi just "
        "above, -phi just below, continuation 2pi - phi) flips the sign of D^{1/2} and not of D^1 — the mechanism of the half-integer axis-angle class. "
        "NOT PROVED: half-integer spins in the tree theorems (they need a family on the double cover; only the J = 1/2 matrix facts above are proved); "
        "homomorphism for J >= 3/2 (only unitarity); the source's deviation from the sound convention (decaying opposite-helicity child) is "
        "characterised, not covered by the end-to-end theorem; genericity guards (no subsystem momentum on a frame's z axis, non-zero momenta). "
        "CORRESPONDENCE ONLY (real code vs executable model, every run): the frame chains, the D-function of every "
        "node and the wiring of the axis-angle alignment sums. "
        "NUMERIC ONLY (oracle on the real code, every run; quick tier includes an axis-angle two-topology integer-spin model with a spin-1 final state "
        "below a resonance, on uniform phase space and on an ultra-relativistic family where Wigner rotations exceed 90 degrees): spin-1/2 reactions, "
        "photon final states, AxisAngleAlignment and DalitzPlotDecomposition models, 4-body real models, and the non-invariance witnesses of the three "
        "known classes."
    ),
    "level_note": (
        "Trusted: Lean kernel + Mathlib (axioms propext, Classical.choice, Quot.sound); translator (core + c04_ext: ComplexSqrt read as the real "
        "root for |beta|<1, ArraySlice/ArrayAxisSum read per event), validated each run by the Float twin against the real lambdified "
        "matrices/angles/D entries; the T2 printer of the real kinematic-variable trees; sympy/numpy/qrules as executed. Modelled, not executed: "
        "the theorems speak about the regenerated matrices and an abstract representation; that the generated numpy code equals as_explicit() is "
        "checked numerically here (and proved in C08). The link from the model's frame-chain descriptors to the theorems' helframe/hframe "
        "definitions is by inspection of the descriptor grammar (amul (Bz (beta S)) (Ry (neg (Theta S))) (Rz (neg (Phi S))) .). "
        "Known findings (KNOWN-FINDING lines, exit 0): multi-topology with a decaying opposite-helicity child; Dalitz-plot-decomposition "
        "alignment with several topologies; axis-angle alignment with half-integer spins (relative sign of topologies). Any other failing "
        "input, an exception while formulating, a broken proof or a broken correspondence is a VIOLATION."
    ),
}
