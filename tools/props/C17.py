"""C17 — rename_symbols is a consistent renaming of the whole model.

Lean theorems about the hand-written model `Ampverif.Model.C17Rename` (Props/C17.lean), tied to
`/repo` by a T2 correspondence on real `HelicityModel`s (corpus reactions + random small models)
and an independent oracle that evaluates the clauses of the property on the real code.
"""

from __future__ import annotations

import json
import traceback

from tools.lib import common

PROP_ID = "C17"
SOURCES = ["src/ampform/helicity/__init__.py", "src/ampform/helicity/naming.py"]
PROP_MODULES = ["Ampverif.Props.C17"]

N_SYNTH = {"quick": 32, "thorough": 500}
SEQ_PER_REAL = {"quick": 6, "thorough": 40}
SEQ_PER_SYNTH = {"quick": 4, "thorough": 8}
NUMERIC_PER_REAL = {"quick": 2, "thorough": 10}
N_KEYS = {"quick": 150, "thorough": 2000}


# --------------------------------------------------------------------------- witnesses / probes


def witness_models():
    """Real replicas of the inputs of the Lean witness theorems (Props/C17.lean):
    `witness_params_not_collected`, `witness_no_reuse`, `witness_many_symbols_per_new_name` and
    `witness_truthy_only_rebuild_loses_facts`."""
    import sympy as sp

    from ampform.helicity import HelicityModel
    from ampform.kinematics.lorentz import InvariantMass, create_four_momentum_symbol
    from ampform.sympy import PoolSum
    from tools.corr import C17_corr as corr

    reaction = corr.load_reaction("d0_kkk_can")
    A = sp.IndexedBase("A", complex=True)
    lam = sp.Symbol("m_A", rational=True)
    a = sp.Symbol("a")
    d = sp.Symbol("d", positive=True)
    m0 = sp.Symbol("m_0", nonnegative=True)
    x = sp.Symbol("x", real=True)
    p0 = create_four_momentum_symbol(0)
    model = HelicityModel(
        intensity=PoolSum(sp.Abs(A[lam]) ** 2, (lam, (0, 1))),
        amplitudes={A[0]: a * x, A[1]: d * x},
        parameter_defaults={a: 1 + 0j, d: 1.0, m0: 0.135},
        kinematic_variables={x: InvariantMass(p0)},
        components={"I": a * x},
        reaction_info=reaction,
    )
    g = sp.Symbol("g", nonnegative=True)
    merge_model = HelicityModel(  # Lean: Witness.mergeModel
        intensity=PoolSum(sp.Abs(A[lam]) ** 2, (lam, (0, 1))),
        amplitudes={A[0]: a * x, A[1]: g * x * a},
        parameter_defaults={a: 1 + 0j, g: 0.5},
        kinematic_variables={x: InvariantMass(p0)},
        components={"I": a * x},
        reaction_info=reaction,
    )
    gz = sp.Symbol("g", zero=False)  # a complex coupling declared non-zero: a False-valued fact no True fact implies
    nonzero_model = HelicityModel(  # Lean: Witness.nonzeroModel
        intensity=PoolSum(sp.Abs(A[lam]) ** 2, (lam, (0, 1))),
        amplitudes={A[0]: a * x, A[1]: gz * x * a},
        parameter_defaults={a: 1 + 0j, gz: 1.0 + 0.5j},
        kinematic_variables={x: InvariantMass(p0)},
        components={"I": a * x},
        reaction_info=reaction,
    )
    return model, {"collectsParams": (model, {"m_0": "mgamma"}), "reusesExisting": (model, {"a": "d"}),
                   "oneSymbolPerNewName": (merge_model, {"a": "k", "g": "k"}),
                   # not a variant switch of the model: the input of `witness_truthy_only_rebuild_loses_facts`
                   "keepsEveryFact": (nonzero_model, {"g": "k"})}


def infer_variant(chk) -> tuple[dict, list]:
    """Distinguishing probes on the real code; returns (variant, failing inputs found)."""
    import sympy as sp

    from tools.search import C17_oracle as oracle

    _, probes = witness_models()
    variant, found = {}, []
    pm, ren = probes["collectsParams"]
    r = pm.rename_symbols(ren)
    names = {s.name for s in r.parameter_defaults}
    variant["collectsParams"] = "mgamma" in names and "m_0" not in names
    pm, ren = probes["reusesExisting"]
    r = pm.rename_symbols(ren)
    ds = {s for s in r.expression.free_symbols | set(r.parameter_defaults) if isinstance(s, sp.Symbol) and s.name == "d"}
    variant["reusesExisting"] = len(ds) == 1
    pm, ren = probes["oneSymbolPerNewName"]
    r = pm.rename_symbols(ren)
    ks = {s for s in r.expression.free_symbols | set(r.parameter_defaults) if isinstance(s, sp.Symbol) and s.name == "k"}
    variant["oneSymbolPerNewName"] = len(ks) == 1
    # the new symbol is made from the COMPLETE assumptions0 (the model's `⟨new name, source declaration⟩`)
    pm, ren = probes["keepsEveryFact"]
    r = pm.rename_symbols(ren)
    src = next(s for s in pm.parameter_defaults if s.name == "g")
    ks = {s for s in r.expression.free_symbols | set(r.parameter_defaults) if isinstance(s, sp.Symbol) and s.name == "k"}
    keeps = len(ks) == 1 and next(iter(ks)).assumptions0 == src.assumptions0
    chk.info("new_symbol_made_from_complete_assumptions0", keeps)
    if not keeps:
        chk.broken_correspondence("declaration", "the symbol made for a renamed name does not carry the complete assumption "
                                  f"declaration of its source: {[(str(s), s.assumptions0) for s in ks]} vs {src.assumptions0} "
                                  "(Lean: witness_truthy_only_rebuild_loses_facts)")
    for switch, (pm, ren) in probes.items():
        fails, _ = oracle.check_case(pm, ren, rng=None, numeric=False)
        if fails and switch == "keepsEveryFact" and not keeps:
            found.append({"what": "witness of the Lean theorem witness_truthy_only_rebuild_loses_facts replays on the real code: the symbol "
                                  "made for a renamed name lacks facts of its source's assumption declaration",
                          "model": f"tools/props/C17.py: witness_models() [{switch}]", "renames": ren, "failed_clauses": fails[:3]})
        elif fails and not variant.get(switch, True):
            found.append({"what": f"witness of the Lean theorem for variant switch {switch}=false replays on the real code",
                          "model": f"tools/props/C17.py: witness_models() [{switch}]", "renames": ren, "failed_clauses": fails[:3]})
        elif fails:
            found.append({"what": f"{fails[0]['clause']}: {fails[0]['what']}",
                          "model": f"tools/props/C17.py: witness_models() [{switch}]", "renames": ren, "failed_clauses": fails[:3]})
    return variant, found


# --------------------------------------------------------------------------- the run


def describe(m) -> dict:
    return {"amplitudes": len(m.amplitudes), "parameters": len(m.parameter_defaults),
            "kinematic_variables": len(m.kinematic_variables), "components": len(m.components)}


class C17Property:
    prop_id = PROP_ID

    def run(self, tier: str, seed: int) -> int:  # noqa: C901, PLR0912, PLR0915
        chk = common.Check(PROP_ID, tier, seed)
        common.use_repo_source()
        import logging

        logging.getLogger("ampform.helicity").setLevel(logging.ERROR)  # "There is no symbol with name …"
        chk.info("source_blobs", common.source_blob_hashes(SOURCES))

        # ---- proofs
        res = common.prove(PROP_ID, PROP_MODULES)
        chk.record_proof(res, "cd lean && lake build " + " ".join(PROP_MODULES) + f" && lake env lean Ampverif/Audit/{PROP_ID}.lean")
        if res["failed"]:
            chk.note("proof obligations not discharged: " + "; ".join(f"{k}: {v[:160]}" for k, v in list(res["failed"].items())[:5]))

        found: list[dict] = []
        cases: list[dict] = []
        try:
            cases, found = self.correspondence(chk, tier, seed)
        except common.LeanRunError as e:
            chk.broken_correspondence("driver", f"Lean driver failed: {e}"[:800])
        except common.InfraError:
            raise
        except Exception as e:  # noqa: BLE001
            chk.broken_correspondence("harness", "".join(traceback.format_exception(type(e), e, e.__traceback__))[-1500:])

        # ---- oracle on every case (always) + a deeper search when something broke
        try:
            found += self.oracle(chk, tier, seed, cases)
            if chk.broken and not found:
                chk.note("something broke and the oracle found nothing on the run's cases: searching deeper")
                found += self.deeper_search(chk, seed)
        except Exception as e:  # noqa: BLE001
            found.append({"what": "the real code raised while the property was evaluated",
                          "error": "".join(traceback.format_exception(type(e), e, e.__traceback__))[-1500:]})

        seen = set()
        for f in found:
            key = f.get("what")
            if key in seen:
                continue
            seen.add(key)
            if len(seen) > 3:
                break
            chk.failing_input({"what": key}, {"input": f, "broken": chk.broken, "tier": tier, "seed": seed})
        if chk.broken and not found:
            for b in chk.broken:
                chk.unexplained(b.get("theorem") or b.get("what"), b)
        chk.coverage["rule"] = (
            "evaluations = rename steps compared between the real rename_symbols and the Lean model (attribute by attribute, key "
            "order included) + oracle evaluations of the property clauses on the real code + natural_sorting keys compared; "
            "distinct_nontrivial = distinct (model, canonical rename map) pairs in which at least one symbol of the model is "
            "actually renamed")
        chk.coverage["trusted_base"] = [
            "Lean 4.33 kernel (+ Mathlib only for tactics; axioms: see axioms_reported)",
            "tools/corr/C17_corr.py (SymPy <-> S-expression conversion, validated per model by constructor round trip and by the driver echo)",
            "SymPy constructors (Add/Mul/... evaluation when a node is rebuilt), free_symbols, xreplace on built-in nodes: executed, not modelled",
            "HelicityModel.expression (PoolSum.evaluate + amplitude substitution): executed; the model takes its value as an input",
            "qrules reactions stored under corpus/C17 (inputs only)",
        ]
        chk.assumptions += [
            "names are ASCII, numbers inside names have <= 15 digits, no text chunk of a name parses as a float (inf/nan)",
            "no bound PoolSum index is among the collected symbols (structural xreplace is capture-free)",
            "a symbol's assumption declaration is its complete assumptions0 dict (all True- and False-valued facts) written as a ternary "
            "numeral over SymPy's 31 facts; Symbol(name, **assumptions0) is a fixed point (checked per declaration); the numeric order of the "
            "numerals is the order of str(sorted(assumptions0.items())) (checked on all pairs of declarations of the run)",
        ]
        return chk.finish()

    # ------------------------------------------------------------------ correspondence
    def correspondence(self, chk, tier, seed):  # noqa: C901, PLR0912, PLR0915
        from tools.corr import C17_corr as corr
        from tools.search import C17_oracle as oracle_mod

        self._history = []

        rng = common.rng_for(PROP_ID, seed, "corr")
        found: list[dict] = []
        variant, wfound = infer_variant(chk)
        chk.info("inferred_variant", variant)
        if not all(variant.values()):
            chk.broken_correspondence("variant", f"the code implements the unsound variant {variant}: the theorems (stated for the sound variant) do not apply")
        found += wfound

        conv = corr.Conv()
        models = [(label, m, "real") for label, m in corr.load_real_models()]
        reaction = corr.load_reaction("d0_kkk_can")
        rejected = 0
        i = 0
        while i < N_SYNTH[tier]:
            sm = corr.synthetic_model(rng, reaction, i)
            try:  # the generator only emits models inside the printer's domain (rejection sampling)
                corr.model_lines(corr.Conv(), sm)
            except (corr.Unprintable, corr.Skip):
                rejected += 1
                continue
            models.append((f"synthetic#{i}", sm, "synthetic"))
            i += 1
        chk.info("synthetic_models_rejected_by_generator", rejected)
        chk.info("synthetic_models_refused_by_sympy", corr.SYNTH_REFUSED[0])
        wm, wprobes = witness_models()
        models.append(("witness", wm, "synthetic"))
        models.append(("witness-merge", wprobes["oneSymbolPerNewName"][0], "synthetic"))
        models.append(("witness-nonzero", wprobes["keepsEveryFact"][0], "synthetic"))
        chk.info("models", {"real": [(l, describe(m)) for l, m, k in models if k == "real"],
                            "synthetic": sum(1 for _, _, k in models if k == "synthetic")})

        # assumption sets numbered in the order of the source's sort key (second component)
        import sympy as sp
        every = set()
        for _, mm, _ in models:
            every |= oracle_mod.all_symbols(mm)
            for e in [mm.intensity, *mm.amplitudes]:
                every |= e.atoms(sp.Symbol)
        conv.preregister(every)
        lines = [f"variant {int(variant['collectsParams'])} {int(variant['reusesExisting'])} {int(variant['oneSymbolPerNewName'])}"]
        sweep = self.start_hash_sweep(tier, seed)
        expect: list[tuple] = [("ok", None)]
        # the declarations of the run: the model's decoding of each ternary numeral is the complete assumptions0 dict
        # (True- and False-valued facts), its `truthyOnly` is the numeral of {k: v for k, v in assumptions0.items() if v}
        for code in sorted(conv.decls):
            lines.append(f"facts {code}")
            expect.append(("facts", code))
        # natural_sorting keys
        key_names = set()
        for _, m, _ in models:
            key_names |= {s.name for s in m.kinematic_variables} | set(m.components) | {str(k) for k in m.amplitudes}
        key_names |= set(corr.FRESH_NAMES) | set(corr.PARAM_NAMES) | set(corr.KIN_NAMES)
        alphabet = "abAB019.+-_{}^ ;"
        krng = common.rng_for(PROP_ID, seed, "keys")
        while len(key_names) < N_KEYS[tier]:
            key_names.add("".join(krng.choice(alphabet) for _ in range(krng.randint(0, 9))))
        key_names = sorted(n for n in key_names if corr.name_in_sort_domain(n))
        for n in key_names:
            lines.append("key " + corr.enc_name(n))
            expect.append(("key", n))

        cases: list[dict] = []
        f1_shaped = [0]
        decl_cov: dict = {"generators": set(), "steps_renaming_a_symbol_with_underivable_false_facts": 0,
                          "steps_renaming_a_symbol_with_a_non_library_declaration": 0}
        skipped: dict[str, int] = {}
        kinds_hit: dict[str, int] = {}

        def add_model(m):
            mt = corr.model_lines(conv, m)
            lines.extend(mt.lines)
            expect.append(("ok", None))
            lines.append("echo")
            expect.append(("echo", mt.lines[1:]))

        for label, m0, kind in models:
            nseq = SEQ_PER_REAL[tier] if kind == "real" else SEQ_PER_SYNTH[tier]
            seqs = [corr.gen_sequence(rng) for _ in range(nseq)]
            if kind == "real":  # every kind at least once on the real models, as the first step
                pool = list(dict.fromkeys(corr.KINDS + corr.DECL_KINDS))
                if label in corr.DECL_MODEL_LABELS:  # … on the models with every kind of declaration: the maps aimed at those
                    pool = list(corr.DECL_KINDS)
                start = rng.randrange(len(pool))
                for j, s in enumerate(seqs):
                    s[0] = pool[(start + j) % len(pool)]
                    if label in corr.DECL_MODEL_LABELS and tier == "quick":
                        del s[1:]  # (one aimed map, then the rename back: these models are large)
            self._history.append((label, m0, oracle_mod.snapshot(m0)))
            for seq in seqs:
                cur = m0
                plan: list = list(seq)
                step = 0
                while step < len(plan):
                    kname = plan[step]
                    try:
                        info = corr.model_info(cur)
                        inverse_of = None
                        if isinstance(kname, tuple):  # ("inverse", map, index of the forward case)
                            _, ren, inverse_of = kname
                            kname = "inverse"
                        else:
                            ren = corr.gen_map(rng, info, kname)
                        bound = corr.bound_symbols(cur)
                        collected = {s for v in info["by_name"].values() for s in v}
                        if bound & collected:
                            raise corr.Skip("a bound PoolSum index is among the symbols of the model")
                        rd = dict(ren)
                        if oracle_mod.mixes_commutativity(cur, rd):
                            raise corr.Skip("a commutative and a non-commutative symbol identified (SymPy's Abs does not terminate)")
                        if not variant["oneSymbolPerNewName"]:  # before c9b6eb9 the choice depended on the set order
                            for new in rd.values():
                                ex = [s for s in collected if s.name == new and s.name not in rd]
                                if len(ex) > 1:
                                    raise corr.Skip("existing_symbols ambiguous (set iteration order)")
                        for nm in list(rd) + list(rd.values()):
                            if not corr.name_in_sort_domain(nm):
                                raise corr.Skip("name outside the natural_sorting domain")
                        if corr.fresh_merge_of_different_assumptions(info, rd):
                            f1_shaped[0] += 1
                        lossy_renamed = [n for n in rd if n in info["lossy"] and rd[n] != n]
                        for n in lossy_renamed:
                            for s in info["by_name"][n]:
                                gens = getattr(s, "_assumptions_orig", None) or s.assumptions0
                                if len(gens) > 3:  # (a symbol made by an earlier rename stores its complete assumptions0)
                                    continue
                                decl_cov["generators"].add(",".join(f"{k}={'T' if v else 'F'}" for k, v in sorted(gens.items())))
                        decl_cov["steps_renaming_a_symbol_with_underivable_false_facts"] += bool(lossy_renamed)
                        decl_cov["steps_renaming_a_symbol_with_a_non_library_declaration"] += any(n in info["decl"] and rd[n] != n for n in rd)
                        real = cur.rename_symbols(ren)
                        add_model(cur)
                        pairs = list(ren.items()) if isinstance(ren, dict) else list(ren)
                        lines.append("rename " + " ".join(f"{corr.enc_name(a)}:{corr.enc_name(b)}" for a, b in pairs))
                        case = {"model": label, "kind": kind, "step": step, "map_kind": kname, "renames": pairs,
                                "before": cur, "after": real, "inverse_of": inverse_of}
                        expect.append(("rename", case))
                        cases.append(case)
                        self._history.append((f"{label} step {step}", real, oracle_mod.snapshot(real)))
                        kinds_hit[kname] = kinds_hit.get(kname, 0) + 1
                        inv = corr.invertible(info, rd) if kname != "inverse" else None
                        coin = rng.random() < 0.5
                        # rename, then rename back (on the same history): always when a symbol with a non-library declaration moved
                        if inv and len(plan) < 4 and (coin or any(n in info["decl"] for n in rd)):
                            plan.insert(step + 1, ("inverse", inv, len(cases) - 1))
                        cur = real
                        step += 1
                    except corr.Skip as e:
                        skipped[str(e)] = skipped.get(str(e), 0) + 1
                        break
                    except corr.Unprintable as e:
                        if step == 0:
                            chk.broken_correspondence("printer", f"{label}: {e}")
                        else:  # a model derived by an earlier rename left the printer's domain (e.g. zoo after a merge)
                            key = "derived model outside the printer's domain"
                            skipped[key] = skipped.get(key, 0) + 1
                        break

        self._cases_generated = cases  # (kept for post-mortem inspection of a run)
        out = common.lean_run(corr.MODEL_FILE, "\n".join(lines) + "\n", timeout=1500)
        outs = out.split("\n")
        pos = 0
        n_cmp = n_key = n_echo = 0
        mismatches = []
        for kind, payload in expect:
            if pos >= len(outs):
                chk.broken_correspondence("driver", "driver output ended early")
                break
            if kind == "ok":
                if outs[pos] != "ok":
                    raise common.LeanRunError(f"expected ok, got {outs[pos][:200]!r}")
                pos += 1
            elif kind == "facts":
                chk.count()
                a0 = conv.decls[payload]
                idx = {f: i for i, f in enumerate(corr.fact_universe())}
                want = "facts " + " ".join(f"{idx[f]}:{int(v)}" for f, v in sorted(a0.items(), key=lambda kv: idx[kv[0]])) \
                    + f" | {corr.enc_decl(corr.truthy_only(a0))}"
                if " ".join(outs[pos].split()) != " ".join(want.split()):
                    mismatches.append({"declaration": a0, "lean": outs[pos], "expected": want})
                pos += 1
            elif kind == "key":
                n_key += 1
                chk.count()
                if corr.lean_key_canonical(outs[pos]) != corr.py_key_canonical(payload):
                    mismatches.append({"natural_sorting": payload, "lean": outs[pos], "real": corr.py_key_canonical(payload)})
                pos += 1
            else:
                end = outs.index("end", pos)
                block = outs[pos:end]
                pos = end + 1
                if kind == "echo":
                    n_echo += 1
                    if block != payload:
                        chk.broken_correspondence("echo", "the driver does not echo the model it was sent (parser/printer fault)")
                    continue
                case = payload
                reply = corr.parse_reply(block)
                n_cmp += 1
                # free symbols of the derived `expression`: equality when every symbol keeps its assumptions and
                # nothing is merged, inclusion otherwise (SymPy may cancel or simplify by assumptions)
                asm_ok = all(a.rsplit("/", 1)[1] == b.rsplit("/", 1)[1] for a, b in reply.mapping)  # complete declarations equal
                images = dict(reply.mapping)
                injective = len({images.get(sy, sy) for sy in reply.collect}) == len(set(reply.collect))
                diffs = corr.compare(conv, case["after"], reply, with_expression=asm_ok and injective, expression_inclusion=asm_ok)
                # what the model collects = what the real __collect_symbols collects
                collect_real = getattr(case["before"], "_HelicityModel__collect_symbols", None)
                if collect_real is not None and dict(case["renames"]):
                    real_set = {conv.sym(s) for s in collect_real()}
                    if real_set != set(reply.collect):
                        diffs.append(f"collected symbols: only real {sorted(real_set - set(reply.collect))[:4]} only model {sorted(set(reply.collect) - real_set)[:4]}")
                from tools.search import C17_oracle as oracle
                if asm_ok and reply.closed != (oracle.c01_holds(case["before"]), oracle.c01_holds(case["after"])):
                    diffs.append(f"C01 closure flags: model {reply.closed}")
                renamed = len(reply.mapping)
                case["renamed_by_model"] = renamed
                canon = (case["model"], case["step"], tuple(sorted(dict(case["renames"]).items())), str(case["before"].parameter_defaults)[:200])
                chk.count(canon if renamed else None)
                if diffs:
                    mismatches.append({"model": case["model"], "step": case["step"], "map_kind": case["map_kind"],
                                       "renames": case["renames"], "differences": diffs[:4]})
                elif len(chk.coverage["samples"]) < 5 and renamed:
                    chk.sample({"model": case["model"], "map_kind": case["map_kind"], "renames": case["renames"],
                                "model_map": [(corr.dec_name(a.rsplit("/", 1)[0]), corr.dec_name(b.rsplit("/", 1)[0])) for a, b in reply.mapping][:6],
                                "parameter_keys_after": [str(k) for k in case["after"].parameter_defaults][:8]})
        for mm in mismatches[:3]:
            chk.broken_correspondence("rename" if "model" in mm else "declaration" if "declaration" in mm else "natural_sorting", mm)
        disagree = conv.order_disagreements_now()
        if disagree:
            chk.broken_correspondence("declaration order", {"what": "the numeric order of the ternary declarations is not the order of "
                                                            "str(sorted(assumptions0.items()))", "pairs": disagree[:3]})
        singles = sorted(f"{f}=F" for f in corr.fact_universe()
                         if sp.Symbol("x", **corr.truthy_only(sp.Symbol("x", **{f: False}).assumptions0)) != sp.Symbol("x", **{f: False}))
        missing = [g for g in singles if g not in decl_cov["generators"]]
        decl_cov["single_false_facts_no_true_fact_implies"] = len(singles)
        decl_cov["of_these_renamed_in_this_run"] = len(singles) - len(missing)
        if missing:
            chk.note(f"declarations through a single False-valued fact that were not renamed in this run: {missing}")
        decl_cov["generators"] = sorted(decl_cov["generators"])
        decl_cov["distinct_declarations"] = len(conv.decls)
        decl_cov["declarations_with_underivable_false_facts"] = sum(
            1 for a0 in conv.decls.values() if sp.Symbol("x", **corr.truthy_only(a0)).assumptions0 != a0)
        decl_cov["declaration_order_pairs_checked"] = len(conv.decls) ** 2
        chk.info("assumption_declarations", decl_cov)
        chk.info("correspondence", {"rename_steps_compared": n_cmp, "mismatches": len(mismatches), "natural_sorting_keys": n_key,
                                    "echo_round_trips": n_echo, "map_kinds": kinds_hit, "skipped": skipped,
                                    "merges_of_different_assumptions_onto_a_fresh_name": f1_shaped[0],
                                    "steps_with_renamed_symbols": sum(1 for c in cases if c.get("renamed_by_model")),
                                    "node_classes": sorted(conv.cls_ids), "assumption_sets": len(conv.decls)})
        found += self.finish_hash_sweep(chk, sweep)
        return cases, found

    # ------------------------------------------------------------------ hash-seed sweep (HARDENING rule 6)
    def start_hash_sweep(self, tier, seed):
        import os
        import subprocess

        seeds = [1, 2, 3] if tier == "quick" else [1, 2, 3, 4, 5, 6]
        n_synth = 6 if tier == "quick" else 40
        procs = []
        for h in seeds:
            env = dict(os.environ, PYTHONHASHSEED=str(h))
            procs.append((h, subprocess.Popen([common.PY, str(common.ROOT / "tools" / "corr" / "C17_hashprobe.py"), str(seed), str(n_synth)],
                                              stdout=subprocess.PIPE, stderr=subprocess.PIPE, text=True, env=env, cwd=common.ROOT)))
        return procs

    def finish_hash_sweep(self, chk, procs):
        import subprocess

        results = {}
        for h, p in procs:
            try:
                out, err = p.communicate(timeout=600)
            except subprocess.TimeoutExpired as e:
                p.kill()
                raise common.InfraError("hash-seed sweep child timed out") from e
            if p.returncode != 0:
                chk.broken_correspondence("hash-sweep", f"child with PYTHONHASHSEED={h} failed: {err[-600:]}")
                return []
            results[h] = json.loads(out.strip().split("\n")[-1])
        found = []
        hs = sorted(results)
        orders = {json.dumps(results[h]["orders"]) for h in hs}
        base = results[hs[0]]["cases"]
        differing = 0
        for h in hs[1:]:
            other = results[h]["cases"]
            if [(c["model"], c["renames"]) for c in other] != [(c["model"], c["renames"]) for c in base]:
                chk.broken_correspondence("hash-sweep", "the generated cases themselves depend on the hash seed (harness fault)")
                break
            for a, b in zip(base, other):
                chk.count()
                if a["digest"] != b["digest"]:
                    differing += 1
                    if differing <= 2:
                        found.append({"what": "determinism: the result of rename_symbols depends on PYTHONHASHSEED",
                                      "model": a["model"], "renames": a["renames"], "hash_seeds": [hs[0], h]})
        chk.info("hash_sweep", {"hash_seeds": hs, "distinct_iteration_orders_of_collected_set": len(orders),
                                "cases_per_process": len(base), "cases_differing": differing,
                                "F2_two_unrenamed_symbols_share_target_name": {str(h): results[h]["f2"] for h in hs},
                                "F2_depends_on_hash_seed": len({json.dumps(results[h]["f2"]) for h in hs}) > 1})
        if len(orders) < 2:
            chk.note("hash sweep: all child processes iterated the collected set in the same order (no evidence of order independence)")
        return found

    # ------------------------------------------------------------------ oracle
    def oracle(self, chk, tier, seed, cases):
        from tools.search import C17_oracle as oracle

        rng = common.rng_for(PROP_ID, seed, "oracle")
        found = []
        numeric_left: dict[str, int] = {}
        stats = {"cases": 0, "noncanonical_skipped": 0, "numeric_agree": 0, "numeric_skipped": 0, "merges": 0, "ambiguous": 0, "kin_merge": 0, "param_kin_clash": 0}
        if not cases:  # the correspondence did not get as far as producing cases
            cases = self.fallback_cases(seed)
        for c in cases:
            numeric = True
            if c["kind"] == "real":
                budget = NUMERIC_PER_REAL[tier]
                if "axisangle" in c["model"]:  # spinful axis-angle models take 8-30 s per numeric evaluation:
                    budget = 0 if tier == "quick" else 1  # thorough only (the DPD-aligned models are evaluated in both tiers)
                left = numeric_left.setdefault(c["model"], budget)
                numeric = left > 0 and c.get("renamed_by_model", 1) > 0
                if numeric:
                    numeric_left[c["model"]] = left - 1
            ren = dict(c["renames"]) if c["map_kind"] != "dup_tuples" else list(c["renames"])
            fails, facts = oracle.check_case(c["before"], ren, rng=rng, numeric=numeric)
            chk.count()
            stats["cases"] += 1
            # rename, then rename back: the round trip is the identity on the model
            if c.get("inverse_of") is not None and c["inverse_of"] < len(cases):
                stats["rename_back"] = stats.get("rename_back", 0) + 1
                origin = cases[c["inverse_of"]]["before"]
                if not oracle.same_model(c["after"], origin):
                    fails = [*fails, {"clause": "history", "what": "renaming back with the inverse map does not give the model back",
                                      "forward": cases[c["inverse_of"]]["renames"]}]
            stats["merges"] += 1 if facts.get("merged") else 0
            stats["ambiguous"] += 1 if facts.get("ambiguous") else 0
            stats["noncanonical_skipped"] += 1 if facts.get("noncanonical") else 0
            stats["mixes_commutativity_skipped"] = stats.get("mixes_commutativity_skipped", 0) + (1 if facts.get("mixes_commutativity") else 0)
            stats["kin_merge"] += 0 if facts.get("kin_injective", True) else 1
            stats["param_kin_clash"] += 1 if facts.get("param_kin_clash") else 0
            nstat = str(facts.get("numeric", ""))
            if nstat.startswith("agree"):
                stats["numeric_agree"] += 1
            elif nstat:
                stats["numeric_skipped"] += 1
            for f in fails:
                found.append({"what": f"{f['clause']}: {f['what']}", "model": c["model"], "step": c["step"],
                              "renames": c["renames"], "detail": f,
                              "parameter_defaults_before": str(c["before"].parameter_defaults)[:600]})
        # histories: no model of any history (corpus models included) was changed by any later rename, lookup,
        # assignment or pickling
        mutated = 0
        for desc, model, snap in getattr(self, "_history", []):
            chk.count()
            if oracle.snapshot(model) != snap:
                mutated += 1
                if mutated <= 2:
                    found.append({"what": "original: a model of the history was changed by a later operation", "model": desc})
        stats["history_models_rechecked"] = len(getattr(self, "_history", []))
        chk.info("oracle", stats)
        return found

    def fallback_cases(self, seed):
        from tools.corr import C17_corr as corr

        rng = common.rng_for(PROP_ID, seed, "fallback")
        cases = []
        models = [(l, m, "real") for l, m in corr.load_real_models()]
        _, probes = witness_models()
        for switch, (pm, ren) in probes.items():
            cases.append({"model": f"tools/props/C17.py: witness_models() [{switch}]", "kind": "synthetic", "step": 0,
                          "map_kind": "probe", "renames": list(ren.items()), "before": pm})
        reaction = corr.load_reaction("d0_kkk_can")
        models += [(f"synthetic#{i}", corr.synthetic_model(rng, reaction, i), "synthetic") for i in range(60)]
        for label, m, kind in models:
            for kname in corr.KINDS + corr.DECL_KINDS:
                ren = corr.gen_map(rng, corr.model_info(m), kname)
                pairs = list(ren.items()) if isinstance(ren, dict) else list(ren)
                cases.append({"model": label, "kind": kind, "step": 0, "map_kind": kname, "renames": pairs, "before": m})
        return cases

    def deeper_search(self, chk, seed):
        from tools.search import C17_oracle as oracle

        rng = common.rng_for(PROP_ID, seed, "deeper")
        found = []
        for c in self.fallback_cases(seed + 7919):
            ren = dict(c["renames"]) if c["map_kind"] != "dup_tuples" else list(c["renames"])
            fails, _ = oracle.check_case(c["before"], ren, rng=rng, numeric=c["kind"] != "real")
            chk.count()
            for f in fails:
                found.append({"what": f"{f['clause']}: {f['what']}", "model": c["model"], "renames": c["renames"], "detail": f})
            if len(found) > 5:
                break
        return found


PROP = C17Property()


def replay(rep: dict) -> int:
    """Re-evaluate a recorded failing input on the current source (`VERIF_REPO` honoured): a step-0 case on a
    corpus or witness model is evaluated directly by the oracle; anything else re-runs the check with the recorded
    tier and seed (all inputs derive from the seed)."""
    common.use_repo_source()
    import logging

    logging.getLogger("ampform.helicity").setLevel(logging.ERROR)
    from tools.corr import C17_corr as corr
    from tools.search import C17_oracle as oracle

    inp = rep.get("input") or {}
    label, renames = inp.get("model"), inp.get("renames")
    models = dict(corr.load_real_models())
    wm, wprobes = witness_models()
    models["witness"] = wm
    for switch, (pm, _) in wprobes.items():
        models[f"tools/props/C17.py: witness_models() [{switch}]"] = pm
    models["witness-merge"] = wprobes["oneSymbolPerNewName"][0]
    models["witness-nonzero"] = wprobes["keepsEveryFact"][0]
    if label in models and renames is not None and inp.get("step", 0) == 0:
        ren = renames if isinstance(renames, dict) else [tuple(p) for p in renames]
        fails, facts = oracle.check_case(models[label], ren, rng=common.rng_for(PROP_ID, 0, "replay"))
        print(json.dumps({"model": label, "renames": renames, "failed_clauses": fails, "facts": facts}, indent=1, default=str))
        if fails:
            print(f"VIOLATION property={PROP_ID} replay=(replayed input still fails)")
            return 1
        print(f"[{PROP_ID}] replayed input satisfies every clause on this source")
        return 0
    return PROP.run(rep.get("tier", "quick"), int(rep.get("seed", 0)))


MANIFEST = {
    "technique": "Lean 4 theorems about a hand-written executable model of rename_symbols (T2 correspondence on real "
                 "HelicityModels with seeded random rename maps; independent clause-by-clause oracle on the real code)",
    "design_ref": "DESIGN.md §3 C17",
    "text": (
        "Proof about a model + differential tie. The Lean model (Model/C17Rename.lean, import-free, executable) follows "
        "rename_symbols/__collect_symbols, Python's dict semantics, the attrs converters and natural_sorting line by line; "
        "symbols are (name, assumption declaration) where the declaration is the COMPLETE assumptions0 dict — every True- and every "
        "False-valued fact — written as a ternary numeral over SymPy's 31 facts (decoded by declFacts; its numeric order is the order "
        "of the source's sort key str(sorted(assumptions0.items()))), expressions are trees over symbols/constants/uninterpreted "
        "operators, three variant "
        "switches stand for the two parts of fix 137fbcb and for fix c9b6eb9 (sorted lookup, one symbol per new name). 36 "
        "kernel-checked theorems (Props/C17.lean), all for ALL models, maps and (where stated) variants: every attribute of the "
        "result is the original with ONE map sigma applied (expressions by xreplace, dictionary keys by sigma, then "
        "dict/converter semantics; amplitudes/components are a permutation of the mapped originals; parameter and "
        "kinematic-variable keys are exactly the images; values and definitions are carried over; no collision => order and all "
        "entries kept); sigma renames exactly the mentioned symbols whose name is in the map and nothing else (sound variant: "
        "also parameters that occur only in parameter_defaults); assumptions are preserved whenever all symbols sent to a fresh "
        "name share them (always for a single source); for a single source and a fresh name the new symbol has EXACTLY the declaration "
        "of its source, fact by fact: every True, every False fact (zero=False, real=False, integer=False, positive=False, "
        "commutative=False, …) and no other (renamed_symbol_has_source_declaration), renaming back then restores the original symbol "
        "(rename_back_restores_symbol), and a decide-witness shows that a rebuild from only the facts that hold "
        "({k: v for k, v in assumptions0.items() if v}, seeded change C17_5) yields a different symbol for a coupling declared "
        "zero=False (witness_truthy_only_rebuild_loses_facts, replayed on the real code); renaming onto an existing unique symbol couples the two whatever their "
        "assumptions; ANY two symbols sent to one name become one symbol (merge_couples, no precondition), all of them taking "
        "the assumptions of the least source by the sort key (name, assumptions) (merge_onto_fresh_takes_first_assumptions); "
        "symbols with different final names are never identified (single-pair merge: exactly the two); the image depends only "
        "on the SET of collected symbols, not on its iteration order (target_independent_of_set_order: hash-seed independence); "
        "a map injective on the names of a model with one symbol per name gives an injective sigma, and then "
        "intensity(rename m)(data') = intensity(m)(data) whenever data' carries data over (substitution = precomposition; "
        "parameters from parameter_defaults, kinematic variables from their definitions; any carrier, operators uninterpreted); "
        "C01 closure is preserved when no parameter is identified with a kinematic variable (inclusion half unconditionally); "
        "with sigma injective on kinematic-variable keys no definition is dropped (precondition (iii) of the design); maps that "
        "mention no collected name return a well-formed model unchanged; the empty map returns the model. Witness theorems "
        "(decide) for all three unsound switches are replayed on the real code; the harness infers the variant the source "
        "implements. Not proved / outside: 'the original is unchanged' is trivial in a functional model and is checked on the "
        "real object (deep snapshots of every model of every history). Findings F1/F2 (two symbols with different assumptions "
        "under one fresh name stayed uncoupled; the choice among same-named symbols depended on the hash seed) were reported "
        "from this check, repaired in /repo by c9b6eb9 and are now covered by the theorems above (see "
        "notes/findings_C17.md). Tie: every run converts 14 corpus "
        "models (5 qrules reactions: helicity and canonical formalism, stable final-state ids, scalar initial-state mass, "
        "Breit-Wigner dynamics with and without form factors, helicity couplings, and ALIGNED models — axis-angle and "
        "Dalitz-plot decomposition, the latter with stable ids so that the zeta-angle definitions contain mass parameters and "
        "the intensity contains Wigner functions of kinematic variables; two models with CUSTOM DYNAMICS whose couplings are declared "
        "through every single SymPy fact with value True and with value False and through mixed True/False sets — 69 distinct "
        "declarations, 33 of them with False facts that no True fact implies —, and a library model changed with attrs.evolve: "
        "library symbols re-declared, extra parameter_defaults keys and kinematic variables with such declarations, "
        "commutative=False keys) and 32 (quick) / 500 (thorough) random small "
        "HelicityModels (builder-style names with backslashes, braces, commas, blanks; parameters inside kinematic-variable "
        "definitions and inside the intensity; int/float/complex/-0.0/1e-300/10**20 defaults; 40 % of the symbols declared through a "
        "random entry of the declaration corpus, commutative=False included) to the line protocol, applies "
        "histories of 1-4 seeded rename maps of 26 kinds (6 of them aimed at the symbols with non-library declarations: all, "
        "injective, swap, chain, merge onto existing, merge onto fresh; an invertible rename of such a symbol is always followed by "
        "the rename back) — the older kinds: (injective, merging onto existing/fresh names, chains, swaps, "
        "kinematic variables, four-momenta, empty, unknown, self, duplicate pairs, all parameters, rename-then-rename-back, ...) "
        "and compares rename_symbols with the Lean model attribute by attribute, key order included, plus the collected symbol "
        "set, C01 flags and the natural_sorting keys of all names; symbols cross the protocol with their complete declaration, "
        "the model's decoding of every declaration of the run (and its truthy-only part) is compared with the assumptions0 dict, "
        "Symbol(name, **assumptions0) is checked to be a fixed point, and the order of the numerals is compared with the order of "
        "the sort-key strings on all pairs. The oracle evaluates on every step: attributes = original "
        "with the specified map, assumptions (complete assumptions0 dicts of the symbols actually found in the result, lost and "
        "gained facts, and the generators stored in the new symbol regenerate the source's declaration), C01, unknown names, coupling, the numeric substitution clause (four-momenta -> "
        "kinematic variables -> expression, 1e-12, re-checked in 40 digits; for merging maps only on values that satisfy the "
        "symbols' assumptions), round trips (field types, reaction_info, ParameterValues lookup by symbol/name/index, "
        "iteration, assignment, pickling, rename-back = identity), every model of every history unchanged at the end of the "
        "run, and a hash-seed sweep (3/6 fresh processes with different PYTHONHASHSEED, >= 2 distinct set iteration orders "
        "observed, identical results required)."
    ),
    "level_note": (
        "Trusted: Lean kernel (axioms propext, Classical.choice, Quot.sound); the SymPy<->S-expression converter "
        "(closed node set, aborts on anything else; validated per model by rebuilding every printed tree through the real "
        "constructors and by the driver's echo); the Lean driver's parser/printer (partial functions, echo-checked). Executed, "
        "not modelled: SymPy constructor evaluation when a node is rebuilt (Add/Mul flattening and ordering), free_symbols and "
        "xreplace on built-in nodes, the HelicityModel.expression property (PoolSum.evaluate + amplitude substitution; its value "
        "is an input of the model), CPython dict/sorted. Domain restrictions (each counted in the evidence): ASCII names, "
        "numbers in names <= 15 digits, no name chunk that float() accepts; no bound PoolSum index among the collected symbols; "
        "maps that identify a commutative with a non-commutative symbol are outside (SymPy's Abs does not terminate on the merged "
        "amplitude; for the same reason a non-commutative coupling cannot be formulated by the builder, such symbols occur as "
        "parameter keys and in synthetic models); SymPy's fact closure is executed, not modelled (the model copies complete "
        "declarations, which are fixed points of it); the derived `expression` is compared through its free symbols "
        "(its tree is re-derived and re-evaluated by SymPy) and by value: the numeric clause runs for maps under which every "
        "symbol keeps its assumptions (SymPy simplifies by assumptions)."
    ),
}
