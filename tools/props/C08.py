"""C08 — boost and rotation expressions are proper Lorentz transformations.

Tie: T1 (explicit matrices AND the parsed lambdify-generated numpy code are re-translated into
Lean on every run, Float twins validated against the real arrays) + T2 (exact string equality
of the einsum-subscript generators with the Lean model) + an independent numeric oracle.
"""

from __future__ import annotations

import inspect
import math
import traceback

from tools.lib import common
from tools.translate import c08_ext as X
from tools.translate import core

PROP_ID = "C08"
SOURCES = [
    "src/ampform/kinematics/lorentz.py",
    "src/ampform/sympy/_array_expressions.py",
    "src/ampform/sympy/math.py",
]
GEN_MOD = "Ampverif.Gen.C08"
FLT_MOD = "Ampverif.GenFloat.C08"
PROP_MODULES = ["Ampverif.Props.C08", "Ampverif.Props.C08Memo"]
P4 = list(X.MOMENTUM_COMPONENTS)
Q4 = ["Eq", "qx", "qy", "qz"]


# =============================================================================== targets


def targets():
    """The real SymPy objects of the property: name -> dict(expr, args, kinds, params, shape)."""
    import sympy as sp

    from ampform.kinematics import lorentz as lz
    from ampform.sympy._array_expressions import ArrayMultiplication, ArraySum, MatrixMultiplication

    p = lz.FourMomentumSymbol("p", shape=[])
    beta, a, b = sp.symbols("beta a b", real=True)
    nb, na = lz.ArraySize(beta), lz.ArraySize(a)
    kp = {"p": ("vec", P4)}
    t = {}
    t["boost"] = dict(obj=lz.BoostMatrix(p), args=[p], kinds=kp, params=P4, shape=(4, 4),
                      doc="BoostMatrix(p)")
    t["boostNeg"] = dict(obj=lz.BoostMatrix(lz.NegativeMomentum(p)), args=[p], kinds=kp, params=P4, shape=(4, 4),
                         doc="BoostMatrix(NegativeMomentum(p))")
    t["metric"] = dict(obj=lz.MinkowskiMetric(p), args=[p], kinds=kp, params=[], shape=(4, 4),
                       doc="MinkowskiMetric(p)")
    t["boostZ"] = dict(obj=lz.BoostZMatrix(beta, n_events=nb), args=[beta], kinds={"beta": ("scalar", "beta")},
                       params=["beta"], shape=(4, 4), doc="BoostZMatrix(beta)")
    t["rotY"] = dict(obj=lz.RotationYMatrix(a, n_events=na), args=[a], kinds={"a": ("scalar", "a")},
                     params=["a"], shape=(4, 4), doc="RotationYMatrix(a)")
    t["rotZ"] = dict(obj=lz.RotationZMatrix(a, n_events=na), args=[a], kinds={"a": ("scalar", "a")},
                     params=["a"], shape=(4, 4), doc="RotationZMatrix(a)")
    # vector / product valued targets: only the generated code exists (no as_explicit)
    t["negMom"] = dict(obj=lz.NegativeMomentum(p), args=[p], kinds=kp, params=P4, shape=(4,),
                       doc="NegativeMomentum(p)", code_only=True)
    t["boostSelf"] = dict(obj=ArrayMultiplication(lz.BoostMatrix(p), p), args=[p], kinds=kp, params=P4, shape=(4,),
                          doc="ArrayMultiplication(BoostMatrix(p), p)", code_only=True)
    kab = {"a": ("scalar", "a"), "b": ("scalar", "b")}
    t["rotYY"] = dict(obj=MatrixMultiplication(lz.RotationYMatrix(a, n_events=na), lz.RotationYMatrix(b, n_events=na)),
                      args=[a, b], kinds=kab, params=["a", "b"], shape=(4, 4),
                      doc="MatrixMultiplication(RotationYMatrix(a), RotationYMatrix(b))", code_only=True)
    t["rotZZ"] = dict(obj=MatrixMultiplication(lz.RotationZMatrix(a, n_events=na), lz.RotationZMatrix(b, n_events=na)),
                      args=[a, b], kinds=kab, params=["a", "b"], shape=(4, 4),
                      doc="MatrixMultiplication(RotationZMatrix(a), RotationZMatrix(b))", code_only=True)
    kabp = {**kab, **kp}
    t["rotYZp"] = dict(obj=ArrayMultiplication(lz.RotationYMatrix(a, n_events=na), lz.RotationZMatrix(b, n_events=na), p),
                       args=[a, b, p], kinds=kabp, params=["a", "b", *P4], shape=(4,),
                       doc="ArrayMultiplication(RotationYMatrix(a), RotationZMatrix(b), p)", code_only=True)
    # ---- COMPOUND arguments: every `_numpycode` template must print its argument holes as atoms or
    # parenthesised. Representatives of the precedence classes of printed expressions: a top-level
    # sum/difference (Add), a negated quotient (Mul with sign), a power (Pow); for array arguments a
    # sum of arrays. Theorems: generated code (cse off/on) = the explicit matrix AT the compound argument.
    b1, b2 = sp.symbols("b1 b2", real=True)
    n1 = lz.ArraySize(b1)
    k12 = {"b1": ("scalar", "b1"), "b2": ("scalar", "b2")}
    forms = {"Add": b1 - b2, "Mul": -b1 / b2, "Pow": b1**2}
    classes = {"boostZ": lz.BoostZMatrix, "rotY": lz.RotationYMatrix, "rotZ": lz.RotationZMatrix}
    for cname, cls in classes.items():
        for fname, arg in forms.items():
            t[f"{cname}{fname}"] = dict(obj=cls(arg, n_events=n1), args=[b1, b2], kinds=k12, params=["b1", "b2"],
                                        shape=(4, 4), doc=f"{cls.__name__}({arg})", code_only=True,
                                        kind="b12" + fname, compound=str(arg))
    q = lz.FourMomentumSymbol("q", shape=[])
    kpq = {"p": ("vec", P4), "q": ("vec", Q4)}
    psum = ArraySum(p, q)
    t["boostSum"] = dict(obj=lz.BoostMatrix(psum), args=[p, q], kinds=kpq, params=[*P4, *Q4], shape=(4, 4),
                         doc="BoostMatrix(ArraySum(p, q))", code_only=True, kind="pq", compound="p + q")
    t["negMomSum"] = dict(obj=lz.NegativeMomentum(psum), args=[p, q], kinds=kpq, params=[*P4, *Q4], shape=(4,),
                          doc="NegativeMomentum(ArraySum(p, q))", code_only=True, kind="pq", compound="p + q")
    t["metricSum"] = dict(obj=lz.MinkowskiMetric(psum), args=[p, q], kinds=kpq, params=[], shape=(4, 4),
                          doc="MinkowskiMetric(ArraySum(p, q))", code_only=True, kind="pq", compound="p + q")
    # ---- WRAPPED momenta: `BoostMatrix.evaluate()` / `as_explicit()` and the printers see the momentum
    # argument as an expression TREE, so anything that looks at the kind of that tree (unwrapping a
    # NegativeMomentum, distributing over an ArraySum, short-cutting an already boosted momentum) is only
    # exercised by arguments that ARE such trees: space inversion applied twice and three times, inversion
    # of a sum, sum of inversions, a sum with one inverted term, inversion of a sum containing an inversion,
    # and the momentum boosted by another BoostMatrix (what compute_boost_chain builds). For each of them the
    # explicit matrix (`…Ex`) and the generated code (`…Code0/1`) are regenerated; theorems: each equals
    # `boostEx` AT THE VALUE of the argument. `share=True`: repeated subterms are named, not rewritten.
    N = lz.NegativeMomentum
    neg = lambda v: [v[0], -v[1], -v[2], -v[3]]  # noqa: E731
    vsum = lambda pt: [pt[i] + pt[i + 4] for i in range(4)]  # noqa: E731
    vmix = lambda pt: [pt[0] + pt[4], *[pt[i] - pt[i + 4] for i in (1, 2, 3)]]  # noqa: E731

    def wrapped(name, obj, doc, argval, *, two, shape=(4, 4), code_only=False, **kw):
        t[name] = dict(obj=obj, args=[p, q] if two else [p], kinds=kpq if two else kp,
                       params=[*P4, *Q4] if two else P4, shape=shape, doc=doc, code_only=code_only,
                       kind="w2" if two else "w1", argval=argval, share=True, wrapped=True, **kw)

    wrapped("boostNeg2", lz.BoostMatrix(N(N(p))), "BoostMatrix(NegativeMomentum(NegativeMomentum(p)))",
            lambda pt: list(pt), two=False)
    # cse=False is left out for three inversions: the printer repeats the whole nested argument inside every
    # `len(..)` of the metric arrays (8 MB of source, a minute of lambdify)
    wrapped("boostNeg3", lz.BoostMatrix(N(N(N(p)))), "BoostMatrix(NegativeMomentum(NegativeMomentum(NegativeMomentum(p))))",
            lambda pt: neg(pt), two=False, cse_settings=(True,))
    wrapped("boostNegSum", lz.BoostMatrix(N(psum)), "BoostMatrix(NegativeMomentum(ArraySum(p, q)))",
            lambda pt: neg(vsum(pt)), two=True)
    wrapped("boostSumNeg", lz.BoostMatrix(ArraySum(N(p), N(q))), "BoostMatrix(ArraySum(NegativeMomentum(p), NegativeMomentum(q)))",
            lambda pt: neg(vsum(pt)), two=True)
    wrapped("boostSumMix", lz.BoostMatrix(ArraySum(p, N(q))), "BoostMatrix(ArraySum(p, NegativeMomentum(q)))",
            vmix, two=True)
    wrapped("boostNegMix", lz.BoostMatrix(N(ArraySum(N(p), q))), "BoostMatrix(NegativeMomentum(ArraySum(NegativeMomentum(p), q)))",
            vmix, two=True)
    wrapped("negMom2", N(N(p)), "NegativeMomentum(NegativeMomentum(p))", lambda pt: list(pt), two=False,
            shape=(4,), code_only=True)
    wrapped("negMom3", N(N(N(p))), "NegativeMomentum(NegativeMomentum(NegativeMomentum(p)))", lambda pt: list(pt),
            two=False, shape=(4,), code_only=True, cse_settings=(True,))
    wrapped("sumNeg", ArraySum(N(p), N(q)), "ArraySum(NegativeMomentum(p), NegativeMomentum(q))", vsum, two=True,
            shape=(4,), code_only=True)
    wrapped("negMix", N(ArraySum(N(p), q)), "NegativeMomentum(ArraySum(NegativeMomentum(p), q))", vmix, two=True,
            shape=(4,), code_only=True)
    # a momentum that is itself the product of another boost with a momentum (compute_boost_chain)
    wrapped("boostChain", lz.BoostMatrix(ArrayMultiplication(lz.BoostMatrix(q), p)),
            "BoostMatrix(ArrayMultiplication(BoostMatrix(q), p))", lambda pt: boosted(pt[4:], pt[:4]), two=True)
    # the inverse-boost statement as ONE generated function: B(NegativeMomentum(k)) B(k), for k = p and for the
    # already inverted k = NegativeMomentum(p) (the first factor of compute_wigner_rotation_matrix)
    wrapped("invPair", MatrixMultiplication(lz.BoostMatrix(N(p)), lz.BoostMatrix(p)),
            "MatrixMultiplication(BoostMatrix(NegativeMomentum(p)), BoostMatrix(p))", lambda pt: list(pt), two=False,
            code_only=True)
    wrapped("invPairNeg", MatrixMultiplication(lz.BoostMatrix(N(N(p))), lz.BoostMatrix(N(p))),
            "MatrixMultiplication(BoostMatrix(NegativeMomentum(NegativeMomentum(p))), BoostMatrix(NegativeMomentum(p)))",
            lambda pt: list(pt), two=False, code_only=True)
    return t


_LAMBDIFIED: dict = {}


def boosted(q, p):
    """B(q) p in plain floats (only used to judge the conditioning of a validation point)"""
    Eq, qx, qy, qz = q
    m = math.sqrt(max(Eq * Eq - qx * qx - qy * qy - qz * qz, 0.0)) or float("nan")
    g = Eq / m
    bp = (qx * p[1] + qy * p[2] + qz * p[3]) / Eq  # beta . p
    b2 = (qx * qx + qy * qy + qz * qz) / (Eq * Eq)
    k = (g - 1) * bp / b2 - g * p[0] if b2 > 0 else 0.0
    return [g * (p[0] - bp), *[p[i + 1] + k * c / Eq for i, c in enumerate((qx, qy, qz))]]


def lambdified(tgt, cse: bool):
    """the real generated function (cached per run: nested arguments make lambdify with cse=False slow)"""
    import sympy as sp

    key = (tgt["doc"], cse)
    if key not in _LAMBDIFIED:
        _LAMBDIFIED[key] = sp.lambdify(tgt["args"], tgt["obj"].doit(), "numpy", cse=cse)
    return _LAMBDIFIED[key]


def cse_settings(tgt) -> tuple:
    return tgt.get("cse_settings", (False, True))


def _entries_of(val, shape):
    if shape == (4, 4):
        if not isinstance(val, X.Mat) or len(val.rows) != 4 or any(len(r) != 4 for r in val.rows):  # noqa: PLR2004
            raise core.Untranslatable(f"generated code does not yield a 4x4 matrix ({type(val).__name__})")
        return [t for r in val.rows for t in r]
    if not isinstance(val, X.Vec) or len(val.ts) != 4:  # noqa: PLR2004
        raise core.Untranslatable(f"generated code does not yield a 4-vector ({type(val).__name__})")
    return list(val.ts)


def build_families():
    """Translate every target: explicit matrix (`<name>Ex`) and generated code (`<name>Code0` for
    cse=False, `<name>Code1` for cse=True). Returns (families, facts, guards)."""
    fams = []
    facts = {"einsum": {}}
    guards = []
    _LAMBDIFIED.clear()
    for name, tgt in targets().items():
        share = bool(tgt.get("share"))
        if not tgt.get("code_only"):
            et = X.ExplicitTranslator({"p": tuple(P4), "q": tuple(Q4)}, vec_prefix=f"{name}Ex" if share else None,
                                      params=tgt["params"])
            m = et.matrix(tgt["obj"])
            fams.append(X.Family(f"{name}Ex", tgt["params"], (4, 4), [t for r in m for t in r],
                                 doc=f"{tgt['doc']}.as_explicit(), per event", share=share, vecs=et.vec_defs))
            guards += [f"{name}Ex: {g}" for g in dict.fromkeys(et.guards)]
        for cse in cse_settings(tgt):
            try:
                src = inspect.getsource(lambdified(tgt, cse))
            except Exception as e:  # noqa: BLE001
                raise core.Untranslatable(f"lambdify({tgt['doc']}, cse={cse}) failed: {e!r}") from e
            code = X.NumpyCode(src, tgt["kinds"], vec_prefix=f"{name}Code{int(cse)}" if share else None,
                               params=tgt["params"])
            fams.append(X.Family(f"{name}Code{int(cse)}", tgt["params"], tgt["shape"],
                                 _entries_of(code.result, tgt["shape"]),
                                 doc=f"numpy code generated by lambdify({tgt['doc']}.doit(), cse={cse}), per event",
                                 share=share, vecs=code.vec_defs))
            if code.einsum_subscripts:
                facts["einsum"][f"{name}Code{int(cse)}"] = sorted(set(code.einsum_subscripts))
    return fams, facts, guards


# =============================================================================== validation


def _points(kind: str, rng, n: int):
    """Validation points (moderate conditioning; the extremes are the oracle's job)."""
    from tools.search import C08_oracle as O

    pts = []
    for _ in range(n):
        if kind == "p":
            p, _, _ = O.momentum(rng, (-3.0, 2.0))
            pts.append(p)
        elif kind == "beta":
            pts.append([rng.choice([rng.uniform(-0.99, 0.99), 10 ** rng.uniform(-6, -1), 0.0])])
        elif kind == "a":
            pts.append([rng.choice([rng.uniform(-7, 7), 0.0, math.pi / 2, math.pi])])
        elif kind == "ab":
            pts.append([rng.uniform(-7, 7), rng.uniform(-7, 7)])
        elif kind == "abp":
            p, _, _ = O.momentum(rng, (-2.0, 2.0))
            pts.append([rng.uniform(-7, 7), rng.uniform(-7, 7), *p])
        elif kind == "b12Add":  # b1 - b2 in (-0.9, 0.9)
            pts.append([rng.uniform(-0.45, 0.45), rng.uniform(-0.45, 0.45)])
        elif kind == "b12Mul":  # -b1/b2 in (-0.95, 0.95)
            b2 = rng.choice([-1, 1]) * rng.uniform(0.2, 3.0)
            pts.append([rng.uniform(-0.95, 0.95) * b2, b2])
        elif kind == "b12Pow":  # b1**2 < 0.91
            pts.append([rng.uniform(-0.95, 0.95), rng.uniform(-1, 1)])
        elif kind == "pq":
            p, _, _ = O.momentum(rng, (-2.0, 1.5))
            q, _, _ = O.momentum(rng, (-2.0, 1.5))
            pts.append([*p, *q])
        elif kind == "w1":
            p, _, _ = O.momentum(rng, (-3.0, 2.0))
            pts.append(p)
        elif kind == "w2":
            p, _, _ = O.momentum(rng, (-2.0, 1.0))
            q, _, _ = O.momentum(rng, (-2.0, 1.0))
            pts.append([*p, *q])
    return pts


def _kind_of(tgt) -> str:
    if "kind" in tgt:
        return tgt["kind"]
    ps = tgt["params"]
    if ps == []:
        return "p"  # the metric takes p only for its length
    return {"E": "p", "beta": "beta"}.get(ps[0], {1: "a", 2: "ab", 6: "abp"}.get(len(ps)))


def _gamma2(v) -> float:
    E, x, y, z = v
    m2 = E * E - (x * x + y * y + z * z)
    return E * E / m2 if m2 > 0 and math.isfinite(m2) else float("inf")


def _cond(kind: str, pt, tgt=None) -> float:
    """gamma^2 of the point (conditioning of the boost formulas)."""
    if tgt is not None and "argval" in tgt:  # wrapped momenta: gamma^2 at the VALUE of the argument
        g2 = _gamma2(tgt["argval"](pt))
        if len(pt) == 8:  # noqa: PLR2004  (a boosted momentum inherits the rounding of the inner boost)
            g2 *= max(_gamma2(pt[:4]), _gamma2(pt[4:]))
        return g2
    if kind in ("p", "abp"):
        E, x, y, z = pt[-4:]
        m2 = E * E - (x * x + y * y + z * z)
        return E * E / m2 if m2 > 0 else float("inf")
    if kind == "beta":
        return 1.0 / (1.0 - pt[0] ** 2)
    if kind.startswith("b12"):
        b = {"b12Add": pt[0] - pt[1], "b12Mul": -pt[0] / pt[1], "b12Pow": pt[0] ** 2}[kind]
        return 1.0 / (1.0 - b * b) if abs(b) < 1 else float("inf")
    if kind == "pq":
        E, x, y, z = [pt[i] + pt[i + 4] for i in range(4)]
        m2 = E * E - (x * x + y * y + z * z)
        return E * E / m2 if m2 > 0 else float("inf")
    return 1.0


def validate(chk, families, rng, n: int):  # noqa: C901, PLR0912, PLR0915
    """Float twins (run by Lean) against the real code (run by numpy), event by event.

    `<name>Code{0,1}`: the real lambdified function is called on BATCHES of events and its
    (n,4,4)/(n,4) output compared per event; `<name>Ex`: the entries of the real `as_explicit()`
    matrix are lambdified one by one and evaluated on the same points."""
    import numpy as np

    from tools.search import C08_oracle as O

    tg = targets()
    rc = O.RealCode()
    fam_by_name = {f.name: f for f in families}
    requests = []  # (family, target name, variant, point)
    pts_by_target = {}
    for name, tgt in tg.items():
        kind = _kind_of(tgt)
        pts_by_target[name] = (kind, _points(kind, rng, n))
    lines = []
    for name, tgt in tg.items():
        kind, pts = pts_by_target[name]
        for variant in (["Ex"] if not tgt.get("code_only") else []) + [f"Code{int(c)}" for c in cse_settings(tgt)]:
            fam = fam_by_name[name + variant]
            for pt in pts:
                args = [] if not fam.params else pt
                lines.append(" ".join([fam.name, *[str(core.float_bits(v)) for v in args]]))
                requests.append((fam, name, variant, pt))
    out = common.lean_run("Ampverif/GenFloat/C08.lean", "\n".join(lines) + "\n")
    outs = out.strip().split("\n") if out.strip() else []
    if len(outs) != len(requests):
        chk.broken_correspondence("float-twin", f"driver returned {len(outs)} lines for {len(requests)} requests")
        return
    # real side
    real = {}
    for name, tgt in tg.items():
        kind, pts = pts_by_target[name]
        arr = np.array(pts, dtype=float)
        if kind in ("p", "w1"):
            arrays = [arr]
        elif kind in ("pq", "w2"):
            arrays = [arr[:, :4], arr[:, 4:]]
        elif kind == "abp":
            arrays = [arr[:, 0], arr[:, 1], arr[:, 2:]]
        else:
            arrays = [arr[:, i] for i in range(arr.shape[1])]
        if not tgt.get("code_only") and tgt.get("wrapped"):
            # the library's own explicit matrix, lambdified as a whole with cse (entry by entry without cse the
            # nested arguments print exponentially long)
            import sympy as sp

            fx = sp.lambdify(tgt["args"], tgt["obj"].as_explicit().doit(), "numpy", cse=True)
            with np.errstate(all="ignore"):
                rows = fx(*arrays)
            ex = np.empty((len(pts), 4, 4), dtype=complex)
            for i in range(4):
                for j in range(4):
                    ex[:, i, j] = np.broadcast_to(np.asarray(rows[i][j], dtype=complex), (len(pts),))
            real[(name, "Ex")] = ex
        elif not tgt.get("code_only"):
            key = {"boostNeg": None}.get(name, name)
            if key is not None and key in rc.explicit:
                real[(name, "Ex")] = rc.explicit_eval(key, *arrays)
            else:
                import sympy as sp

                m = tgt["obj"].as_explicit()
                ent = [sp.lambdify(tgt["args"], m[i, j].doit(), "numpy") for i in range(4) for j in range(4)]
                ex = np.empty((len(pts), 4, 4), dtype=complex)
                with np.errstate(all="ignore"):
                    for k, fn in enumerate(ent):
                        ex[:, k // 4, k % 4] = np.broadcast_to(np.asarray(fn(*arrays), dtype=complex), (len(pts),))
                real[(name, "Ex")] = ex
        for cse in cse_settings(tgt):
            f = lambdified(tgt, cse)
            sizes = O.batches(rng, len(pts), 16)
            res = []
            i = 0
            with np.errstate(all="ignore"):
                for k in sizes:
                    res.append(np.asarray(f(*[a[i:i + k] for a in arrays])))
                    i += k
            real[(name, f"Code{int(cse)}")] = np.concatenate(res)
    mism = 0
    idx_in_family: dict = {}
    for (fam, name, variant, pt), o in zip(requests, outs):
        k = idx_in_family.get(fam.name, 0)
        idx_in_family[fam.name] = k + 1
        if o == "bad-op":
            chk.broken_correspondence("float-twin", f"driver rejected {fam.name}")
            return
        lean_vals = [core.bits_float(int(t)) for t in o.split()]
        ref = np.asarray(real[(name, variant)][k])
        if np.iscomplexobj(ref):
            if np.max(np.abs(ref.imag)) > 0:
                chk.count(None)  # outside the real branch the translator reads: not compared
                continue
            ref = ref.real
        ref_vals = [float(v) for v in ref.reshape(-1)]
        kind = pts_by_target[name][0]
        g2 = _cond(kind, pt, tg[name])
        scale = max(1.0, *[abs(v) for v in ref_vals if math.isfinite(v)] or [1.0])
        tol = 1e-12 * (1.0 + g2) * scale
        ok = len(lean_vals) == len(ref_vals)
        for a, b in zip(lean_vals, ref_vals):
            if math.isnan(a) and math.isnan(b):
                continue
            if math.isinf(a) or math.isinf(b):
                ok = ok and a == b
                continue
            if not abs(a - b) <= tol:
                ok = False
        chk.count((fam.name, tuple(pt)) if all(math.isfinite(v) for v in ref_vals) else None)
        if not ok:
            mism += 1
            if mism <= 3:
                chk.broken_correspondence("float-twin", {"definition": fam.name, "point": pt, "lean": lean_vals,
                                                         "numpy": ref_vals, "tolerance": tol})
    chk.info("translator_validation_points", len(requests))
    chk.info("translator_validation_mismatches", mism)
    if requests:
        fam, _, _, pt = requests[0]
        chk.sample({"translator_validation": fam.name, "point": pt, "lean_float_bits": outs[0][:200]})


# =============================================================================== T2: einsum generator


def einsum_correspondence(chk, n_max: int):
    """Exact string equality between `_create_einsum_subscripts` of both classes and the Lean model
    for n = 0 .. n_max (beyond the alphabet limit too: the model follows the slice semantics)."""
    from ampform.sympy._array_expressions import ArrayMultiplication, MatrixMultiplication

    reqs = [("A", n) for n in range(n_max + 1)] + [("M", n) for n in range(n_max + 1)]
    out = common.lean_run("Ampverif/Drivers/C08Einsum.lean", "".join(f"{c} {n}\n" for c, n in reqs))
    got = out.split("\n")[: len(reqs)]
    if len(got) != len(reqs):
        chk.broken_correspondence("einsum-model", f"driver returned {len(got)} lines for {len(reqs)} requests")
        return
    diffs = []
    for (c, n), g in zip(reqs, got):
        cls = ArrayMultiplication if c == "A" else MatrixMultiplication
        try:
            real = cls._create_einsum_subscripts(n)  # noqa: SLF001
        except Exception as e:  # noqa: BLE001
            real = f"<{type(e).__name__}>"
        chk.count(("einsum-subscripts", c, n))
        if real != g:
            diffs.append({"class": cls.__name__, "n_arrays": n, "real": real, "lean_model": g})
    chk.info("einsum_correspondence", {"cases": len(reqs), "differences": len(diffs)})
    if reqs:
        chk.sample({"einsum_subscripts": "ArrayMultiplication n=3", "value": got[3]})
    for d in diffs[:3]:
        chk.broken_correspondence("einsum-model", d)


# =============================================================================== template holes (probe)


def template_hole_probe():
    """Is every argument hole of the `_…Implementation._numpycode` templates protected?

    Each implementation class is instantiated DIRECTLY, once with the symbol `W` in a field and once
    with a compound expression in that field (sum, product, negated product, quotient, power — the
    precedence classes of printed expressions), all other fields being independent symbols. The
    template is right iff the code generated for the compound argument has the same VALUE (numpy, three
    random draws) as the code generated for `W` with `W` replaced by the PARENTHESISED compound
    expression. Returns
    {class: {"unprotected": [(field, shape)], "fields_not_printed": [...]}}; an unprotected hole is a
    broken correspondence (the public classes fill the holes through `evaluate()`, but any rewrite of
    the unfolded object — expand(), xreplace, direct construction — reaches them)."""
    import re

    import sympy as sp

    from ampform.kinematics import lorentz as lz

    hn = sp.Symbol("H_n")
    n = lz.ArraySize(hn)
    ones, zeros = lz._OnesArray(n), lz._ZerosArray(n)  # noqa: SLF001
    p = lz.FourMomentumSymbol("p", shape=[])
    U, V, W = sp.symbols("U V W", real=True)
    shapes = {"sum": (U + V, "(U + V)"), "product": (U * V, "(U*V)"), "negated product": (-U * V, "(-U*V)"),
              "quotient": (U / V, "(U/V)"), "power": (U**V, "(U**V)"), "negated symbol": (-U, "(-U)")}
    instances = {
        "_BoostZMatrixImplementation": (lz._BoostZMatrixImplementation, ["beta", "gamma", "gamma_beta"],  # noqa: SLF001
                                        lambda h: dict(ones=ones, zeros=zeros, **h)),
        "_RotationYMatrixImplementation": (lz._RotationYMatrixImplementation, ["angle", "cos_angle", "sin_angle"],  # noqa: SLF001
                                           lambda h: dict(ones=ones, zeros=zeros, **h)),
        "_RotationZMatrixImplementation": (lz._RotationZMatrixImplementation, ["angle", "cos_angle", "sin_angle"],  # noqa: SLF001
                                           lambda h: dict(ones=ones, zeros=zeros, **h)),
        "_BoostMatrixImplementation": (lz._BoostMatrixImplementation,  # noqa: SLF001
                                       ["b00", "b01", "b02", "b03", "b11", "b12", "b13", "b22", "b23", "b33"],
                                       lambda h: dict(momentum=p, **h)),
    }

    def body_of(cls, mk, h):
        syms = [sp.Symbol(f"H_{f}", real=True) for f in h]
        src = inspect.getsource(sp.lambdify([*syms, U, V, W, hn, p], cls(**mk(h)), "numpy", cse=False))
        return src.split("return", 1)[1].strip()

    import numpy as np

    names = ["U", "V", "W", "H_n", *{f"H_{f}" for _, fs, _ in instances.values() for f in fs}]
    rs = np.random.default_rng(8)
    envs = []
    for _ in range(3):
        env = {"array": np.array, "ones": np.ones, "zeros": np.zeros, "len": len, "sqrt": np.sqrt, "sin": np.sin,
               "cos": np.cos, "sum": np.sum, "einsum": np.einsum}
        env.update({k: rs.uniform(0.3, 1.7, size=3) for k in sorted(names)})
        env["p"] = rs.uniform(0.3, 1.7, size=(3, 4))
        envs.append(env)

    def same_value(code_a: str, code_b: str) -> bool:
        """both expressions evaluated by numpy on the same random positive arrays (three draws)"""
        for env in envs:
            try:
                with np.errstate(all="ignore"):
                    a = np.asarray(eval(code_a, {"__builtins__": {}}, dict(env)), dtype=float)  # noqa: S307
                    b = np.asarray(eval(code_b, {"__builtins__": {}}, dict(env)), dtype=float)  # noqa: S307
            except Exception:  # noqa: BLE001
                return False
            if a.shape != b.shape or not np.allclose(a, b, rtol=1e-12, atol=0, equal_nan=False):
                return False
        return True

    out = {}
    for cname, (cls, fields, mk) in instances.items():
        unprotected, unused = [], []
        for f in fields:
            base = {g: sp.Symbol(f"H_{g}", real=True) for g in fields}
            with_w = body_of(cls, mk, {**base, f: W})
            if not re.search(r"\bW\b", with_w):
                unused.append(f)
                continue
            for shape, (expr, text) in shapes.items():
                got = body_of(cls, mk, {**base, f: expr})
                want = re.sub(r"\bW\b", text, with_w)
                if not same_value(got, want):
                    unprotected.append([f, shape])
        out[cname] = {"unprotected": unprotected, "fields_not_printed": unused}
    return out


# =============================================================================== the property


class C08Property:
    n_points = {"quick": 12, "thorough": 300}
    n_search = {"quick": 120, "thorough": 12000}
    n_einsum = {"quick": 24, "thorough": 40}

    def _header(self):
        hashes = common.source_blob_hashes(SOURCES)
        return hashes, "sources: " + ", ".join(f"{k}@{v[:10]}" for k, v in hashes.items())

    def regenerate(self):
        common.use_repo_source()
        _, header = self._header()
        fams, _, _ = build_families()
        common.write_if_changed(common.LEAN / (GEN_MOD.replace(".", "/") + ".lean"), X.render_gen(GEN_MOD, fams, header))
        common.write_if_changed(common.LEAN / (FLT_MOD.replace(".", "/") + ".lean"), X.render_float(FLT_MOD, fams, header))

    @staticmethod
    def leanchecker(chk):
        """thorough tier: replay the compiled declarations of the C08 modules through the kernel"""
        import subprocess

        mods = [*PROP_MODULES, "Ampverif.Lemmas.C08Boost", "Ampverif.Lemmas.C08Einsum", "Ampverif.Lemmas.C08Memo", GEN_MOD]
        try:
            p = subprocess.run(["lake", "env", "leanchecker", *mods], cwd=common.LEAN, capture_output=True,
                               text=True, timeout=900)
        except subprocess.TimeoutExpired as e:
            raise common.InfraError("leanchecker timed out") from e
        chk.info("leanchecker", {"modules": mods, "exit": p.returncode})
        if p.returncode != 0:
            chk.broken.append({"kind": "proof", "theorem": "<leanchecker>", "detail": (p.stdout + p.stderr)[-600:]})

    def run(self, tier: str, seed: int) -> int:  # noqa: C901, PLR0912
        from tools.search import C08_oracle

        chk = common.Check(PROP_ID, tier, seed)
        common.use_repo_source()
        rng = common.rng_for(PROP_ID, seed)
        hashes, header = self._header()
        chk.info("source_blobs", hashes)
        fams = None
        try:
            fams, facts, guards = build_families()
            common.write_if_changed(common.LEAN / (GEN_MOD.replace(".", "/") + ".lean"), X.render_gen(GEN_MOD, fams, header))
            common.write_if_changed(common.LEAN / (FLT_MOD.replace(".", "/") + ".lean"), X.render_float(FLT_MOD, fams, header))
            chk.info("generated_families", [f.name for f in fams])
            chk.info("generated_definitions", sum(len(f.definitions()) for f in fams))
            chk.info("einsum_subscripts_in_generated_code", facts["einsum"])
            chk.info("guards", [*guards,
                                "BoostMatrix: p != 0 (the source divides by beta^2), E > 0, |p| < E",
                                "BoostZMatrix: beta^2 < 1",
                                "einsum generators: n <= 18 (ArrayMultiplication), n <= 17 (MatrixMultiplication)"])
        except core.Untranslatable as e:
            fams = None
            chk.broken_correspondence("translator", f"source no longer translatable: {e}"[:900])
        except Exception as e:  # noqa: BLE001
            fams = None
            chk.broken_correspondence("translator", "".join(traceback.format_exception_only(type(e), e))[-600:])

        if fams is not None:
            res = common.prove(PROP_ID, PROP_MODULES)
            chk.record_proof(res, "cd lean && lake build " + " ".join(PROP_MODULES) + f" && lake env lean Ampverif/Audit/{PROP_ID}.lean")
            if res["failed"]:
                chk.note("proof obligations not discharged: " + "; ".join(f"{k}: {v[:160]}" for k, v in list(res["failed"].items())[:5]))
            if tier == "thorough" and res["build_ok"]:
                self.leanchecker(chk)
            try:
                validate(chk, fams, rng, self.n_points[tier])
            except common.LeanRunError as e:
                chk.broken_correspondence("float-twin", f"Lean driver failed: {e}"[:800])
            except Exception as e:  # noqa: BLE001
                chk.broken_correspondence("float-twin", "".join(traceback.format_exception_only(type(e), e))[-600:])

        try:
            holes = template_hole_probe()
            chk.info("template_hole_probe", holes)
            chk.coverage["obligations"] += len(holes)
            for cname, h in holes.items():
                chk.count(("template-holes", cname))
                if h["unprotected"]:
                    chk.broken_correspondence("template-holes", {
                        "class": cname, "unprotected_argument_holes": h["unprotected"],
                        "meaning": "the _numpycode template splices this printed argument without protecting it: "
                                   "an argument of the listed shape changes the meaning of the generated code"})
                else:
                    chk.coverage["discharged"] += 1
        except Exception as e:  # noqa: BLE001
            chk.broken_correspondence("template-holes", "".join(traceback.format_exception_only(type(e), e))[-600:])
        try:
            einsum_correspondence(chk, self.n_einsum[tier])
        except common.LeanRunError as e:
            chk.broken_correspondence("einsum-model", f"Lean driver failed: {e}"[:800])
        except Exception as e:  # noqa: BLE001
            chk.broken_correspondence("einsum-model", "".join(traceback.format_exception_only(type(e), e))[-600:])

        # call HISTORIES of the four matrix classes (fresh processes, forked pair / long histories, this process):
        # correspondence with Model/C08Memo.lean + numeric oracle at each expression's own argument
        hist_found = []
        try:
            from tools.corr import C08_history

            hist_found = C08_history.run(chk, common.rng_for(PROP_ID, seed, "history"), tier)
        except common.InfraError:
            raise
        except common.LeanRunError as e:
            chk.broken_correspondence("history-model", f"Lean driver failed: {e}"[:800])
        except Exception as e:  # noqa: BLE001
            chk.broken_correspondence("history-model", "".join(traceback.format_exception_only(type(e), e))[-600:])

        # independent oracle on the real code (always; deeper when something broke)
        n = self.n_search[tier] * (4 if chk.broken else 1)
        try:
            found = C08_oracle.run(chk, common.rng_for(PROP_ID, seed, "search"), n, tier)
        except Exception as e:  # noqa: BLE001
            found = [{"what": "the real code raised while the property was evaluated",
                      "error": "".join(traceback.format_exception(type(e), e, e.__traceback__))[-1500:]}]
        found = [*hist_found, *found]
        def severity(f):
            tol = f.get("tolerance")
            val = next((f[k] for k in ("max_abs_diff", "residual", "det_minus_1") if k in f), None)
            return (val / tol) if (tol and val is not None and math.isfinite(val)) else 0.0

        worst: dict = {}
        for f in found:  # per kind of failure, replay the clearest input (largest excess over the tolerance)
            w = f.get("what")
            if w not in worst or severity(f) > severity(worst[w]):
                worst[w] = f
        uniq = list(worst.values())
        chk.info("oracle_failing_inputs", len(found))
        for f in uniq[:4]:
            chk.failing_input({"what": f.get("what")}, {"input": f, "broken": chk.broken})
        if chk.broken and not found:
            for b in chk.broken:
                chk.unexplained(b.get("theorem") or b.get("what"), b)
        chk.coverage["rule"] = (
            "evaluations = translator-validation events (Lean Float twin of a whole matrix/vector vs the real "
            "lambdified arrays, batched) + einsum-subscript strings compared + independent-oracle cases on the real "
            "code; distinct_nontrivial counts distinct (family, event) pairs with finite values, (class, n) subscript "
            "cases and (oracle family, cse, event index) cases")
        chk.coverage["trusted_base"] = [
            "Lean 4.33 kernel + Mathlib v4.33 (axioms: see axioms_reported)",
            "tools/translate/core.py + c08_ext.py (sympy tree / parsed numpy code -> Lean, per-event reading), "
            "validated on this run by the Float twins against the real batched arrays",
            "sympy lambdify + numpy (incl. numpy.einsum, array/transpose/ones/zeros) execute the real code",
            "mpmath (60 digits) in the independent oracle",
        ]
        return chk.finish()


PROP = C08Property()

MANIFEST = {
    "technique": "Lean 4 theorems over definitions regenerated from the source (explicit matrices AND the parsed "
                 "lambdify-generated numpy code, cse off/on) and over a state-machine model of memoised evaluate() tied by a "
                 "call-history correspondence (fresh / forked / own process), "
                 "Float-twin validation against the real batched arrays, "
                 "Lean model of the einsum-subscript generators tied by exact string comparison, independent mpmath oracle",
    "design_ref": "DESIGN.md §3 C08",
    "text": (
        "Proof. On every run the explicit matrices (as_explicit) of BoostMatrix, BoostMatrix(NegativeMomentum), "
        "BoostZMatrix, RotationY/ZMatrix, MinkowskiMetric and the numpy code that lambdify generates for them and for "
        "NegativeMomentum, ArrayMultiplication(B(p),p), MatrixMultiplication(R,R), ArrayMultiplication(Ry,Rz,p) "
        "(cse=False and cse=True) are re-translated into Lean and all theorems of Props/C08.lean (count in the evidence) are "
        "re-checked by the kernel: for every "
        "E>0, 0<|p|<E: B^T eta B = eta, det B = 1, B00 >= 1, B(p)p = (m,0,0,0), B(eta p)B(p) = 1; for every beta^2<1 the "
        "same for Bz, and Bz(pz/E) = B(0,0,pz) (pz != 0); for all angles Ry, Rz satisfy R^T eta R = eta, det 1, "
        "R(a)R(b) = R(a+b); generated code = explicit matrix entrywise for both cse settings as functions on all reals "
        "(hence the same Lorentz properties for the code's own arrays: boostCode_proper, boostNegCode_inverse, "
        "boostZCode_proper, rotCode_proper); "
        "the generated einsum code for 2 and 3 arrays computes the matrix(-vector) products. COMPOUND ARGUMENTS: the code "
        "generated for BoostZ/RotationY/RotationZ with a difference, a negated quotient and a power as argument, and for "
        "BoostMatrix/NegativeMomentum/MinkowskiMetric of a SUM of momenta, equals the explicit matrix at that argument "
        "(theorems *AddCode_eq, *MulCode_eq, *PowCode_eq, *SumCode_eq: one representative per precedence class of printed "
        "expressions, so a template that splices an argument without parentheses is caught; this is a finite sample of "
        "argument shapes, not a theorem about all arguments). WRAPPED MOMENTA: BoostMatrix is also regenerated "
        "(as_explicit AND generated code, cse off/on) on momentum arguments that are expression trees — "
        "NegativeMomentum applied twice and three times (three times: cse=True only, the cse=False source has 8 MB), "
        "NegativeMomentum(ArraySum(p,q)), ArraySum(NegativeMomentum(p),NegativeMomentum(q)), ArraySum(p,NegativeMomentum(q)), "
        "NegativeMomentum(ArraySum(NegativeMomentum(p),q)), and the boosted momentum ArrayMultiplication(BoostMatrix(q),p) of "
        "compute_boost_chain; theorems boostNeg2_eq, boostNeg3_eq, boostNegSum_eq, boostSumNeg_eq, boostSumMix_eq, "
        "boostNegMix_eq, boostChain{Ex,Code0,Code1}_eq: each equals the explicit boost matrix boostEx AT THE VALUE of the "
        "argument (p, (E,-p), (E_p+E_q, -(p+q)), (E_p+E_q, p-q), B(q)p) on all reals; negMomNestedCode_eq, sumNegCode_eq, "
        "negMixCode_eq, negMomSum_eq_sumNeg for the vectors themselves (inversion commutes with the sum); the inverse-boost "
        "statement for an already inverted momentum: boostNeg2Code_inverse (code of B(N(N(p))) times code of B(N(p)) = 1), "
        "boostNeg2Code_proper, and the single generated functions MatrixMultiplication(B(N(k)),B(k)) for k = p and "
        "k = NegativeMomentum(p) (invPairCode_eq, invPairNegCode_eq, invPairCode_one). Again a finite sample of argument "
        "trees, not a theorem about all arguments. For EVERY number n of arrays "
        "(induction; n <= 18 resp. 17, the alphabet limit of the source, beyond which the generated string is malformed — "
        "proved as well) the subscripts of ArrayMultiplication/MatrixMultiplication denote M1(M2(...v)) resp. M1...Mn "
        "under numpy's explicit-mode einsum semantics, over any commutative semiring and any dimension. "
        "CALL HISTORIES (Props/C08Memo.lean over Model/C08Memo.lean): evaluate() of the four matrix classes as a state "
        "machine with a process-global memo keyed by an arbitrary key function; memo_pure (every history over expressions "
        "that the key separates returns, call by call, what a fresh process returns — induction over the history, from any "
        "memo such calls filled), memo_pure_identity / memo_call_k (the clean tree: key = the expression, or no memo), "
        "memo_impure_of_collision and memo_pure_iff_injective (transparent on all histories over a set of expressions IFF "
        "the key is injective on it), pyHash_collision / pyHash_only_collision / hash_key_witness(_reversed) / "
        "hash_key_only_collision (CPython's hash(-1) == hash(-2): R(-phi) then R(-2 phi) returns the first implementation; "
        "the only collision of that key), arg_key_witness and noEvents_key_witness (one table for all classes; n_events "
        "left out of the key). The model abstracts an implementation object to the data of the expression it was built "
        "from; WHICH expression a real result belongs to is decided by the history correspondence. "
        "Unbounded in all real arguments and in n; nothing is table-bounded. Guards: p != 0 and E > 0 (the source divides "
        "by beta^2; at rest it returns nan — probed and reported), ComplexSqrt of BoostZMatrix.as_explicit read on its real "
        "branch (theorem boostZ_radicand_pos)."
    ),
    "level_note": (
        "Trusted: Lean kernel + Mathlib (axioms propext, Classical.choice, Quot.sound); the translator incl. its numpy-code "
        "interpreter (arrays are read PER EVENT: array([[..]]).transpose((2,0,1)) as a matrix per event, '...' of einsum as "
        "the batch axis, ones/zeros(len(x)) as constants) — validated each run by comparing Lean Float twins with the real "
        "lambdified arrays on random batches; the einsum model is tied by exact string equality for n = 0..24 (40 in "
        "thorough). Executed, not modelled: sympy's lambdify/cse and standard printers, numpy (einsum, broadcasting), "
        "floating-point rounding (the oracle bounds it condition-aware: relative error of gamma ~ eps*(2 gamma^2+8)). "
        "The oracle also runs instances with compound arguments (sums, 1-eps, quotients, products with a sum, velocities "
        "computed from a momentum, p+q, the boost chain BoostMatrix(B(q)p)) and implementation objects REWRITTEN after "
        "doit() (expand(), expand(trig=True), xreplace of an argument by an equal sum, direct construction with a sum "
        "argument). template_hole_probe is GATING: every argument hole of the four _…Implementation._numpycode templates "
        "is filled with a sum / product / negated product / quotient / power / negated symbol and the generated code must "
        "have the value of the code for a symbol with the parenthesised expression substituted (numpy, three random "
        "draws); an unprotected hole is a broken correspondence and the oracle supplies the failing input. "
        "For the families with wrapped momenta the translator NAMES repeated subterms (<family>_s<i>, hash-consing, no "
        "rewriting) and the vector results of einsum / ArrayMultiplication (<family>_v<k>_<i>), otherwise the inlined "
        "temporaries of nested arguments grow geometrically; unfolding the names gives back the original terms (the proofs do "
        "that), and the Float twins of these families are validated like all others. The oracle's run_wrapped evaluates the "
        "real code (cse off where the source stays below ~1 MB, cse on always) for twelve wrapped arguments A — the above plus "
        "four inversions, N(N(p+q)), N(N(p))+q, and (thorough tier: all; quick: one) boosted momenta with an inversion before / "
        "after / inside the inner boost — on: B(A) = textbook boost at the value of A, Lorentz condition, det, "
        "B(A)A = (m,0,0,0), B(N(A))B(A) = 1, code = as_explicit(), code of A = value of A; wall-clock cap per argument. "
        "Real-number theorems use Lean's x/0 = 0 only in the unconditional 'code = explicit' equalities. "
        "HISTORY correspondence (tools/corr/C08_history.py, every run, quick tier included): a pool of 86 matrix expressions "
        "(argument shapes c*a, a**c, Integer(c), Rational(c,3), Float(2**c), a+c*b, exp(c*a), c*a*b, momenta p+c*q, "
        "ArraySum(p,c*q), NegativeMomentum(p+c*q) with c in {-1,-2} and neighbours; other n_events; same symbol name with other "
        "assumptions; plain arguments) and six operations (evaluate, doit, lambdify cse off/on, as_explicit, latex). Four fresh "
        "interpreters fork once per history, so each history starts from 'ampform imported, nothing built': single calls "
        "(the FRESH table), pair histories in BOTH orders — the declared -1/-2 pairs, every pair whose hash() values are "
        "really equal in this run (evidence: declared_pairs_with_really_equal_hash, equal_expr_hash_groups), a seeded sample "
        "of pairs with equal ARGUMENT hash, same argument in another class / with another n_events / other assumptions, "
        "seeded plain pairs — and long seeded histories over the whole pool; one more long history runs in the check's own "
        "process after everything else. Each call's text (srepr of the implementation, generated source, LaTeX, explicit "
        "matrix) must equal the fresh text of the same call; it is canonicalised to the pool expression whose fresh result it "
        "is and diffed against the Lean model run with key = identity (a difference is a broken correspondence); "
        "independently (oracle) the numeric values of generated code and explicit matrix must equal as_explicit() of the "
        "expression's OWN argument and the textbook numpy matrix at the value of its own argument (tolerance 1e-9, clean tree "
        "worst deviation in the evidence). The integer-hash model pyHash is compared with the running interpreter for "
        "-6..6 (information only). Numeric arguments of rotations make the generated array inhomogeneous on the clean tree "
        "(ValueError at call time): recorded as observations, required to behave the same in every history."
    ),
}
