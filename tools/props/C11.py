"""C11 — all phase-space-factor variants agree where they must."""

from __future__ import annotations

import math

from tools.lib import common
from tools.translate import c11_ext as X
from tools.translate.c11_ext import C, R, Real, TDef

SOURCES = ["src/ampform/dynamics/phasespace.py", "src/ampform/sympy/math.py"]

RHO_CLASSES = ["PhaseSpaceFactor", "PhaseSpaceFactorAbs", "PhaseSpaceFactorComplex",
               "PhaseSpaceFactorSWave", "EqualMassPhaseSpaceFactor"]


def phasespace_definitions():
    """Typed definitions of everything in dynamics/phasespace.py (+ ComplexSqrt), shared with C12.

    Returns (defs, reals). Each class is unfolded ONE level with its own `evaluate()`; nested
    ampform classes stay calls of the corresponding generated definition."""
    import sympy as sp

    from ampform.dynamics import phasespace as ps
    from ampform.sympy.math import ComplexSqrt

    s, m1, m2, x, rho, sthr = sp.symbols("s m1 m2 x rho s_thr", real=True)
    classes = {
        ps.BreakupMomentumSquared: "BreakupMomentumSquared",
        ComplexSqrt: "ComplexSqrt",
        ps.PhaseSpaceFactor: "PhaseSpaceFactor",
        ps.PhaseSpaceFactorAbs: "PhaseSpaceFactorAbs",
        ps.PhaseSpaceFactorComplex: "PhaseSpaceFactorComplex",
        ps.PhaseSpaceFactorSWave: "PhaseSpaceFactorSWave",
        ps.EqualMassPhaseSpaceFactor: "EqualMassPhaseSpaceFactor",
    }
    tr = X.XTranslator(classes=classes)
    p3 = [("s", R), ("m1", R), ("m2", R)]
    defs = [
        TDef("BreakupMomentumSquared", p3, R, tr(ps.BreakupMomentumSquared(s, m1, m2).evaluate()),
             doc="q²(s, m1, m2) — BreakupMomentumSquared.evaluate()"),
        TDef("ComplexSqrt", [("x", R)], C, tr(ComplexSqrt(x).get_definition()),
             doc="ComplexSqrt(x).get_definition() for a real argument"),
        TDef("PhaseSpaceFactor", p3, C, tr(ps.PhaseSpaceFactor(s, m1, m2).evaluate())),
        TDef("PhaseSpaceFactorAbs", p3, R, tr(ps.PhaseSpaceFactorAbs(s, m1, m2).evaluate()),
             doc="ρ̂ — real-valued by construction (|q²| and |s| under the roots)"),
        TDef("PhaseSpaceFactorComplex", p3, C, tr(ps.PhaseSpaceFactorComplex(s, m1, m2).evaluate())),
        TDef("chewMandelstamSWave", p3, C, tr(ps.chew_mandelstam_s_wave(s, m1, m2))),
        TDef("PhaseSpaceFactorSWave", p3, C, tr(ps.PhaseSpaceFactorSWave(s, m1, m2).evaluate())),
        TDef("analyticContinuation", [("rho", R), ("s", R), ("s_thr", R)], C,
             tr(ps._analytic_continuation(rho, s, sthr)),
             doc="_analytic_continuation(rho, s, s_threshold) for a real ρ̂"),
        TDef("EqualMassPhaseSpaceFactor", p3, C, tr(ps.EqualMassPhaseSpaceFactor(s, m1, m2).evaluate())),
    ]
    a3 = [s, m1, m2]
    reals = {
        "BreakupMomentumSquared": Real(ps.BreakupMomentumSquared(s, m1, m2), a3, (s,)),
        "ComplexSqrt": Real(ComplexSqrt(x), [x], (x,)),
        # for s < 0 numpy's value of sqrt(q²)/sqrt(s) depends on the sign of a zero imaginary part
        # produced by complex multiplication/division ((-a+0j)*(-b+0j) = ab-0j); compare with mpmath there
        "PhaseSpaceFactor": Real(ps.PhaseSpaceFactor(s, m1, m2), a3, (s,), mp_only=lambda pt: pt[0] < 0),
        "PhaseSpaceFactorAbs": Real(ps.PhaseSpaceFactorAbs(s, m1, m2), a3, (s,)),
        "PhaseSpaceFactorComplex": Real(ps.PhaseSpaceFactorComplex(s, m1, m2), a3, (s,)),
        "chewMandelstamSWave": Real(ps.chew_mandelstam_s_wave(s, m1, m2), a3, (s,)),
        "PhaseSpaceFactorSWave": Real(ps.PhaseSpaceFactorSWave(s, m1, m2), a3, (s,)),
        "analyticContinuation": Real(ps._analytic_continuation(rho, s, sthr), [rho, s, sthr], (s,)),
        "EqualMassPhaseSpaceFactor": Real(ps.EqualMassPhaseSpaceFactor(s, m1, m2), a3, (s,)),
    }
    return defs, reals


def build_definitions():
    defs, reals = phasespace_definitions()
    X.check_types(defs)
    facts = {"PhaseSpaceFactorAbs_is_real_valued": next(d for d in defs if d.name == "PhaseSpaceFactorAbs").ret == R}
    return defs, reals, facts


# ------------------------------------------------------------------------------ points


def _ulps(x: float, k: int) -> float:
    for _ in range(abs(k)):
        x = math.nextafter(x, math.inf if k > 0 else -math.inf)
    return x


def mass_pair(rng, kind=None):
    kind = kind or rng.choice(["equal", "generic", "generic", "ratio", "dyadic"])
    if kind == "equal":
        m = rng.choice([0.13957, 0.5, 0.938272, rng.uniform(0.05, 3.0)])
        return m, m
    if kind == "dyadic":  # exactly representable squares: thresholds are exact in every arithmetic
        return rng.randint(1, 255) / 64, rng.randint(1, 255) / 64
    if kind == "ratio":
        r = 10 ** rng.uniform(1, 8)
        m = rng.choice([rng.uniform(0.1, 2.0) / math.sqrt(r), 1000.0 / r, rng.uniform(0.5, 2.0) / r])
        pair = [m, m * r]
        rng.shuffle(pair)
        return tuple(pair)
    return rng.uniform(0.05, 3.0), rng.uniform(0.05, 3.0)


def s_value(rng, m1, m2, region=None):
    thr, pthr = (m1 + m2) ** 2, (m1 - m2) ** 2
    region = region or rng.choice(["neg", "neg", "below", "between", "between", "above", "above", "asym",
                                   "thr", "pthr"])
    if region == "neg":
        return -(10 ** rng.uniform(-3, 3)) * max(thr, 1e-3)
    if region == "below":
        return rng.uniform(0.02, 0.98) * pthr if pthr > 1e-12 else rng.uniform(0.05, 0.9) * thr
    if region == "between":
        return pthr + rng.uniform(0.01, 0.99) * (thr - pthr)
    if region == "above":
        return thr * (1 + 10 ** rng.uniform(-3, 1.5))
    if region == "asym":
        return thr * 10 ** rng.uniform(2, 6)
    base = thr if region == "thr" else pthr
    if base <= 0:
        return thr * 0.5
    k = rng.choice([-4, -1, 0, 1, 4])
    return _ulps(base, k) if rng.random() < 0.6 else base * (1 + rng.choice([-1, 1]) * 10 ** rng.uniform(-12, -6))


def points(name, rng, n):
    pts = []
    for _ in range(n):
        if name == "ComplexSqrt":
            pts.append([rng.choice([0.0, 4.0, -4.0, rng.uniform(-50, 50), rng.uniform(-1e-6, 1e-6)])])
        elif name == "analyticContinuation":
            thr = rng.uniform(0.1, 5)
            s = rng.choice([-rng.uniform(0.01, 50), rng.uniform(0.01, 1) * thr, thr * rng.uniform(1.001, 30)])
            pts.append([rng.choice([rng.uniform(0.01, 0.99), rng.uniform(1.01, 8)]), s, thr])
        else:
            m1, m2 = mass_pair(rng)
            pts.append([s_value(rng, m1, m2), m1, m2])
    return pts


# ------------------------------------------------------------------------------ independent oracle


def _mp_funcs():
    """mpmath-lambdified doit() of every public class (the property's own observation point)."""
    import sympy as sp

    from ampform.dynamics import phasespace as ps

    s, m1, m2 = sp.symbols("s m1 m2", real=True)
    out = {}
    for name in ["BreakupMomentumSquared", *RHO_CLASSES]:
        real = Real(getattr(ps, name)(s, m1, m2), [s, m1, m2], (s,))
        out[name] = (X.mpmath_fn(real), X.numpy_fn(real))
    return out


def search(chk: common.Check, rng, n: int, tier: str):  # noqa: C901, PLR0912, PLR0915
    """The statement of C11 evaluated on the real doit()+lambdify code with mpmath (50 digits),
    and, with looser tolerances, with numpy complex128."""
    import mpmath
    import numpy as np

    fs = _mp_funcs()
    bad = []
    mpf = mpmath.mpf

    def ev(name, s, m1, m2):
        return X.mp_call(fs[name][0], [float(s), float(m1), float(m2)])

    def evnp(name, s, m1, m2):
        with np.errstate(all="ignore"):
            return complex(fs[name][1](complex(s), float(m1), float(m2)))

    def close(a, b, scale=1.0, tol=1e-12):
        return abs(a - b) <= tol * max(scale, abs(a), abs(b), 1e-300)

    for i in range(n):
        m1, m2 = mass_pair(rng)
        thr, pthr = (m1 + m2) ** 2, (m1 - m2) ** 2
        # --- q²: symmetry and zeros (exact thresholds in mpmath: use mpf arithmetic on the float masses)
        s = s_value(rng, m1, m2)
        if s == 0:
            continue
        a, b = ev("BreakupMomentumSquared", s, m1, m2), ev("BreakupMomentumSquared", s, m2, m1)
        chk.count(("q2-symm", i))
        if not close(a, b):
            bad.append({"what": "q² is not symmetric in the masses", "s": s, "m1": m1, "m2": m2, "q2": str(a), "q2_swapped": str(b)})
        with mpmath.workdps(50):
            for sign, label in ((1, "threshold"), (-1, "pseudo-threshold")):
                s0 = (mpf(m1) + sign * mpf(m2)) ** 2
                if s0 == 0:
                    continue
                v = fs["BreakupMomentumSquared"][0](s0, mpf(m1), mpf(m2))
                chk.count(("q2-zero", label, i))
                if abs(v) > mpf(10) ** -40 * max(1, thr):
                    bad.append({"what": f"q² does not vanish at the {label}", "m1": m1, "m2": m2, "s": str(s0), "q2": str(v)})
        # --- above threshold: Re rho_X = 2 sqrt(q²)/sqrt(s) for all five variants
        s = s_value(rng, m1, m2, rng.choice(["above", "above", "asym"]))
        if s > thr:
            q2 = ev("BreakupMomentumSquared", s, m1, m2).real
            expect = 2 * math.sqrt(max(q2, 0.0)) / math.sqrt(s)
            with mpmath.workdps(50):
                expect = float(2 * mpmath.sqrt((mpf(s) - (mpf(m1) + mpf(m2)) ** 2) * (mpf(s) - (mpf(m1) - mpf(m2)) ** 2) / (4 * mpf(s))) / mpmath.sqrt(mpf(s)))
            for name in RHO_CLASSES:
                v = ev(name, s, m1, m2)
                chk.count(("above", name, i))
                if not close(v.real, expect, 1.0):
                    bad.append({"what": f"Re {name} != 2q/sqrt(s) above threshold", "s": s, "m1": m1, "m2": m2, "value": str(v), "expected_real_part": expect})
                vn = evnp(name, s, m1, m2)
                cond = 1.0 if name != "PhaseSpaceFactorSWave" else max(1.0, (max(m1, m2) ** 2 + s) / (m1 * m2))
                if math.isfinite(vn.real) and cond < 1e4 and not close(vn.real, expect, 1.0, 1e-9 * cond):
                    bad.append({"what": f"Re {name} != 2q/sqrt(s) above threshold (numpy complex128)", "s": s, "m1": m1, "m2": m2, "value": str(vn), "expected_real_part": expect})
            if i < 2:
                chk.sample({"oracle": "above threshold", "s": s, "m1": m1, "m2": m2, "2q/sqrt(s)": expect,
                            "values": {nm: str(ev(nm, s, m1, m2)) for nm in RHO_CLASSES}})
        # --- between pseudo-threshold and threshold: rho_complex = i * rho_abs
        if thr > pthr:
            s = s_value(rng, m1, m2, "between")
            if pthr < s < thr:
                vc, va = ev("PhaseSpaceFactorComplex", s, m1, m2), ev("PhaseSpaceFactorAbs", s, m1, m2)
                chk.count(("between", i))
                if not close(vc, 1j * va):
                    bad.append({"what": "rho_complex != i*rho_abs between pseudo-threshold and threshold", "s": s, "m1": m1, "m2": m2, "complex": str(vc), "abs": str(va)})
                vcn, van = evnp("PhaseSpaceFactorComplex", s, m1, m2), evnp("PhaseSpaceFactorAbs", s, m1, m2)
                if math.isfinite(abs(vcn)) and math.isfinite(abs(van)) and not close(vcn, 1j * van, 1.0, 1e-9):
                    bad.append({"what": "rho_complex != i*rho_abs between pseudo-threshold and threshold (numpy complex128)", "s": s, "m1": m1, "m2": m2, "complex": str(vcn), "abs": str(van)})
        # --- equal masses: rho_eq = rho_CM on the whole axis, both continuous at threshold
        m = m1
        thr = 4 * m * m
        s = s_value(rng, m, m, rng.choice(["neg", "neg", "between", "between", "above", "asym", "thr"]))
        if s != 0:
            ve, vc = ev("EqualMassPhaseSpaceFactor", s, m, m), ev("PhaseSpaceFactorSWave", s, m, m)
            chk.count(("equal-mass", "neg" if s < 0 else "sub" if s < thr else "above", i))
            # near threshold both are O(sqrt|s-thr|); the identity is compared absolutely there
            # (exactly at threshold 1/rho_hat raises in mpmath; numpy evaluates it as inf, see below)
            if math.isfinite(abs(ve)) and math.isfinite(abs(vc)) and not close(ve, vc, 1.0, 1e-12):
                bad.append({"what": "equal masses: EqualMassPhaseSpaceFactor != PhaseSpaceFactorSWave" + (" for s < 0" if s < 0 else ""),
                            "s": s, "m": m, "rho_eq": str(ve), "rho_CM": str(vc)})
            ven, vcn = evnp("EqualMassPhaseSpaceFactor", s, m, m), evnp("PhaseSpaceFactorSWave", s, m, m)
            cond = max(1.0, abs(s) / (m * m))  # cancellation in the Chew-Mandelstam logarithm
            if math.isfinite(abs(ven)) and math.isfinite(abs(vcn)) and cond < 1e5 and not close(ven, vcn, 1.0, 1e-11 * cond):
                bad.append({"what": "equal masses: EqualMassPhaseSpaceFactor != PhaseSpaceFactorSWave (numpy complex128)" + (" for s < 0" if s < 0 else ""),
                            "s": s, "m": m, "rho_eq": str(ven), "rho_CM": str(vcn)})
            if i < 2:
                chk.sample({"oracle": "equal masses", "s": s, "m": m, "rho_eq": str(ve), "rho_CM": str(vc)})
        # continuity at threshold (the exact threshold 4m² of the float mass, in mpmath arithmetic)
        with mpmath.workdps(50):
            thr_mp = 4 * mpf(m) ** 2
            s_near = [(eps, sg, thr_mp * (1 + sg * mpf(eps))) for eps in (1e-6, 1e-10, 1e-20) for sg in (1, -1)]
        from fractions import Fraction
        exact_thr = Fraction(4 * m * m) == 4 * Fraction(m) ** 2
        for name in ("EqualMassPhaseSpaceFactor", "PhaseSpaceFactorSWave"):
            chk.count(("continuity", name, i))
            if exact_thr:
                # value AT the threshold: the lambdified numpy code (1/rho = inf, arctan(inf)*0 = 0)
                v0 = evnp(name, 4 * m * m, m, m)
                if not abs(v0) == 0:
                    bad.append({"what": f"{name} does not vanish at the equal-mass threshold", "m": m, "s": 4 * m * m, "value": str(v0)})
            for eps, sg, sv in s_near:
                v = X.mp_call(fs[name][0], [sv, m, m])
                if not abs(v) <= 4 * math.sqrt(eps):
                    bad.append({"what": f"{name} is not continuous at the equal-mass threshold", "m": m, "s": str(sv), "value": str(v), "limit": 0})
        if len(bad) > 20:
            break
    bad += accuracy_oracle(chk, rng, max(40, n // 3), fs)
    # numbers vs symbols, exact boundaries, compound arguments / generated code, defaults (notes/HARDENING.md)
    from tools.search import C11_exact

    hard, hinfo = C11_exact.hardening_oracle(chk, rng, tier)
    chk.info("hardening_oracle", hinfo)
    bad += hard
    # round 7: every clause through every generated-code route and mass instantiation
    from tools.search import C11_routes

    if _ROUTE_SWEEP.get("key") != (tier, id(chk)):
        _route_sweep(chk, rng, tier)
    rbad, rinfo, _ = C11_routes.routes_oracle(chk, _ROUTE_SWEEP["records"], _ROUTE_SWEEP["problems"])
    rbad += C11_routes.exact_zero_cases()
    chk.info("routes_oracle", rinfo)
    if rbad:
        chk.sample({"routes_oracle_first_failure": rbad[0]})
    bad += rbad
    return bad


# ------------------------------------------------------------------------------ tie on every generated-code route

_ROUTE_SWEEP: dict = {}


def _route_sweep(chk, rng, tier):
    from tools.search import C11_routes

    records, problems = C11_routes.sweep(rng, tier)
    _ROUTE_SWEEP.update(key=(tier, id(chk)), records=records, problems=problems)
    chk.info("route_sweep", {"records": len(records), "notes": [p["note"] for p in problems if "note" in p][:5],
                             "instantiation_kinds": sorted({r["kind"] for r in records}),
                             "routes": sorted({k for r in records for k in r["values"]})})
    eq = next((r for r in records if r["name"] == "PhaseSpaceFactorComplex" and r["kind"] == "equal-symbol"), None)
    if eq is not None:
        chk.sample({"pycode of PhaseSpaceFactorComplex(s, m, m).doit()": eq["pycode"]})
    return records


def route_tie_post(chk, ctx):
    """The Lean Float/CF twin of every regenerated definition vs the real code on EVERY generated-code
    route (numpy float/complex scalars and arrays, "math" floats/ints/complex, cse off/on, pycode exec,
    subs+evalf) and every mass instantiation (symbolic, equal symbol, zero, numbers before/after doit,
    compound s and masses) at the same (s, m1, m2)."""
    from tools.search import C11_routes
    from tools.translate import core

    records = _route_sweep(chk, ctx["rng"], ctx["tier"])
    pts = sorted({(r["name"], r["s"], r["a"], r["b"]) for r in records})
    lines = [" ".join([nm, *(str(core.float_bits(float(v))) for v in (sv, a, b))]) for nm, sv, a, b in pts]
    out = common.lean_run("Ampverif/GenFloat/C11.lean", "\n".join(lines) + "\n").strip().split("\n")
    if len(out) != len(pts) or "bad-op" in out:
        chk.broken_correspondence("route-tie", f"driver returned {len(out)} lines for {len(pts)} requests")
        return
    lean_values = {}
    for key, o in zip(pts, out):
        lv = [core.bits_float(int(x)) for x in o.split()]
        lean_values[key] = complex(lv[0], lv[1] if len(lv) > 1 else 0.0)
    chk.coverage["obligations"] += 1
    info = C11_routes.route_tie(chk, records, lean_values)
    chk.info("route_tie", info)
    if info["mismatches"] == 0 and info["compared"] > 0:
        chk.coverage["discharged"] += 1


# ------------------------------------------------------------------------------ float64 accuracy of the lambdified code

ACCURACY_K = 64.0  # tolerance = K * u * (first-order running error bound of the documented formulas), u = 2^-53


def _error_model(name, s, m1, m2):  # noqa: PLR0915
    """First-order running error bound (absolute, in units of the unit roundoff u) of the DOCUMENTED
    formula of each variant, evaluated in float64 in the order the source writes it:
    q² = (s-(m1+m2)²)(s-(m1-m2)²)/(4s) with one rounded subtraction per factor. Computed with mpmath
    from the exact intermediate values at the float inputs. Returns None at the singular points."""
    import mpmath

    mpf, fabs = mpmath.mpf, mpmath.fabs
    s, m1, m2 = mpf(s), mpf(m1), mpf(m2)
    thr, pthr = (m1 + m2) ** 2, (m1 - m2) ** 2
    f1, f2 = s - thr, s - pthr
    if s == 0 or f1 == 0 or f2 == 0:
        return None
    rel_q2 = (3 * thr + fabs(f1)) / fabs(f1) + (3 * pthr + fabs(f2)) / fabs(f2) + 4
    q2 = f1 * f2 / (4 * s)
    rel_rho = rel_q2 / 2 + 4
    rho = 2 * mpmath.sqrt(fabs(q2)) / mpmath.sqrt(fabs(s))
    if name == "BreakupMomentumSquared":
        return rel_q2 * fabs(q2)
    if name in ("PhaseSpaceFactor", "PhaseSpaceFactorAbs", "PhaseSpaceFactorComplex"):
        return rel_rho * rho
    if name == "EqualMassPhaseSpaceFactor":
        if s < 0 or s > thr:
            if rho == 1:
                return None
            big_l = mpmath.log(fabs((1 + rho) / (1 - rho)))
            err_l = rel_rho * rho * (1 / (1 + rho) + 1 / fabs(1 - rho)) + 3 + fabs(big_l)
            val = rho / mpmath.pi * fabs(big_l) + (rho if s > thr else 0)
            return (rel_rho + 4) * val + rho / mpmath.pi * err_l
        return (2 * rel_rho + 6) * (2 * rho / mpmath.pi * mpmath.atan(1 / rho))
    if name == "PhaseSpaceFactorSWave":
        q = mpmath.sqrt(q2)  # principal root (i*sqrt(-q²) below zero), as ComplexSqrt
        rs = mpmath.sqrt(s)
        b = 2 * rs * q
        a = m1**2 + m2**2 - s
        rel_q = rel_q2 / 2 + 3
        err_ab = 3 * (m1**2 + m2**2 + fabs(b) + fabs(s)) + (rel_q + 3) * fabs(b)
        if a + b == 0:
            return None
        w = (a + b) / (2 * m1 * m2)
        logw = mpmath.log(w)
        rel_w = err_ab / fabs(a + b) + 4
        rho_c = 2 * q / rs
        err_t1 = fabs(rho_c) * (rel_w + fabs(logw) * (rel_q + 6))
        lr = fabs(mpmath.log(m1 / m2))
        t2 = (m1**2 - m2**2) * (1 / s - 1 / thr) * mpmath.log(m1 / m2)
        err_t2 = 8 * fabs(t2) + fabs(m1**2 - m2**2) * (lr + 2) * (1 / fabs(s) + 4 / thr) \
            + 3 * (m1**2 + m2**2) * fabs(1 / s - 1 / thr) * (lr + 2)
        val = fabs(rho_c * logw - t2) / mpmath.pi
        return (err_t1 + err_t2) / mpmath.pi + 4 * val
    return None


def accuracy_grid(rng, n):
    """(s, m1, m2): mass ratios 1 .. 1e8 (incl. m1 = 1000, m2 = 1e-5), s near and between the thresholds,
    above, below and negative."""
    pairs = [(1000.0, 1e-5), (1e-5, 1000.0), (1.0, 1e-8), (0.5, 0.5), (0.13957, 0.49368), (3.0, 3e-4)]
    while len(pairs) < 6 + n // 8:
        r = 10 ** rng.uniform(0, 8)
        big = rng.choice([1.0, 1000.0, rng.uniform(0.1, 10.0)])
        pair = [big, big / r]
        rng.shuffle(pair)
        pairs.append(tuple(pair))
    pts = []
    for m1, m2 in pairs:
        thr, pthr = (m1 + m2) ** 2, (m1 - m2) ** 2
        gap = thr - pthr
        cand = [pthr + t * gap for t in (1e-3, 0.1, 0.5, 0.9, 1 - 1e-3, rng.uniform(0.01, 0.99))]
        cand += [thr + gap * t for t in (1e-3, 0.5, 10.0)] + [thr * (1 + t) for t in (1e-6, 1e-3, 0.5, 10.0, 1e3)]
        if pthr > 0:
            cand += [pthr - gap * t for t in (1e-3, 0.5)] + [pthr * (1 - t) for t in (1e-6, 1e-3, 0.5)]
        cand += [-thr * t for t in (1e-3, 1.0, 1e3)]
        pts += [(sv, m1, m2) for sv in cand if sv != 0]
    return pts


def accuracy_oracle(chk: common.Check, rng, n: int, fs=None):
    """"Evaluated through doit()+lambdify": the float64/complex128 value of the lambdified code must
    agree with its own 50-digit evaluation within K·u·(running error bound of the documented
    formula). The worst observed error per variant goes into the evidence, so that the factor K is
    justified by what this tree actually achieves."""
    import numpy as np

    fs = fs or _mp_funcs()
    u = 2.0 ** -53
    bad = []
    stats = {}
    for sv, m1, m2 in accuracy_grid(rng, n):
        for name in ["BreakupMomentumSquared", *RHO_CLASSES]:
            if name == "PhaseSpaceFactor" and sv < 0:
                continue  # complex128 value depends on the sign of a zero imaginary part there (see MANIFEST)
            model = _error_model(name, sv, m1, m2)
            if model is None:
                continue
            exact = X.mp_call(fs[name][0], [float(sv), float(m1), float(m2)])
            with np.errstate(all="ignore"):
                try:
                    got = complex(fs[name][1](complex(sv), float(m1), float(m2)))
                except ZeroDivisionError:
                    continue
            if not (math.isfinite(abs(exact)) and math.isfinite(abs(got))):
                continue
            err = abs(got - exact)
            bound = float(model) * u
            ratio = err / bound if bound > 0 else (0.0 if err == 0 else math.inf)
            rel = err / abs(exact) if exact != 0 else 0.0
            st = stats.setdefault(name, {"points": 0, "worst_error_over_model": 0.0, "worst_relative_error": 0.0})
            st["points"] += 1
            chk.count(("accuracy", name, sv, m1, m2))
            if ratio > st["worst_error_over_model"]:
                st["worst_error_over_model"] = ratio
                st["worst_model_point"] = {"s": sv, "m1": m1, "m2": m2, "relative_error": rel}
            if rel > st["worst_relative_error"]:
                st["worst_relative_error"] = rel
                st["worst_relative_point"] = {"s": sv, "m1": m1, "m2": m2, "model_relative_bound": bound / abs(exact) if exact != 0 else None}
            if ratio > ACCURACY_K:
                bad.append({"what": f"float64 evaluation of lambdified {name} loses accuracy (error far beyond the rounding-error bound of the documented formula)",
                            "s": sv, "m1": m1, "m2": m2, "float64": str(got), "mpmath_50_digits": str(exact),
                            "relative_error": rel, "error_over_bound": ratio, "allowed_error_over_bound": ACCURACY_K})
    chk.info("float64_accuracy", {"tolerance": f"|float64 - mpmath50| <= {ACCURACY_K} * 2^-53 * running error bound of the documented formula",
                                  "per_variant": stats})
    # one failing input per variant is enough
    seen, out = set(), []
    for b in bad:
        if b["what"] not in seen:
            seen.add(b["what"])
            out.append(b)
    return out


def signature_of(f):
    return {"what": f.get("what")}


PROP = X.TypedT1Property(
    prop_id="C11",
    sources=SOURCES,
    namespace="C11",
    build_definitions=build_definitions,
    points=points,
    search=search,
    prop_modules=["Ampverif.Props.C11"],
    n_points={"quick": 60, "thorough": 600},
    n_search={"quick": 150, "thorough": 4000},
    expected_facts={"PhaseSpaceFactorAbs_is_real_valued": True},
    signature_of=signature_of,
    post=route_tie_post,
    trusted=("principal branches: Mathlib's Complex.log / cpow 1/2 model numpy's and mpmath's principal sqrt/log "
             "(agreement checked numerically on every run, incl. negative s and both thresholds)",),
)

MANIFEST = {
    "technique": "Lean 4 theorems over typed ℝ/ℂ definitions regenerated from the source (translator), Float/CF-twin validation against numpy complex128 + mpmath, independent 50-digit oracle",
    "design_ref": "DESIGN.md §3 C11",
    "text": (
        "Proof of the full statement (nothing partial). BreakupMomentumSquared, ComplexSqrt.get_definition, the five phase-space "
        "classes, chew_mandelstam_s_wave and _analytic_continuation are re-translated from the working tree into Lean on every run "
        "(real sub-terms over ℝ, principal complex sqrt/log where the source applies them to a possibly negative real) and 23 theorems "
        "are re-checked by the kernel, for ALL real arguments in the stated regions: q² is symmetric in the masses, vanishes at "
        "s=(m1±m2)² and (s≠0) nowhere else; for s>(m1+m2)² (masses ≥0) PhaseSpaceFactor and PhaseSpaceFactorComplex are real and equal "
        "2√q²/√s, PhaseSpaceFactorAbs is that number, Re EqualMassPhaseSpaceFactor is that number, and (masses >0) Re PhaseSpaceFactorSWave "
        "is that number (log of a negative real = log|x|+iπ); for (m1−m2)²<s<(m1+m2)² PhaseSpaceFactorComplex = PhaseSpaceFactor = "
        "i·PhaseSpaceFactorAbs; for equal masses m>0 EqualMassPhaseSpaceFactor = PhaseSpaceFactorSWave for every real s≠0 (three regions "
        "and the threshold point; below threshold via arg exp(2i·arctan(1/ρ̂)) = 2·arctan(1/ρ̂)), the common value is a non-zero imaginary "
        "number for s<0 (the regression of fix d4fb37e), both vanish at s=4m² and both are ContinuousAt there. s=0 (pole of q²) is excluded."
    ),
    "level_note": (
        "Trusted: Lean kernel + Mathlib (axioms propext, Classical.choice, Quot.sound; thorough tier re-checks the modules with leanchecker); "
        "the sympy->Lean translator core + tools/translate/c11_ext.py (typed printing), validated on every run: the Lean Float/CF twin of every "
        "definition vs the real doit()+lambdify code under numpy complex128 and under mpmath at 50 digits on negative s, both thresholds ± ulps "
        "and 1e-12..1e-6 relative offsets, mass ratios up to 1e6 (ill-conditioned points are classified with the 50-digit value, not compared). "
        "The denotation uses Mathlib's principal cpow 1/2 / Complex.log; floating-point evaluation is executed, not modelled — in particular "
        "numpy's PhaseSpaceFactor for s<0 has the sign of a zero imaginary part ((−a+0j)(−b+0j) = ab−0j) and evaluates to −|ρ| where the "
        "principal-branch value is +|ρ|; no theorem speaks about that class in that region and the twin is compared with mpmath there. "
        "An independent oracle evaluates every clause of the statement on the real code with mpmath (and numpy) on each run. Because the "
        "statement is about the value 'evaluated through doit()+lambdify', the oracle also judges the float64/complex128 value of every "
        "lambdified variant against its own 50-digit value on a grid with mass ratios 1..1e8 (incl. m1=1000, m2=1e-5) near, between, above, "
        "below the thresholds and at negative s: |error| <= 64 * 2^-53 * (first-order running error bound of the documented formula, "
        "computed per point); the worst error/bound ratio of the tree under test is recorded per variant in the evidence (clean tree: "
        "<= 1.7 over 150 000 evaluations), so an algebraically identical but cancelling rewrite is reported with a concrete point. A hardening oracle (tools/search/C11_exact.py) checks on every run: numbers vs symbols for every public callable incl. equal/zero masses and s exactly at the thresholds, the Piecewise branches exactly on their boundaries, ComplexSqrt on numbers and on compound arguments in generated numpy code (cse off/on, real and complex inputs, folded vs unfolded), name= defaults. ComplexSqrt._pythoncode (modules=\"math\") on sum arguments is judged like every other argument since round 7 (the defect of the pinned tree was repaired by 1aeaf5e). "
        "Round 7 (tools/search/C11_routes.py): the statement is about VALUES, so the tie and the oracle run over every generated-code route — lambdify numpy (python floats, complex s, float64 and "
        "complex128 arrays) and \"math\" (floats, ints, complex s), cse off/on, exec of sympy.pycode, subs+evalf, xreplace+N — and every mass instantiation: X(s,m1,m2), equal symbol X(s,m,m) (q² collapses "
        "to the sum s/4-m²), X(s,m1,0), X(s,0,0), Float/Rational numbers before doit and substituted after doit, compound s=s1+s2 and m=ma+mb (also equal compound masses), masses equal/unequal/dyadic/"
        "integer/zero, s negative, below, between, above. (a) route_tie: the Lean Float/CF twin of the regenerated definition vs the value of each route at the same (s,m1,m2) (1e-9; signed-zero regions "
        "excluded as above); (b) routes_oracle: Re rho_X = 2q/sqrt(s), rho_complex = i rho_abs, rho_eq = rho_CM, q² textbook value and exact zeros on each route, plus: a (class, instantiation, route, region) "
        "combination listed in corpus/C11/route_support.json (finite on the tree the check was built on, seeds 0-7) that now raises or is not finite is a failing input. The python/math source is NOT parsed "
        "into Lean (no `code = definition` theorem for the scalar printer; the equal-mass instances are covered by the existing theorems, which hold for all real m1, m2 incl. m1 = m2, and by this executed tie)."
    ),
}
