"""C03 — parity partners carry exactly the parity sign of the flipped nodes.

Proof (Lean 4) about a line-by-line model of ampform's parity-partner naming and prefactor rule,
tied to the working tree on every run:

* T2: the model (`lean/Ampverif/Model/C03Parity.lean` + `Model/C03ParityRule.lean`, driven by
  `Drivers/C03.lean`) and the real code are run on the same reactions (corpus + seeded synthetic
  + a shuffled naming-only stream + the repeated-decay class: chains in which the SAME two-body
  decay occurs at two or three nodes, from qrules (chi_c0 -> omega omega/omega phi), deterministic
  shapes and a seeded generator of twin subtrees), under every naming-flag combination; mapping
  dict, coefficient symbol, prefactor (read off `model.components`) and the number of flipped
  nodes repeating an earlier flipped suffix are diffed. The prefactor-rule variant (three
  switches) is inferred first by probes, one per witness theorem.
* T3: the Clebsch–Gordan table (spins <= 3) is regenerated from the installed SymPy into
  `Gen/C03CG.lean`; its mirror symmetry is re-checked by the kernel.
* Independent oracles on the real code: (a) prefactor ratio of chains sharing a coefficient vs
  product of eta over the helicity-flipped nodes; (b) two-formalism comparison: random LS
  coefficients -> helicity amplitudes by the CG expansion of the canonical model -> must be
  representable by the helicity model's shared coefficients x prefactors (quick), and the two
  intensities agree numerically at random angles (thorough).
"""

from __future__ import annotations

import cmath
import math
import time
import traceback
from collections import defaultdict
from fractions import Fraction

from tools.corr import C03_cg, C03_lib as L
from tools.lib import common

PROP_ID = "C03"
SOURCES = ["src/ampform/helicity/__init__.py", "src/ampform/helicity/naming.py", "src/ampform/helicity/decay.py"]
PROP_MODULES = ["Ampverif.Props.C03", "Ampverif.Props.C03Racah"]
DRIVER = "Ampverif/Drivers/C03.lean"
MAX2 = 6  # doubled spin bound of the CG table (fixed: Lemmas/C03CGBlocks.lean names the blocks)
# (perFlippedNode, guardOnFlipped, perNode) of Model/C03ParityRule.lean
VARIANTS = {
    "sound": (1, 1, 1),
    "guard-on-all-node-product (ef9564d)": (1, 0, 1),
    "all-node-product (before ef9564d)": (0, 0, 1),
    "factors-keyed-by-suffix (equal decays of one chain counted once)": (1, 1, 0),
}
# one probe per witness theorem of Props/C03.lean (C03_witness_all_nodes, _guard, _suffix_keyed)
PROBES = ["jpsi_sigma1750.hel.json", "chic1_n1440.hel.json", "chic0_vv.hel.json"]
PAIRS = ["jpsi_sigma1750", "chic1_n1440", "jpsi_n1520", "jpsi_gamma_pi0_pi0"]
# (helicity reaction, canonical reaction) of the two-formalism oracle; the last ones contain chains in which the same
# two-body decay occurs at two nodes
ORACLE_B_PAIRS = [(f"{b}.hel.json", f"{b}.can.json") for b in PAIRS] + [
    ("chic0_vv.hel.json", "chic0_vv.can.json"), ("rep_vv.hel", "rep_vv.can")]
ORACLE_B_PAIRS_THOROUGH = [("rep_two_depths.hel", "rep_two_depths.can")]
REPEATED_STREAM_BUDGET_S = 20.0  # wall-clock cap of the seeded repeated-decay stream in the quick tier (x5 thorough)
REPEATED = "repeated"  # corpus/C03/repeated/: not globbed by the C02 harness, which reads corpus/C03/*.json


def _cg_header() -> str:
    import sympy

    return f"sympy {sympy.__version__}, spins <= {MAX2}/2"


def regenerate():
    table = C03_cg.cg_entries(MAX2)
    common.write_if_changed(common.LEAN / "Ampverif/Gen/C03CG.lean", C03_cg.render_lean(table, MAX2, _cg_header()))
    return table


# --------------------------------------------------------------------------- T3


def racah_transcription(a, m1, b, m2, c, M) -> float:
    """Line-by-line transcription of `Ampverif.Lemmas.C03CG.racah` (doubled arguments)."""

    def inv_f(x):
        return 0.0 if x < 0 or x % 2 else 1.0 / math.factorial(x // 2)

    def f_h(x):
        return 0.0 if x < 0 or x % 2 else float(math.factorial(x // 2))

    if M != m1 + m2:
        return 0.0
    big_a = (c + 1) * f_h(c + a - b) * f_h(c - a + b) * f_h(a + b - c) * inv_f(a + b + c + 2)
    big_b = f_h(c + M) * f_h(c - M) * f_h(a - m1) * f_h(a + m1) * f_h(b - m2) * f_h(b + m2)
    total = sum((-1) ** k * inv_f(2 * k) * inv_f(a + b - c - 2 * k) * inv_f(a - m1 - 2 * k) * inv_f(b + m2 - 2 * k)
                * inv_f(c - b + m1 + 2 * k) * inv_f(c - a - m2 + 2 * k) for k in range(a + b + 1))
    return math.sqrt(big_a) * math.sqrt(big_b) * total



def cg_step(chk: common.Check, rng, n_samples: int):
    try:
        table = regenerate()
    except Exception as e:  # noqa: BLE001
        chk.broken_correspondence("cg-table", "".join(traceback.format_exception_only(type(e), e))[-400:])
        return None
    size = sum(len(b) for b in table.values())
    chk.info("cg_table_entries", size)
    chk.coverage["obligations"] += 1
    if size == C03_cg.expected_size(MAX2):
        chk.coverage["discharged"] += 1
    else:
        chk.broken_correspondence("cg-table", f"table has {size} entries, expected {C03_cg.expected_size(MAX2)}")
    # validation of the generator: independent Racah evaluation on sampled keys (zeros included)
    flat = [(k, v) for b in table.values() for k, v in b]
    lookup = dict(flat)
    bad = 0
    for i in range(n_samples):
        if i % 4 == 0:  # arbitrary (mostly invalid) key
            j1, j2 = rng.randint(0, MAX2), rng.randint(0, MAX2)
            key = (j1, rng.randint(-j1, j1), j2, rng.randint(-j2, j2), rng.randint(0, 2 * MAX2), rng.randint(-MAX2, MAX2))
            if (key[1] - j1) % 2 or (key[3] - j2) % 2 or (key[4] - j1 - j2) % 2 or (key[5] - key[4]) % 2:
                continue
        else:
            key = rng.choice(flat)[0]
        sign, sq = C03_cg.reference_value(key)
        got = lookup.get(key, (0, 0, 1))
        chk.count(("cg", key) if sign != 0 else None)
        if (got[0], Fraction(got[1], got[2])) != (sign, sq):
            bad += 1
            if bad <= 2:
                chk.broken_correspondence("cg-table", {"key": key, "table": got, "racah": (sign, str(sq))})
    chk.info("cg_table_validation_samples", n_samples)
    # the formula the all-spin theorem is about (transcription of Lemmas/C03CG.lean `racah`) reproduces the table
    worst = 0.0
    for key, (sg, num, den) in flat:
        worst = max(worst, abs(racah_transcription(*key) - sg * math.sqrt(num / den)))
    chk.info("racah_formula_vs_table_max_abs_diff", worst)
    chk.coverage["obligations"] += 1
    if worst < 1e-12:
        chk.coverage["discharged"] += 1
    else:
        chk.broken_correspondence("cg-table", f"Racah's formula (as stated in Lean) differs from the SymPy table by {worst}")
    return table


# --------------------------------------------------------------------------- T2


def load_corpus(big: bool = False):
    import qrules

    out = {}
    for f in sorted(L.CORPUS.glob("*.json")):
        out[f.name] = qrules.io.load(f)
    # deterministic rare shapes (HARDENING rule 5): spins 3/2 and 2, three nodes with eta = (+1, -1, -1), chains flipped at
    # two nodes with unlike eta, identical particles in different branches, explicit L = 0
    out.update(L.shaped_reactions(big))
    # chains in which the SAME two-body decay occurs at two (or more) nodes: chi_c0 -> omega omega / omega phi ->
    # (gamma pi0)(gamma pi0) from qrules, and deterministic synthetic shapes (two twins, unlike eta, two depths)
    for f in sorted((L.CORPUS / REPEATED).glob("*.json")):
        out[f.name] = qrules.io.load(f)
    out.update(L.repeated_decay_shapes(big))
    return out


def is_repeated_class(name: str) -> bool:
    return name.startswith(("rep_", "chic0_vv"))


def infer_variant(chk: common.Check, corpus) -> tuple[str, tuple[int, int, int]]:
    obs = []
    text = ""
    flags = (False, True, None)
    for name in PROBES:
        obs.append(L.observe(corpus[name], flags))
    for v in VARIANTS.values():
        text += f"variant {v[0]} {v[1]} {v[2]}\n"
        for name in PROBES:
            text += L.lean_block(L.model_flags(flags), corpus[name].transitions)
    blocks = L.parse_lean_blocks(common.lean_run(DRIVER, text))
    matches = []
    for i, (vname, v) in enumerate(VARIANTS.items()):
        ok = True
        for j, o in enumerate(obs):
            b = blocks[i * len(PROBES) + j]
            if [c[1] for c in o["chains"]] != [c[1] for c in b["chains"]]:
                ok = False
        if ok:
            matches.append((vname, v))
    chk.info("variant_probes", PROBES)
    if not matches:
        chk.broken_correspondence("variant-inference", "the prefactors of the probe reactions match none of the modelled rules")
        return "sound", VARIANTS["sound"]
    chk.info("inferred_variant", matches[0][0])
    return matches[0]


def diff_block(obs, blk, names_only=False):
    """First difference between the real observation and the model block, or None."""
    if obs["mapping"] != blk["mapping"]:
        for i, (x, y) in enumerate(zip(obs["mapping"] + [None], blk["mapping"] + [None])):
            if x != y:
                return {"what": "parity_partner_coefficient_mapping", "index": i, "real": x, "model": y,
                        "real_len": len(obs["mapping"]), "model_len": len(blk["mapping"])}
    for i, (x, y) in enumerate(zip(obs["chains"], blk["chains"])):
        if x[0] != y[0]:
            return {"what": "coefficient symbol", "transition": i, "amplitude": x[2], "real": x[0], "model": y[0]}
        if not names_only and x[1] != y[1]:
            return {"what": "prefactor", "transition": i, "amplitude": x[2], "real": x[1], "model": y[1]}
    if len(obs["chains"]) != len(blk["chains"]):
        return {"what": "number of chains", "real": len(obs["chains"]), "model": len(blk["chains"])}
    return None


def naming_only_observation(transitions, flags, canonical, via_setters=False):
    from ampform.helicity.naming import CanonicalAmplitudeNameGenerator, HelicityAmplitudeNameGenerator

    p, c, ls = flags
    if via_setters:
        # HARDENING rule 3: reach the flags through a history of setter calls (each re-registers the mapping)
        gen = CanonicalAmplitudeNameGenerator(transitions) if canonical else HelicityAmplitudeNameGenerator(transitions)
        gen.insert_parent_helicities = not p
        gen.insert_child_helicities = not c
        gen.generate_sequential_amplitude_suffix(transitions[0])
        gen.insert_child_helicities = c
        if canonical:
            gen.insert_ls_combinations = not bool(ls)
            gen.insert_ls_combinations = bool(ls)
        gen.insert_parent_helicities = p
    elif canonical:
        gen = CanonicalAmplitudeNameGenerator(transitions, insert_parent_helicities=p, insert_child_helicities=c,
                                              insert_ls_combinations=bool(ls))
    else:
        gen = HelicityAmplitudeNameGenerator(transitions, insert_parent_helicities=p, insert_child_helicities=c)
    chains = [("C_{" + gen.generate_sequential_amplitude_suffix(t) + "}", None, gen.generate_amplitude_name(t))
              for t in transitions]
    return {"mapping": list(gen.parity_partner_coefficient_mapping.items()), "chains": chains}


def correspondence(chk: common.Check, corpus, variant, rng, n_synth: int, n_shuffled: int, all_flags: bool,
                   rng_repeated=None, n_repeated: int = 0):
    """Runs real code and model on the same cases; returns the list of (case, reaction, flags, obs)."""
    cases = []
    text = f"variant {variant[0]} {variant[1]} {variant[2]}\n"
    dist = defaultdict(int)

    seconds = defaultdict(float)

    def add(label, reaction, flags, kind):
        t0 = time.monotonic()
        obs = L.observe(reaction, flags)
        obs["repeated"] = L.repeated_flipped_count(obs["builder"].naming, reaction.transitions)
        seconds[kind.split(":")[0]] += time.monotonic() - t0
        nonlocal text
        text += L.lean_block(L.model_flags(flags), reaction.transitions)
        cases.append({"label": label, "reaction": reaction, "flags": flags, "obs": obs, "kind": kind})
        dist[f"{kind}:{reaction.formalism}"] += 1

    for name, reaction in corpus.items():
        can = reaction.formalism.startswith("canonical")
        fl = L.flag_combinations(can)
        if not all_flags and can:
            fl = [f for f in fl if f in ((False, False, True), (False, True, False), (False, True, True), (True, True, False))]
        if not all_flags and is_repeated_class(name):  # budget: the flags under which the partner mapping is active + default
            fl = [(False, False, True), (False, True, False), (False, True, True)] if can \
                else [(False, True, None), (True, True, None)]
        for flags in fl:
            add(name, reaction, flags, "repeated-decay-corpus" if is_repeated_class(name) else "corpus")
    n_ok = 0
    tries = 0
    while n_ok < n_synth and tries < 10 * n_synth:
        tries += 1
        can = rng.random() < 0.3
        mal = rng.random() < 0.2
        state = rng.getstate()
        reaction, desc = L.synthetic_reaction(rng, canonical=can, malformed=mal)
        if reaction is None:
            continue
        n_ok += 1
        fl = L.flag_combinations(can)
        if not all_flags:
            fl = [fl[0], rng.choice(fl[1:])] if can else [fl[0], rng.choice(fl[1:])]
            if (False, True, None) not in fl and not can:
                fl[0] = (False, True, None)
            if can and (False, True, False) not in fl:
                fl.append((False, True, False))
        for flags in fl:
            add(f"synthetic#{tries}" + ("(malformed)" if mal else ""), reaction, flags, "malformed" if mal else "synthetic")
            cases[-1]["desc"] = desc
        dist[f"topology:{len(desc['particles'])}-edges"] += 1
    # seeded stream of the repeated-decay class (own PRNG stream: the streams above are unchanged by it)
    n_ok = tries = 0
    budget = REPEATED_STREAM_BUDGET_S * (5 if all_flags else 1)
    while rng_repeated is not None and n_ok < n_repeated and tries < 10 * n_repeated:
        if seconds["repeated-decay-synthetic"] > budget:  # wall-clock cap of the stream (recorded, never a verdict)
            dist["repeated-decay-synthetic:stopped-by-time-budget-after"] = n_ok
            break
        tries += 1
        can = rng_repeated.random() < 0.25
        reaction, desc = L.repeated_decay_reaction(rng_repeated, canonical=can)
        if reaction is None:
            continue
        n_ok += 1
        fl = L.flag_combinations(can)
        if not all_flags:
            fl = [(False, True, False), rng_repeated.choice([(False, True, True), (True, True, False), (False, False, True)])] \
                if can else [(False, True, None), rng_repeated.choice([(True, True, None), (True, True, None), (False, False, None)])]
        for flags in fl:
            add(f"repeated#{tries}", reaction, flags, "repeated-decay-synthetic")
            cases[-1]["desc"] = desc
        dist[f"repeated-topology:{len(desc['particles'])}-edges:{len(desc['twin_subtrees'])}-twins"] += 1
    # naming-only stream: arbitrary registration order (ReactionInfo sorts its transitions, the
    # name generators accept any iterable)
    pool = [r for r in corpus.values()]
    for i in range(n_shuffled):
        if i % 2 == 0:
            base = rng.choice(pool)
        else:
            base = None
            while base is None:
                base, _ = L.synthetic_reaction(rng, canonical=rng.random() < 0.3)
        can = base.formalism.startswith("canonical")
        trs = list(base.transitions)
        rng.shuffle(trs)
        trs = trs[: rng.randint(2, len(trs))] if len(trs) > 2 else trs
        flags = (False, True, False) if can else (False, True, None)
        if i % 5 == 4:
            flags = rng.choice(L.flag_combinations(can))
        obs = naming_only_observation(trs, flags, can, via_setters=(i % 3 == 1))
        dist["flags-reached-by-setter-history"] += int(i % 3 == 1)
        text += L.lean_block(L.model_flags(flags), trs)
        cases.append({"label": f"shuffled#{i}", "reaction": None, "flags": flags, "obs": obs, "kind": "shuffled",
                      "names_only": True})
        dist["shuffled-order"] += 1
    blocks = L.parse_lean_blocks(common.lean_run(DRIVER, text))
    if len(blocks) != len(cases):
        chk.broken_correspondence("driver", f"{len(blocks)} blocks for {len(cases)} cases")
        return cases
    n_bad = 0
    wf_false = 0
    rep_cases = rep_nodes = 0
    for case, blk in zip(cases, blocks):
        d = diff_block(case["obs"], blk, names_only=case.get("names_only", False))
        rep_real = case["obs"].get("repeated")
        if d is None and rep_real is not None and blk.get("repeated") is not None and rep_real != blk["repeated"]:
            d = {"what": "number of flipped nodes whose suffix occurred at an earlier flipped node of the same chain",
                 "real": rep_real, "model": blk["repeated"]}
        if rep_real:
            rep_cases += 1
            rep_nodes += rep_real
            chk.count(("repeated-flipped-decay", case["label"], case["flags"]), n=0)
        nontriv = sum(1 for k, v in blk["mapping"] if k != v)
        key = (case["label"], case["flags"]) if nontriv else None
        chk.count(key)
        if not blk["wf"]:
            wf_false += 1
        case["wf"] = blk["wf"]
        if d is not None:
            n_bad += 1
            if n_bad <= 3:
                chk.broken_correspondence("model-vs-code", {"case": case["label"], "flags": case["flags"], **d})
    chk.info("correspondence_cases", len(cases))
    chk.info("correspondence_mismatches", n_bad)
    chk.info("cases_with_one_decay_flipped_at_two_nodes_of_a_chain", rep_cases)
    chk.info("flipped_nodes_repeating_an_earlier_flipped_suffix", rep_nodes)
    chk.info("cases_where_theorem_hypothesis_partnerInjective_is_false", wf_false)
    chk.info("input_distribution", dict(dist))
    chk.info("seconds_formulating_per_stream", {k: round(v, 1) for k, v in seconds.items()})
    for case in cases[:1] + cases[-1:]:
        chk.sample({"case": case["label"], "flags": case["flags"], "mapping_head": case["obs"]["mapping"][:2],
                    "chain_head": [list(c[:2]) for c in case["obs"]["chains"][:2]]})
    return cases


# --------------------------------------------------------------------------- oracles


def oracle_a(chk: common.Check, cases, rng):
    found = []
    judged = nontrivial = 0
    for case in cases:
        if case["reaction"] is None or not case["flags"][1] or case["kind"] == "malformed":
            continue
        j, n, fails = L.oracle_ratio(case["reaction"], case["obs"], rng)
        judged += j
        nontrivial += n
        for f in fails[:2]:
            found.append({**f, "case": case["label"], "flags": case["flags"], "formalism": case["reaction"].formalism,
                          "description": case.get("desc")})
    chk.coverage["evaluations"] += judged
    chk.info("oracle_a_pairs_judged", judged)
    chk.info("oracle_a_pairs_with_flipped_nodes", nontrivial)
    for i in range(min(nontrivial, 50)):
        chk._distinct.add(("oracle-a-bucket", i))  # noqa: SLF001  (bounded credit for the pair count)
    return found


def _cg_factor(comp):
    """numeric Clebsch-Gordan factor of a canonical component (C -> 1, WignerD -> 1)."""
    import sympy as sp
    from sympy.physics.quantum.cg import CG
    from sympy.physics.quantum.spin import WignerD

    repl = {d: 1 for d in comp.atoms(WignerD)}
    repl.update({s: 1 for s in comp.free_symbols if isinstance(s, sp.Symbol) and s.name.startswith("C_{")})
    val = comp.xreplace(repl)
    val = val.replace(lambda e: isinstance(e, CG), lambda e: e.doit())
    val = sp.nsimplify(val.doit()) if val.free_symbols == set() else val
    if val.free_symbols:
        raise ValueError(f"unexpected symbols in a canonical component: {val.free_symbols}")
    return complex(val.evalf())


def _state_key(t):
    return tuple(sorted((e, s.particle.name, float(s.spin_projection)) for e, s in t.states.items()))


def oracle_b(chk: common.Check, corpus, rng, with_intensity: bool, n_points: int, pairs=None, cases=()):
    """Two-formalism comparison on the corpus pairs."""
    import sympy as sp

    found = []
    done = 0
    observed = {(c["label"], c["flags"]): c["obs"] for c in cases if c.get("reaction") is not None}
    for key_h, key_c in (pairs if pairs is not None else ORACLE_B_PAIRS):
        base = key_h.rsplit(".hel", 1)[0]
        rh = corpus.get(key_h)
        rc = corpus.get(key_c)
        if rh is None or rc is None:
            continue
        # default naming of both builders (reuse the observation of the correspondence run when there is one)
        obs_h = observed.get((key_h, (False, True, None))) or L.observe(rh, (False, True, None))
        obs_c = observed.get((key_c, (False, False, True))) or L.observe(rc, (False, False, True))
        # random LS coefficients
        cvals = {}
        H = defaultdict(complex)
        for tc, (cname, pre, aname) in zip(rc.transitions, obs_c["chains"]):
            if pre is None or cname.startswith("<"):
                found.append({"what": "canonical component without a single coefficient", "reaction": base, "amplitude": aname})
                continue
            if cname not in cvals:
                cvals[cname] = complex(rng.uniform(-1, 1), rng.uniform(-1, 1))
            comp = obs_c["model"].components[f"A_{{{aname}}}"]
            H[_state_key(tc)] += cvals[cname] * _cg_factor(comp)
        # helicity model: every chain t needs prefactor(t) * C_h(symbol(t)) = H(t)
        hvals: dict[str, complex] = {}
        for th, (cname, pre, aname) in zip(rh.transitions, obs_h["chains"]):
            if pre is None or not isinstance(pre, int) or pre == 0:
                continue
            target = H.get(_state_key(th), 0j) / pre
            chk.count(("oracle-b", base, cname, aname))
            if cname not in hvals:
                hvals[cname] = target
            elif abs(hvals[cname] - target) > 1e-9 * max(1.0, abs(target)):
                found.append({
                    "what": "helicity amplitudes from the CG expansion are not representable by the shared coefficient x prefactor",
                    "reaction": base, "coefficient": cname, "amplitude": aname, "prefactor": pre,
                    "required_value_from_first_chain": [hvals[cname].real, hvals[cname].imag],
                    "required_value_from_this_chain": [target.real, target.imag],
                    "canonical_LS_coefficients": {k: [v.real, v.imag] for k, v in cvals.items()},
                })
        done += 1
        if with_intensity and not found:
            try:
                mism = _compare_intensities(obs_h["model"], hvals, obs_c["model"], cvals, rng, n_points)
            except Exception as e:  # noqa: BLE001
                mism = {"error": "".join(traceback.format_exception_only(type(e), e))[-300:]}
            chk.count(("oracle-b-intensity", base), n_points)
            if mism:
                found.append({"what": "helicity and canonical intensities differ under CG-expanded coefficients",
                              "reaction": base, **mism})
    chk.info("oracle_b_reaction_pairs", done)
    return found


def _compare_intensities(model_h, hvals, model_c, cvals, rng, n_points):
    import numpy as np
    import sympy as sp

    def build(model, values):
        subs = {}
        for p in model.parameter_defaults:
            if p.name in values:
                subs[p] = values[p.name]
            elif p.name.startswith("C_{"):
                subs[p] = 0  # coefficient of chains whose CG expansion vanishes
            else:
                subs[p] = model.parameter_defaults[p]
        expr = model.expression.xreplace(subs).doit()
        syms = sorted(expr.free_symbols, key=lambda s: s.name)
        return expr, syms

    eh, sh = build(model_h, hvals)
    ec, sc = build(model_c, cvals)
    # a symbol may cancel symbolically in one of the two forms: evaluate both on the union
    union = sorted({s.name: s for s in [*sh, *sc]}.values(), key=lambda s: s.name)
    if any(not (s.name.startswith("theta") or s.name.startswith("phi")) for s in union):
        return {"unexpected_free_symbols": [s.name for s in union]}
    sh = sc = union
    fh = sp.lambdify(sh, eh, "numpy")
    fc = sp.lambdify(sc, ec, "numpy")
    pts = {}
    for s in sh:
        if s.name.startswith("theta"):
            pts[s.name] = np.array([rng.uniform(0.05, math.pi - 0.05) for _ in range(n_points)])
        else:
            pts[s.name] = np.array([rng.uniform(-math.pi, math.pi) for _ in range(n_points)])
    for s in sh:  # boundaries of the angular domain in the last two points
        if s.name.startswith("theta") and n_points >= 4:
            pts[s.name][-1] = 0.0
            pts[s.name][-2] = math.pi
    vh = np.real(np.asarray(fh(*[pts[s.name] for s in sh]), dtype=complex)) * np.ones(n_points)
    vc = np.real(np.asarray(fc(*[pts[s.name] for s in sc]), dtype=complex)) * np.ones(n_points)
    scale = max(1e-12, float(np.max(np.abs(vc))))
    k = int(np.argmax(np.abs(vh - vc)))
    if abs(vh[k] - vc[k]) > 1e-8 * scale:
        return {"point": {n: float(v[k]) for n, v in pts.items()}, "helicity_intensity": float(vh[k]),
                "canonical_intensity": float(vc[k])}
    return None


def outside_default_observation(chk: common.Check, corpus):
    """Machine-produced record (NO verdict): with the canonical builder and the non-default naming flags
    insert_child_helicities=True, insert_ls_combinations=False the partner mapping becomes active, so the explicit
    parity prefactor is applied on top of the Clebsch-Gordan factors that already carry the parity sign. For every
    pair of helicity configurations that share a coefficient and differ by reversed daughter helicities we record the
    effective factor (prefactor x sum over LS of the CG products) multiplying the shared coefficient."""
    flags = (False, True, False)
    records = []
    n_pairs = n_double = 0
    for base in PAIRS:
        rc = corpus.get(f"{base}.can.json")
        if rc is None:
            continue
        obs = L.observe(rc, flags)
        eff = defaultdict(complex)
        rep = {}
        for t, (cname, pre, aname) in zip(rc.transitions, obs["chains"]):
            if pre is None or cname.startswith("<"):
                continue
            key = (cname, _state_key(t))
            eff[key] += _cg_factor(obs["model"].components[f"A_{{{aname}}}"])
            rep.setdefault(key, t)
        by_coeff = defaultdict(list)
        for (cname, sk), v in eff.items():
            by_coeff[cname].append((sk, v))
        for cname, lst in by_coeff.items():
            for i in range(len(lst)):
                for j in range(i + 1, len(lst)):
                    t1, t2 = rep[(cname, lst[i][0])], rep[(cname, lst[j][0])]
                    fl = L.flipped_nodes(t1, t2)
                    if not fl:
                        continue
                    etas = [t1.interactions[n].parity_prefactor for n in fl]
                    if any(e is None for e in etas) or abs(lst[i][1]) < 1e-12:
                        continue
                    required = 1
                    for e in etas:
                        required *= int(e)
                    measured = lst[j][1] / lst[i][1]
                    n_pairs += 1
                    if abs(measured - required) > 1e-9:
                        n_double += 1
                        if len(records) < 6:
                            hel = lambda t: {e: str(s.spin_projection) for e, s in sorted(t.states.items())}  # noqa: E731
                            records.append({
                                "reaction": base, "coefficient": cname, "flipped_nodes": list(fl),
                                "eta_of_flipped_nodes": [int(e) for e in etas],
                                "helicities_1": hel(t1), "effective_factor_1": [lst[i][1].real, lst[i][1].imag],
                                "helicities_2": hel(t2), "effective_factor_2": [lst[j][1].real, lst[j][1].imag],
                                "measured_ratio": [measured.real, measured.imag], "ratio_required_by_parity": required,
                            })
    chk.info("outside_default_configuration_observation", {
        "configuration": "CanonicalAmplitudeBuilder, insert_parent_helicities=False, insert_child_helicities=True, "
                         "insert_ls_combinations=False (non-default; coefficient names also merge all LS terms)",
        "what": "effective factor = parity prefactor x sum over LS of CG(L0;S d|J d) CG(s1 l1;s2 -l2|S d) multiplying a shared "
                "coefficient; parity requires ratio = product of eta over the flipped nodes; a different ratio means the parity "
                "sign is applied twice (prefactor and CG)",
        "partner_pairs_measured": n_pairs,
        "pairs_whose_ratio_differs_from_parity": n_double,
        "examples": records,
        "verdict": "none (outside the default configuration; recorded only)",
    })


# --------------------------------------------------------------------------- the property object


class C03Property:
    prop_id = PROP_ID

    def regenerate(self):
        common.use_repo_source()
        regenerate()

    def run(self, tier: str, seed: int) -> int:
        chk = common.Check(PROP_ID, tier, seed)
        common.use_repo_source()
        rng = common.rng_for(PROP_ID, seed)
        chk.info("source_blobs", common.source_blob_hashes(SOURCES))
        thorough = tier == "thorough"

        # T3 table + proofs
        cg_step(chk, common.rng_for(PROP_ID, seed, "cg"), 400 if thorough else 80)
        res = common.prove(PROP_ID, PROP_MODULES)
        chk.record_proof(res, "cd lean && lake build " + " ".join(PROP_MODULES) + f" && lake env lean Ampverif/Audit/{PROP_ID}.lean")
        if res["failed"]:
            chk.note("proof obligations not discharged: " + "; ".join(f"{k}: {v[:160]}" for k, v in list(res["failed"].items())[:5]))

        # T2
        cases = []
        corpus = {}
        try:
            corpus = load_corpus(thorough)
            vname, variant = infer_variant(chk, corpus)
            if vname != "sound":
                chk.broken_correspondence(
                    "variant", f"the code implements the unsound prefactor rule '{vname}' "
                    "(C03_ratio needs the sound rule; see the witness theorem of that rule)")
            cases = correspondence(chk, corpus, variant, common.rng_for(PROP_ID, seed, "synthetic"),
                                   n_synth=120 if thorough else 25, n_shuffled=60 if thorough else 12,
                                   all_flags=thorough, rng_repeated=common.rng_for(PROP_ID, seed, "repeated-decays"),
                                   n_repeated=40 if thorough else 8)
        except common.LeanRunError as e:
            chk.broken_correspondence("driver", f"Lean driver failed: {e}"[:800])
        except common.InfraError:
            raise
        except Exception as e:  # noqa: BLE001
            chk.broken_correspondence("real-code", "".join(traceback.format_exception(type(e), e, e.__traceback__))[-1200:])

        # HARDENING rule 6: mapping, coefficient symbols, prefactors and parameter order must not depend on the hash seed
        try:
            files = [L.CORPUS / "jpsi_sigma1750.hel.json", L.CORPUS / "chic1_n1440.hel.json", L.CORPUS / "jpsi_n1520.can.json"]
            runs = L.hashseed_runs(files, [1, 2, 3] if not thorough else [1, 2, 3, 4, 5, 6])
            for b in L.compare_hashseed_runs(chk, runs, ["mapping", "coefficients_and_prefactors", "parameter_order"], "C03")[:3]:
                chk.broken_correspondence("hash-seed", b)
        except common.InfraError:
            raise
        except Exception as e:  # noqa: BLE001
            chk.broken_correspondence("hash-seed", "".join(traceback.format_exception_only(type(e), e))[-400:])

        # search on the real code (always)
        found = []
        try:
            found += oracle_a(chk, cases, common.rng_for(PROP_ID, seed, "oracle-a"))
            found += oracle_b(chk, corpus, common.rng_for(PROP_ID, seed, "oracle-b"), with_intensity=thorough,
                              n_points=40, cases=cases,
                              pairs=ORACLE_B_PAIRS + (ORACLE_B_PAIRS_THOROUGH if thorough else []))
        except Exception as e:  # noqa: BLE001
            found.append({"what": "the real code raised while the property was evaluated",
                          "error": "".join(traceback.format_exception(type(e), e, e.__traceback__))[-1500:]})
        try:
            outside_default_observation(chk, corpus)
        except Exception as e:  # noqa: BLE001  (a record only: never a verdict)
            chk.info("outside_default_configuration_observation",
                     {"error": "".join(traceback.format_exception_only(type(e), e))[-300:]})
        seen = set()
        for f in found:
            if f["what"] in seen:
                continue
            seen.add(f["what"])
            chk.failing_input({"what": f["what"]}, {"input": f, "broken": chk.broken})
        if chk.broken and not found:
            for b in chk.broken:
                chk.unexplained(b.get("theorem") or b.get("what"), b)

        chk.coverage["rule"] = (
            "evaluations = correspondence cases (reaction x naming flags; real mapping dict, coefficient symbols and "
            "prefactors read off model.components vs the Lean model) + CG keys re-evaluated by Racah's formula + chain "
            "pairs judged by oracle (a) + chains/points of oracle (b). distinct_nontrivial counts distinct (case, flags) "
            "with at least one non-identity mapping entry, distinct (case, flags) in which one decay is flipped at two nodes "
            "of a chain (counted on the real naming object, compared with the model's count), distinct non-zero CG keys, "
            "distinct (reaction, coefficient, chain) triples of oracle (b) and at most 50 buckets for the oracle-(a) pairs "
            "with a non-empty flip set")
        chk.coverage["trusted_base"] = [
            "Lean 4.33 kernel + Mathlib v4.33 (axioms: see axioms_reported)",
            "correspondence harness tools/props/C03.py + tools/corr/C03_lib.py (canonicalisation: exact strings, integers)",
            "Lean interpreter running Drivers/C03.lean (model outputs)",
            "SymPy: CG(...).doit() produces the table; sympy.physics.wigner.clebsch_gordan validates it",
            "qrules: transitions, interaction properties (parity_prefactor), ReactionInfo ordering",
        ]
        chk.assumptions += [
            "C03_ratio assumes the decidable name-consistency condition partnerInjective (evaluated per case; see coverage)",
            "the all-spin CG theorems are about Racah's formula; its identity with SymPy's CG values is checked on the table "
            "(spins <= 3) only",
        ]
        return chk.finish()


PROP = C03Property()

MANIFEST = {
    "technique": "Lean 4 proof about an executable line-by-line model (T2 differential run against the real code) + "
                 "regenerated exact Clebsch-Gordan table (T3) + independent two-formalism oracle",
    "design_ref": "DESIGN.md §3 C03",
    "text": (
        "Proof. Props/C03Racah.lean (kernel tie of the all-spin formula to SymPy): Racah's closed formula, the object of "
        "C03_cg_parity_all_spins, equals sign*sqrt(sq) with EXECUTABLE rational sign/sq for all arguments (C03_racah_exact) and "
        "equals the Clebsch-Gordan table regenerated from the installed SymPy on EVERY admissible key with 2j1,2j2 <= 6 "
        "(49 blocks, decide +kernel on exact rationals, absent keys = 0; C03_racah_is_sympy_cg_partial). "
        "Unbounded (any number of transitions/nodes, any spins, any registration order, all naming flags): "
        "C03_prefactor_is_flipped_product (sound rule: factor of a chain = product of eta over exactly its mapped nodes), "
        "C03_register_unique_partner (the registration loop gives every suffix at most one non-trivially mapped partner, "
        "under the decidable name-consistency condition evaluated on every case), C03_ratio / C03_ratio_int (two chains with "
        "the same coefficient symbol: prefactor ratio = product of eta over exactly the nodes where they differ; "
        "C03_ratio_rule: the same for the three-switch rule the harness drives). The product is over the NODES of a chain, with "
        "multiplicity: C03_prefactor_append (factor of c1 ++ c2 = product of the factors, any lengths) and "
        "C03_prefactor_multiplicity (a decay occurring at k nodes contributes eta^k, all k). "
        "Kernel-checked witnesses for both unsound rules the tree has had (C03_witness_all_nodes: J/psi -> Sigma~(1750)- Sigma+, "
        "Sigma~ -> K0 p~; C03_witness_guard: chi_c1 -> N~(1440)- p, N~ -> pi0 p~) and for a rule that merges equal decays of "
        "one chain (C03_witness_suffix_keyed: chi_c0 -> omega omega -> (gamma pi0)(gamma pi0), factors collected in a dict "
        "keyed by the coefficient suffix: -1 where the property demands (-1)(-1) = +1); each witness reaction is a probe of the "
        "variant inference. Table-bounded (_partial, spins <= 3, exact "
        "SymPy values regenerated every run): C03_cg_parity_partial (CG mirror symmetry) and "
        "C03_helicity_coupling_parity_partial (F_{-l1,-l2} = eta F_{l1,l2} for helicity couplings expanded from ANY LS "
        "coefficients with parity-allowed L — the 'equivalently' clause at the level of one node). ALL spins: "
        "C03_cg_parity_all_spins proves the mirror symmetry for Racah's closed formula (reflection k -> j1+j2-J-k of the sum) and "
        "C03_helicity_coupling_parity_all_spins the coupling relation with those CG values; that SymPy's CG equals Racah's "
        "formula is established on the table only (kernel: table symmetric; harness: a transcription of the Lean formula "
        "reproduces all 2408 entries to 1e-12). The equality of the two intensities is checked numerically (thorough tier), "
        "not proved. Evidence also carries a machine-produced `outside_default_configuration_observation` (canonical builder "
        "with insert_child_helicities=True, insert_ls_combinations=False applies the parity sign twice) without a verdict."
    ),
    "level_note": (
        "Trusted: Lean kernel + Mathlib (axioms propext, Classical.choice, Quot.sound); the correspondence harness and the Lean "
        "interpreter; SymPy's CG values (cross-checked against its independent Racah implementation); qrules objects. "
        "Modelled: suffix strings, registration loop, prefactor rule (three switches: per flipped node / guard / per node vs "
        "per distinct suffix; variant inferred by probes). Executed, not modelled: "
        "sympy Mul flattening of the component expressions (prefactor read off as_coeff_Mul), WignerD evaluation in the "
        "thorough intensity comparison."
    ),
}
