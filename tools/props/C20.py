"""C20 — phase-space boundary functions (Kallen, Kibble, third Mandelstam, indicator)."""

from __future__ import annotations

import math

from tools.lib import common
from tools.lib.t1 import T1Property
from tools.translate import core

SOURCES = ["src/ampform/kinematics/phasespace.py"]


# --- calling conventions -------------------------------------------------------------------
# The four public objects are callable positionally, by keywords (in any order) and mixed. The
# @unevaluated classes get their `.args` from the decorator's constructor glue
# (`_extract_field_values`), and `evaluate()` unpacks `.args` BY POSITION, so the value of a
# keyword-constructed Kibble depends on that glue. Every convention below is therefore (a) part
# of the regenerated Lean definitions (`<Name><Convention>`, proved equal to the positional
# definition in Props/C20.lean) and (b) exercised by the oracle with random permutations.
PARAMS = {
    "Kallen": ["x", "y", "z"],
    "Kibble": ["sigma1", "sigma2", "sigma3", "m0", "m1", "m2", "m3"],
    "thirdMandelstam": ["sigma1", "sigma2", "m0", "m1", "m2", "m3"],
    "isWithinPhasespace": ["sigma1", "sigma2", "m0", "m1", "m2", "m3", "outside_value"],
}
BASES = tuple(PARAMS)


def public_objects():
    from ampform.kinematics import phasespace as ps

    return {"Kallen": ps.Kallen, "Kibble": ps.Kibble, "thirdMandelstam": ps.compute_third_mandelstam,
            "isWithinPhasespace": ps.is_within_phasespace}


def fixed_conventions(params):
    """Deterministic conventions that get a regenerated Lean definition: label -> (n_positional, keyword order)."""
    n = len(params)
    half = n // 2
    return {
        "KwDecl": (0, list(params)),
        "KwRev": (0, list(reversed(params))),
        "KwRot": (0, list(params[half:]) + list(params[:half])),  # e.g. masses first, then the sigmas
        "Mixed": (half, list(reversed(params[half:]))),
    }


def call_with(fn, params, values, n_pos, kw_order):
    """Call `fn` with the first n_pos values positionally and the rest as keywords written in kw_order."""
    by_name = dict(zip(params, values))
    return fn(*values[:n_pos], **{k: by_name[k] for k in kw_order})


def base_of(name):
    return next(b for b in sorted(BASES, key=len, reverse=True) if name.startswith(b))


def build_definitions():
    import sympy as sp

    from ampform.kinematics import phasespace as ps

    tr = core.Translator(classes={ps.Kallen: "Kallen", ps.Kibble: "Kibble"})
    x, y, z = sp.symbols("x y z", real=True)
    s1, s2, s3, m0, m1, m2, m3, ov = sp.symbols("sigma1 sigma2 sigma3 m0 m1 m2 m3 ov", real=True)
    defs = []
    defs.append(core.Definition("Kallen", ["x", "y", "z"], tr(ps.Kallen(x, y, z).evaluate())))
    defs.append(core.Definition(
        "Kibble", ["sigma1", "sigma2", "sigma3", "m0", "m1", "m2", "m3"],
        tr(ps.Kibble(s1, s2, s3, m0, m1, m2, m3).evaluate())))
    defs.append(core.Definition(
        "thirdMandelstam", ["sigma1", "sigma2", "m0", "m1", "m2", "m3"],
        tr(ps.compute_third_mandelstam(s1, s2, m0, m1, m2, m3))))
    defs.append(core.Definition(
        "isWithinPhasespace", ["sigma1", "sigma2", "m0", "m1", "m2", "m3", "ov"],
        tr(ps.is_within_phasespace(s1, s2, m0, m1, m2, m3, outside_value=ov))))
    # discrete facts that are not formulas
    default = ps.is_within_phasespace(s1, s2, m0, m1, m2, m3)
    facts = {"default_outside_value_is_nan": default.args[1][0] is sp.nan}
    reals = {
        "Kallen": (ps.Kallen(x, y, z), [x, y, z]),
        "Kibble": (ps.Kibble(s1, s2, s3, m0, m1, m2, m3), [s1, s2, s3, m0, m1, m2, m3]),
        "thirdMandelstam": (ps.compute_third_mandelstam(s1, s2, m0, m1, m2, m3), [s1, s2, m0, m1, m2, m3]),
        "isWithinPhasespace": (ps.is_within_phasespace(s1, s2, m0, m1, m2, m3, outside_value=ov), [s1, s2, m0, m1, m2, m3, ov]),
    }
    # the same four objects reached through the other calling conventions
    objs = public_objects()
    syms = {"Kallen": [x, y, z], "Kibble": [s1, s2, s3, m0, m1, m2, m3],
            "thirdMandelstam": [s1, s2, m0, m1, m2, m3], "isWithinPhasespace": [s1, s2, m0, m1, m2, m3, ov]}
    for base in BASES:
        params = PARAMS[base]
        lean_params = [str(a) for a in syms[base]]
        is_class = isinstance(objs[base], type)
        for label, (n_pos, kw_order) in fixed_conventions(params).items():
            obj = call_with(objs[base], params, syms[base], n_pos, kw_order)
            how = f"{base}({', '.join(['·'] * n_pos + [k + '=·' for k in kw_order])})"
            defs.append(core.Definition(base + label, lean_params, tr(obj.evaluate() if is_class else obj),
                                        doc=f"`{how}`" + (".evaluate()" if is_class else "")))
            reals[base + label] = (obj, syms[base])
            if is_class and label in ("KwRev", "Mixed"):
                # the unevaluated NODE itself: its `.args` (what every consumer of the tree sees)
                defs.append(core.Definition(base + "Node" + label, lean_params, tr(obj),
                                            doc=f"the unevaluated node `{how}` (its `.args` order)"))
                reals[base + "Node" + label] = (obj, syms[base])
    return defs, reals, facts


def points(name, nargs, rng, n):
    name = base_of(name)
    pts = []
    for _ in range(n):
        if name == "Kallen":
            pts.append([rng.uniform(-5, 30) for _ in range(nargs)])
        else:
            m = sorted([rng.uniform(0, 1.5) for _ in range(3)])
            m0 = sum(m) + rng.uniform(0.05, 3)
            rng.shuffle(m)
            s1 = rng.uniform((m[1] + m[2]) ** 2 * 0.8, (m0 - m[0]) ** 2 * 1.2)
            s2 = rng.uniform((m[0] + m[2]) ** 2 * 0.8, (m0 - m[1]) ** 2 * 1.2)
            s3 = rng.uniform(0, m0**2)
            base = {"Kibble": [s1, s2, s3, m0, *m], "thirdMandelstam": [s1, s2, m0, *m],
                    "isWithinPhasespace": [s1, s2, m0, *m, rng.choice([0.0, -1.0, 7.5])]}[name]
            pts.append(base)
    return pts


def convention_oracle(chk: common.Check, rng, n_random: int):
    """Every public object called through every calling convention must be THE SAME object as the
    positional call: `==`, `.args` (for the classes: the field-declaration order), named attributes,
    hash, srepr, LaTeX, doit(). Symbols and exact numbers; fixed conventions + random permutations
    and random positional/keyword splits; `outside_value` omitted / positional / keyword."""
    import sympy as sp

    R = sp.Rational
    bad = []
    objs = public_objects()
    sym = {p: sp.Symbol(p, real=True) for b in BASES for p in PARAMS[b]}
    for base in BASES:
        fn, params = objs[base], PARAMS[base]
        is_class = isinstance(fn, type)
        n = len(params)
        convs = [(lab, *c) for lab, c in fixed_conventions(params).items()]
        for k in range(n_random):
            n_pos = rng.randrange(0, n) if k % 2 else 0
            order = list(params[n_pos:]); rng.shuffle(order)
            convs.append((f"random{k}", n_pos, order))
        for k in range(1, n):  # every split point, keywords in declaration order and reversed
            convs.append((f"split{k}", k, list(params[k:])))
            convs.append((f"split{k}rev", k, list(reversed(params[k:]))))
        value_sets = [[sym[p] for p in params],
                      [R(rng.randint(1, 40), rng.randint(1, 9)) for _ in params],
                      [sym[p] ** 2 + R(i + 1, 3) for i, p in enumerate(params)]]
        if base == "isWithinPhasespace":
            value_sets.append([*value_sets[0][:-1], None])  # outside_value left at its default
        for vi, values in enumerate(value_sets):
            omitted = values[-1] is None
            vals = values[:-1] if omitted else values
            prm = params[:-1] if omitted else params
            ref = fn(*vals)
            for lab, n_pos, order in convs:
                order = [k for k in order if k in prm]
                n_pos = min(n_pos, len(prm))
                chk.count(("convention", base, vi, lab, n_pos, tuple(order)))
                try:
                    obj = call_with(fn, prm, vals, n_pos, order)
                except Exception as e:  # noqa: BLE001
                    bad.append({"what": f"{base}: calling convention rejected", "positional": n_pos, "keywords": order, "error": repr(e)[:300]})
                    continue
                diffs = []
                if type(obj) is not type(ref):
                    diffs.append("type")
                if obj.args != ref.args:
                    diffs.append(".args")
                if not (obj == ref) or hash(obj) != hash(ref):
                    diffs.append("==/hash")
                if sp.srepr(obj) != sp.srepr(ref):
                    diffs.append("srepr")
                if is_class:
                    if tuple(obj.args) != tuple(sp.sympify(v) for v in vals):
                        diffs.append(".args is not the field-declaration order")
                    for name, v in zip(prm, vals):
                        if getattr(obj, name) != v:
                            diffs.append(f"attribute {name}")
                    if sp.latex(obj) != sp.latex(ref):
                        diffs.append("latex")
                    if obj.func(*obj.args) != ref:
                        diffs.append("rebuild from .args")
                d_obj, d_ref = obj.doit(), ref.doit()
                if d_obj != d_ref:
                    diffs.append("doit()")
                if diffs:
                    bad.append({"what": f"{base}: result depends on the calling convention ({', '.join(diffs[:3])})",
                                "positional_args": n_pos, "keyword_order": order, "values": [str(v) for v in vals],
                                "keyword_call": {"args": [str(a) for a in obj.args], "doit": str(d_obj)[:200]},
                                "positional_call": {"args": [str(a) for a in ref.args], "doit": str(d_ref)[:200]}})
                    break
    return bad


def search(chk: common.Check, rng, n_events: int):
    """Independent oracle: the statement of C20 evaluated on the real code.

    Generates physical three-body events (decay at rest, numpy), computes the invariants from
    the four-momenta and compares with the library's functions; also checks the indicator
    against the PDG Dalitz limits on points of the bounding box."""
    import numpy as np
    import sympy as sp

    from ampform.kinematics import phasespace as ps

    s1, s2, s3, m0, m1, m2, m3, ov = sp.symbols("sigma1 sigma2 sigma3 m0 m1 m2 m3 ov", real=True)
    f_third = sp.lambdify([s1, s2, m0, m1, m2, m3], ps.compute_third_mandelstam(s1, s2, m0, m1, m2, m3), "numpy")
    f_kib = sp.lambdify([s1, s2, s3, m0, m1, m2, m3], ps.Kibble(s1, s2, s3, m0, m1, m2, m3).doit(), "numpy")
    # the same statement through other calling conventions (a user who writes keywords must get the
    # same physics): Kibble / third Mandelstam / indicator built by keywords in a random order
    bad = []
    objs = public_objects()
    import random

    main_rng = rng  # the calling-convention cases draw from a CHILD stream, so the older families keep their inputs
    _probe = random.Random(); _probe.setstate(main_rng.getstate())
    rng = random.Random(_probe.getrandbits(64) ^ 0xC20)
    kw_variants = []
    for k in range(4):
        row = {}
        for base, vals in (("Kibble", [s1, s2, s3, m0, m1, m2, m3]), ("thirdMandelstam", [s1, s2, m0, m1, m2, m3]),
                           ("isWithinPhasespace", [s1, s2, m0, m1, m2, m3, ov])):
            params = PARAMS[base]
            n_pos = 0 if k < 2 else rng.randrange(0, len(params))
            order = list(params[n_pos:]); rng.shuffle(order)
            try:
                row[base] = (sp.lambdify(vals, call_with(objs[base], params, vals, n_pos, order).doit(), "numpy"), n_pos, order)
            except Exception as e:  # noqa: BLE001
                bad.append({"what": f"{base}: calling convention rejected", "positional": n_pos, "keywords": order, "error": repr(e)[:300]})
        kw_variants.append(row)
    f_ind = sp.lambdify([s1, s2, m0, m1, m2, m3, ov], ps.is_within_phasespace(s1, s2, m0, m1, m2, m3, outside_value=ov).doit(), "numpy")
    f_kal = sp.lambdify([s1, s2, s3], ps.Kallen(s1, s2, s3).doit(), "numpy")
    bad += convention_oracle(chk, rng, 6 if n_events < 1000 else 40)
    conv_rng, rng = rng, main_rng
    for i in range(n_events):
        masses = [rng.choice([0.0, rng.uniform(0.01, 2.0)]) for _ in range(3)]
        M0 = sum(masses) + rng.uniform(0.05, 4.0)
        # two-step decay M0 -> (12) 3 with random m12, isotropic angles
        m12 = rng.uniform(masses[0] + masses[1], M0 - masses[2])
        def two_body(M, ma, mb):
            lam = (M * M - (ma + mb) ** 2) * (M * M - (ma - mb) ** 2)
            return math.sqrt(max(lam, 0.0)) / (2 * M) if M > 0 else 0.0
        def direction():
            c = rng.uniform(-1, 1); ph = rng.uniform(-math.pi, math.pi); s = math.sqrt(1 - c * c)
            return np.array([s * math.cos(ph), s * math.sin(ph), c])
        q = two_body(M0, m12, masses[2]); d = direction()
        p3 = np.array([math.sqrt(masses[2] ** 2 + q * q), *(-q * d)])
        p12 = np.array([math.sqrt(m12 ** 2 + q * q), *(q * d)])
        k = two_body(m12, masses[0], masses[1]); e = direction()
        p1r = np.array([math.sqrt(masses[0] ** 2 + k * k), *(k * e)])
        p2r = np.array([math.sqrt(masses[1] ** 2 + k * k), *(-k * e)])
        def boost(p, frame, M):
            b = frame[1:] / frame[0] if frame[0] else np.zeros(3)
            b2 = b @ b
            g = frame[0] / M if M > 0 else 1.0
            bp = b @ p[1:]
            g2 = (g - 1) / b2 if b2 > 0 else 0.0
            return np.array([g * (p[0] + bp), *(p[1:] + g2 * bp * b + g * b * p[0])])
        if m12 <= 1e-9:
            continue
        p1 = boost(p1r, p12, m12); p2 = boost(p2r, p12, m12)
        def msq(p): return p[0] ** 2 - p[1:] @ p[1:]
        S1, S2, S3 = msq(p2 + p3), msq(p1 + p3), msq(p1 + p2)
        scale = M0 ** 2
        third = float(f_third(S1, S2, M0, *masses))
        kib = float(f_kib(S1, S2, S3, M0, *masses))
        ind = float(f_ind(S1, S2, M0, *masses, -1.0))
        chk.count(("event", i))
        if i < 2:
            chk.sample({"event_masses": [M0, *masses], "sigma": [S1, S2, S3], "kibble": kib, "indicator": ind})
        tol_k = 1e-9 * scale ** 4
        if abs(third - S3) > 1e-9 * scale:
            bad.append({"what": "third Mandelstam", "masses": [M0, *masses], "sigma": [S1, S2, S3], "computed": third})
        if kib > tol_k:
            bad.append({"what": "Kibble > 0 on a physical event", "masses": [M0, *masses], "sigma": [S1, S2, S3], "kibble": kib})
        # indicator: only judged when the event is not numerically on the boundary
        kib_c = float(f_kib(S1, S2, third, M0, *masses))
        if kib_c < -tol_k and ind != 1.0:
            bad.append({"what": "indicator != 1 on a physical event", "masses": [M0, *masses], "sigma": [S1, S2, S3], "indicator": ind})
        row = kw_variants[i % len(kw_variants)]
        for base, val, tol, call_args in (("Kibble", kib, tol_k, (S1, S2, S3, M0, *masses)),
                                          ("thirdMandelstam", third, 1e-9 * scale, (S1, S2, M0, *masses)),
                                          ("isWithinPhasespace", ind, 0.0, (S1, S2, M0, *masses, -1.0))):
            if base not in row:
                continue
            f_kw, n_pos, order = row[base]
            v_kw = float(f_kw(*call_args))
            if not abs(v_kw - val) <= tol:
                bad.append({"what": f"{base} on a physical event: keyword-constructed value differs from the positional one",
                            "positional_args": n_pos, "keyword_order": order, "masses": [M0, *masses], "sigma": [S1, S2, S3],
                            "positional_value": val, "keyword_value": v_kw})
    # bounding-box grid vs PDG limits
    for i in range(n_events):
        masses = [rng.choice([0.0, rng.uniform(0.01, 2.0)]) for _ in range(3)]
        M0 = sum(masses) + rng.uniform(0.05, 4.0)
        m1_, m2_, m3_ = masses
        lo1, hi1 = (m2_ + m3_) ** 2, (M0 - m1_) ** 2
        lo2, hi2 = (m1_ + m3_) ** 2, (M0 - m2_) ** 2
        S1 = rng.uniform(lo1, hi1); S2 = rng.uniform(lo2, hi2)
        if S1 <= 1e-9:
            continue
        r = math.sqrt(S1)
        E3 = (S1 - m2_ ** 2 + m3_ ** 2) / (2 * r); E1 = (M0 ** 2 - S1 - m1_ ** 2) / (2 * r)
        a = math.sqrt(max(E1 * E1 - m1_ ** 2, 0)); b = math.sqrt(max(E3 * E3 - m3_ ** 2, 0))
        smin = (E1 + E3) ** 2 - (a + b) ** 2; smax = (E1 + E3) ** 2 - (a - b) ** 2
        margin = 1e-7 * M0 ** 2
        ind = float(f_ind(S1, S2, M0, *masses, -7.0))
        chk.count(("box", i))
        if smin + margin < S2 < smax - margin and ind != 1.0:
            bad.append({"what": "inside PDG limits but indicator != 1", "masses": [M0, *masses], "sigma1": S1, "sigma2": S2, "limits": [smin, smax], "indicator": ind})
        if (S2 < smin - margin or S2 > smax + margin) and ind != -7.0:
            bad.append({"what": "outside PDG limits but indicator is not the outside value", "masses": [M0, *masses], "sigma1": S1, "sigma2": S2, "limits": [smin, smax], "indicator": ind})
    # physical events exactly ON the Dalitz boundary (collinear momenta), evaluated exactly with
    # rationals: Kibble == 0 there and the indicator must still be 1
    tri = [(3, 4, 5), (8, 6, 10), (5, 12, 13), (8, 15, 17), (7, 24, 25), (20, 21, 29), (12, 35, 37), (9, 40, 41)]
    for i in range(12):
        (a, ma, ea), (b, mb, eb) = rng.sample(tri, 2)
        sa, sb = rng.choice([1, -1]), rng.choice([1, -1])
        pa, pb = sa * a, sb * b
        p1 = -(pa + pb)
        cands = [t for t in tri if t[0] == abs(p1)] or [(abs(p1), 0, abs(p1))]
        _, m1_, e1 = rng.choice(cands) if abs(p1) else (0, 7, 7)
        if abs(p1) and not [t for t in tri if t[0] == abs(p1)]:
            m1_, e1 = 0, abs(p1)  # massless third particle
        R = sp.Rational
        M0 = R(e1 + ea + eb)
        S1 = R((ea + eb) ** 2 - (pa + pb) ** 2)
        S2 = R((e1 + eb) ** 2 - (p1 + pb) ** 2)
        val = ps.is_within_phasespace(S1, S2, M0, R(m1_), R(ma), R(mb), outside_value=R(-7)).doit()
        kib = ps.Kibble(S1, S2, ps.compute_third_mandelstam(S1, S2, M0, R(m1_), R(ma), R(mb)), M0, R(m1_), R(ma), R(mb)).doit()
        chk.count(("boundary", i, a, b, sa, sb))
        if kib != 0 or val != 1:
            bad.append({"what": "collinear event on the Dalitz boundary: exact Kibble != 0 or indicator != 1",
                        "masses": [str(M0), m1_, ma, mb], "momenta_x": [p1, pa, pb], "sigma1": str(S1), "sigma2": str(S2),
                        "kibble_exact": str(kib), "indicator": str(val)})
    # construction with NUMBERS must agree with construction on symbols followed by substitution
    # (exact rationals; equal, zero and distinct masses) — the functions are ordinary Python
    # functions, so what they do with numeric arguments is not seen by translating their symbolic form
    R = sp.Rational
    sym_third = ps.compute_third_mandelstam(s1, s2, m0, m1, m2, m3)
    sym_ind = ps.is_within_phasespace(s1, s2, m0, m1, m2, m3, outside_value=ov)
    sym_kib = ps.Kibble(s1, s2, s3, m0, m1, m2, m3)
    for i in range(60 if n_events < 1000 else 300):
        pool = [R(0), R(rng.randint(1, 9), rng.randint(1, 9)), R(rng.randint(1, 9), rng.randint(1, 9))]
        ms = [rng.choice(pool) for _ in range(3)]  # equal masses are frequent on purpose
        M0 = sum(ms) + R(rng.randint(1, 20), 7)
        S1 = R(rng.randint(0, 200), 13)
        S2 = R(rng.randint(0, 200), 11)
        S3 = R(rng.randint(0, 200), 17)
        OV = rng.choice([R(-7), R(0), R(1, 3)])  # 0 is a legitimate (falsy) outside value
        zero = conv_rng.randrange(8)  # exactly-zero invariants (thresholds of massless pairs) in 3 of 8 cases
        if zero == 0:
            S1 = R(0)
        elif zero == 1:
            S2 = R(0)
        elif zero == 2:
            S3 = R(0)
        subs = {s1: S1, s2: S2, s3: S3, m0: M0, m1: ms[0], m2: ms[1], m3: ms[2], ov: OV}
        pairs = [
            ("compute_third_mandelstam", ps.compute_third_mandelstam(S1, S2, M0, *ms), sym_third.subs(subs)),
            ("Kibble", ps.Kibble(S1, S2, S3, M0, *ms).doit(), sym_kib.doit().subs(subs)),
            ("is_within_phasespace", ps.is_within_phasespace(S1, S2, M0, *ms, outside_value=OV).doit(), sym_ind.doit().subs(subs)),
            ("Kallen", ps.Kallen(S1, ms[0], ms[1]).doit(), ps.Kallen(s1, m1, m2).doit().subs(subs)),
        ]
        chk.count(("numeric-construction", i, tuple(map(str, ms))))
        for name, direct, via_symbols in pairs:
            if sp.nsimplify(direct) != sp.nsimplify(via_symbols):
                bad.append({"what": f"{name}: called with numbers differs from symbolic form with the numbers substituted",
                            "masses": [str(M0), *map(str, ms)], "sigma": [str(S1), str(S2), str(S3)],
                            "direct": str(direct), "via_symbols": str(via_symbols)})
                break
    # Kallen symmetry + factorisation
    for i in range(n_events):
        x_, y_, z_ = rng.uniform(-3, 20), rng.uniform(0, 20), rng.uniform(0, 20)
        v = float(f_kal(x_, y_, z_)); sc = max(1.0, x_ * x_, y_ * y_, z_ * z_)
        perms = [float(f_kal(*p)) for p in [(y_, x_, z_), (z_, y_, x_), (x_, z_, y_)]]
        fac = (x_ - (math.sqrt(y_) + math.sqrt(z_)) ** 2) * (x_ - (math.sqrt(y_) - math.sqrt(z_)) ** 2)
        chk.count(("kallen", i))
        if any(abs(v - p) > 1e-9 * sc for p in perms) or abs(v - fac) > 1e-9 * sc:
            bad.append({"what": "Kallen symmetry/factorisation", "xyz": [x_, y_, z_], "value": v, "perms": perms, "factorised": fac})
    return bad


PROP = T1Property(
    prop_id="C20",
    sources=SOURCES,
    namespace="C20",
    build_definitions=build_definitions,
    points=points,
    search=search,
    prop_modules=["Ampverif.Props.C20"],
    n_points={"quick": 40, "thorough": 400},
    n_search={"quick": 300, "thorough": 20000},
    expected_facts={"default_outside_value_is_nan": True},
)

MANIFEST = {
    "technique": "Lean 4 theorems over definitions regenerated from the source (translator), Float-twin validation, independent event oracle",
    "design_ref": "DESIGN.md §3 C20",
    "text": (
        "Proof. Kallen/Kibble/third-Mandelstam/indicator are re-translated from the working tree into Lean on every run "
        "— each through five calling conventions (positional; keywords in declaration, reversed and rotated order; positional prefix + "
        "out-of-order keywords), plus the unevaluated Kibble/Kallen nodes built by keywords — and 36 theorems are re-checked by the kernel: "
        "every keyword/mixed-convention definition equals the positional one (20, by rfl: the constructor glue must put `.args` in "
        "field-declaration order because evaluate() unpacks `.args` by position); total symmetry and factorisation of the Kallen function (all reals), "
        "sigma3 identity for every triple of four-momenta, Kibble = -64 m0^4 |p2 x p3|^2 <= 0 and indicator = 1 for every "
        "rest-frame event, and in ANY frame Kibble = 64 (H23^2 - H22 H33) <= 0 (reversed Cauchy-Schwarz for a time-like total "
        "momentum, proved from components) with indicator = 1 for every three four-momenta with time-like sum; Kibble = 16 m0^2 sigma1 (sigma2 - sigma2min)(sigma2 - sigma2max) and hence indicator = 1 iff sigma2 "
        "lies between the PDG limits for every point of the bounding box (sigma1 > 0). Unbounded in all real arguments. "
        "Oracle: physical events (also evaluated through keyword-constructed objects with random keyword orders), PDG box, exact boundary events, "
        "numbers vs symbols, and a calling-convention oracle (every split point, random permutations, outside_value omitted/positional/keyword; "
        "same ==/hash/.args/attributes/srepr/latex/doit as the positional call, on symbols, rationals and compound arguments)."
    ),
    "level_note": (
        "Trusted: Lean kernel + Mathlib (axioms propext, Classical.choice, Quot.sound); the sympy->Lean translator "
        "(validated each run: Lean Float twin vs numpy on the real lambdified code); floating-point evaluation of the lambdified code is executed, not modelled; "
        "the degenerate box corner sigma1 = 0 (m2 = m3 = 0) is excluded."
    ),
}
