"""C05 — spin alignment never changes a single-topology intensity.

Pieces (see MANIFEST at the bottom):
  T3  Wigner small-d tables for j <= 5/2 regenerated from the installed SymPy into
      lean/Ampverif/Gen/C05Wigner.lean together with the cofactors of `d dᵀ = 1` modulo c²+s²=1;
  proofs  lake build Ampverif.Props.C05 (+ axiom audit);
  T2a create_spin_range: real function vs Lean model, exhaustively for s = 0, 1/2, …, 10 × flag;
  T2b skeleton of the aligned amplitude: real `model.intensity` of corpus reactions vs Lean model;
  oracle  numeric three-way comparison NoAlignment / AxisAngle / DPD(1,2,3) on physical events.
"""

from __future__ import annotations

import json
import math
import re
import traceback
from fractions import Fraction
from pathlib import Path

from tools.lib import common

PROP_ID = "C05"
SOURCES = [
    "src/ampform/helicity/align/_spin.py",
    "src/ampform/helicity/align/axisangle.py",
    "src/ampform/helicity/align/dpd.py",
    "src/ampform/helicity/align/__init__.py",
    "src/ampform/kinematics/angles.py",
]
PROP_MODULES = ["Ampverif.Props.C05"]
DRIVER = "Ampverif/Drivers/C05.lean"
CORPUS = common.ROOT / "corpus" / "C05"
KNOWN_CLASS = "axis-angle alignment with massless spin>=1 final state"
# not (yet) listed in known_findings.json; judged only if the coordinator lists it (see notes/findings_C05.md)
DEEP_MASSLESS_CLASS = "axis-angle alignment with massless final state below a resonance"

# ============================================================================ T3: Wigner d tables

GEN_WIGNER = common.LEAN / "Ampverif" / "Gen" / "C05Wigner.lean"
JMAX2 = 5


def _lean_poly(poly, names) -> str:
    """sympy Poly with rational coefficients -> Lean real expression"""
    terms = []
    for monom, coeff in poly.terms():
        num, den = int(coeff.p), int(coeff.q)
        factors = []
        for n, e in zip(names, monom):
            if e == 1:
                factors.append(n)
            elif e > 1:
                factors.append(f"{n}^{e}")
        mag = f"({abs(num)}/{den} : ℝ)" if den != 1 else f"({abs(num)} : ℝ)"
        body = " * ".join(([mag] if (abs(num) != 1 or den != 1 or not factors) else []) + factors)
        terms.append(("-" if num < 0 else "+", body))
    if not terms:
        return "(0 : ℝ)"
    out = ""
    for i, (sign, body) in enumerate(terms):
        if i == 0:
            out += ("-" if sign == "-" else "") + body
        else:
            out += f" {sign} {body}"
    return out


def wigner_tables():
    """d^j(beta) for 2j = 0..5 from the installed SymPy as polynomials in c=cos(beta/2),
    s=sin(beta/2), r2, r3, r5 (= sqrt 2, 3, 5), each checked back against SymPy's expression,
    plus the cofactors of every entry of d dᵀ - 1 w.r.t. (c²+s²-1, r2²-2, r3²-3, r5²-5)."""
    import sympy as sp
    from sympy.physics.quantum.spin import Rotation

    c, s, r2, r3, r5 = sp.symbols("c s r2 r3 r5", real=True)
    beta, t = sp.symbols("beta t", real=True)
    prime_sym = {2: r2, 3: r3, 5: r5}
    gens = (c, s, r2, r3, r5)
    basis = [c**2 + s**2 - 1, r2**2 - 2, r3**2 - 3, r5**2 - 5]

    def sqrt_to_syms(e):
        def rep(p):
            n = int(p.base)
            out = sp.Integer(1)
            for q, mult in sp.factorint(n).items():
                if q not in prime_sym or mult != 1:
                    raise ValueError(f"unexpected square root sqrt({n}) in a Wigner d entry")
                out *= prime_sym[q]
            return out if p.exp == sp.Rational(1, 2) else out / n

        return e.replace(
            lambda x: x.is_Pow and x.exp in (sp.Rational(1, 2), sp.Rational(-1, 2)) and x.base.is_Integer, rep)

    def entry(j, m, mp):
        e = Rotation.d(j, m, mp, beta).doit()
        e2 = sp.expand(sp.expand_trig(e.subs(beta, 2 * t)))
        p = sp.expand(sqrt_to_syms(e2.subs({sp.cos(t): c, sp.sin(t): s})))
        if not p.free_symbols <= set(gens):
            raise ValueError(f"d^{j}_{m},{mp} is not a polynomial in cos(beta/2), sin(beta/2): {p}")
        poly = sp.Poly(p, *gens)
        if not all(co.is_Rational for co in poly.coeffs()):
            raise ValueError(f"non-rational coefficient in d^{j}_{m},{mp}: {p}")
        back = p.subs({r2: sp.sqrt(2), r3: sp.sqrt(3), r5: sp.sqrt(5), c: sp.cos(beta / 2), s: sp.sin(beta / 2)})
        for b0 in (sp.Rational(3, 7), sp.Rational(-11, 5), sp.Rational(29, 10)):
            if abs(sp.N((back - e).subs(beta, b0), 40)) > 1e-30:
                raise ValueError(f"half-angle rewriting of d^{j}_{m},{mp} does not reproduce SymPy's value")
        return poly

    tables = {}
    for j2 in range(JMAX2 + 1):
        j = sp.Rational(j2, 2)
        n = j2 + 1
        d = [[entry(j, -j + a, -j + b) for b in range(n)] for a in range(n)]
        cof = {}
        for a in range(n):
            for b in range(a, n):
                f = sum((d[a][k] * d[b][k] for k in range(n)), sp.Poly(0, *gens)) - (1 if a == b else 0)
                q, r = sp.reduced(f.as_expr(), basis, *gens)
                cof[(a, b)] = (q, r)
        tables[j2] = (d, cof)
    return tables, gens


def render_wigner(tables, gens, sympy_version: str) -> str:
    import sympy as sp

    names = [str(g) for g in gens]
    args = "(c s r2 r3 r5 : ℝ)"
    app = "c s r2 r3 r5"
    hyps = "(hcs : c^2 + s^2 = 1) (h2 : r2^2 = 2) (h3 : r3^2 = 3) (h5 : r5^2 = 5)"
    hnames = ["hcs", "h2", "h3", "h5"]
    L = [
        "/-",
        f"GENERATED by tools/props/C05.py from sympy {sympy_version} "
        "(`sympy.physics.quantum.spin.Rotation.d(j, m, mp, beta).doit()`) — do not edit.",
        "",
        "`dJ c s r2 r3 r5 a b` is the Wigner small-d element d^{j}_{m_a, m_b}(β) with j = J/2,",
        "m_a = -j + a, written in c = cos(β/2), s = sin(β/2), r_p = √p. Each `dJ_row_a_b` is one entry of",
        "`d dᵀ = 1`, proved with the cofactors of (c²+s²-1, r2²-2, r3²-3, r5²-5) computed by",
        "polynomial division in Python; `linear_combination` re-checks them, nothing is trusted.",
        "-/",
        "import Mathlib.Data.Real.Basic",
        "import Mathlib.Algebra.BigOperators.Group.Finset.Basic",
        "import Mathlib.Algebra.BigOperators.Intervals",
        "import Mathlib.Tactic.LinearCombination",
        "import Mathlib.Tactic.Ring",
        "",
        "set_option linter.unusedVariables false",
        "",
        "namespace Ampverif.Gen.C05Wigner",
        "",
        f"def jmax2 : ℕ := {JMAX2}",
        "",
    ]
    for j2, (d, cof) in tables.items():
        n = j2 + 1
        L.append(f"/-- d^{{{j2}/2}}(β), rows/columns m = -{j2}/2 … {j2}/2 -/")
        L.append(f"def d{j2} {args} : ℕ → ℕ → ℝ")
        for a in range(n):
            for b in range(n):
                L.append(f"  | {a}, {b} => {_lean_poly(d[a][b], names)}")
        L.append("  | _, _ => 0")
        L.append("")
        for (a, b), (q, r) in cof.items():
            rhs = "1" if a == b else "0"
            L.append(f"theorem d{j2}_row_{a}_{b} {args} {hyps} :")
            L.append(f"    ∑ k ∈ Finset.range {n}, d{j2} {app} {a} k * d{j2} {app} {b} k = {rhs} := by")
            L.append(f"  simp only [Finset.sum_range_succ, Finset.sum_range_zero, d{j2}]")
            if r != 0:
                # not an identity modulo the relations: emit the remainder so that the proof fails visibly
                L.append(f"  -- remainder {sp.sstr(r)} (SymPy's d is not orthogonal?)")
            combo = " + ".join(
                f"({_lean_poly(sp.Poly(qi, *gens), names)}) * {h}" for qi, h in zip(q, hnames) if qi != 0)
            L.append(f"  linear_combination {combo}" if combo else "  ring")
            L.append("")
        L.append(f"theorem d{j2}_row_orth {args} {hyps} :")
        L.append(f"    ∀ a b : ℕ, a < {n} → b < {n} →")
        L.append(f"      ∑ k ∈ Finset.range {n}, d{j2} {app} a k * d{j2} {app} b k = if a = b then 1 else 0")
        for a in range(n):
            for b in range(n):
                if a == b:
                    L.append(f"  | {a}, {b}, _, _ => by rw [if_pos rfl]; exact d{j2}_row_{a}_{b} {app} hcs h2 h3 h5")
                elif a < b:
                    L.append(f"  | {a}, {b}, _, _ => by rw [if_neg (by decide)]; exact d{j2}_row_{a}_{b} {app} hcs h2 h3 h5")
                else:
                    L.append(
                        f"  | {a}, {b}, _, _ => by rw [if_neg (by decide)]; "
                        f"exact (Finset.sum_congr rfl (fun k _ => mul_comm _ _)).trans (d{j2}_row_{b}_{a} {app} hcs h2 h3 h5)")
        L.append(f"  | a + {n}, _, h, _ => absurd h (by omega)")
        for a in range(n):
            L.append(f"  | {a}, b + {n}, _, h => absurd h (by omega)")
        L.append("")
    L.append("/-- all tables: `dtab J` is d^{J/2} for J ≤ 5 -/")
    L.append(f"def dtab : ℕ → ℝ → ℝ → ℝ → ℝ → ℝ → ℕ → ℕ → ℝ")
    for j2 in tables:
        L.append(f"  | {j2} => d{j2}")
    L.append("  | _ => fun _ _ _ _ _ _ _ => 0")
    L.append("")
    L.append(f"theorem dtab_row_orth (j2 : ℕ) (hj : j2 ≤ {JMAX2}) {args} {hyps} (a b : ℕ) (ha : a < j2 + 1) (hb : b < j2 + 1) :")
    L.append(f"    ∑ k ∈ Finset.range (j2 + 1), dtab j2 {app} a k * dtab j2 {app} b k = if a = b then 1 else 0 := by")
    L.append("  match j2, hj with")
    for j2 in tables:
        L.append(f"  | {j2}, _ => exact d{j2}_row_orth {app} hcs h2 h3 h5 a b ha hb")
    L.append(f"  | n + {JMAX2 + 1}, h => exact absurd h (by omega)")
    L.append("")
    L.append("end Ampverif.Gen.C05Wigner")
    return "\n".join(L) + "\n"


def regenerate_wigner() -> dict:
    import sympy as sp

    tables, gens = wigner_tables()
    text = render_wigner(tables, gens, sp.__version__)
    changed = common.write_if_changed(GEN_WIGNER, text)
    bad = [(j2, a, b) for j2, (_, cof) in tables.items() for (a, b), (_, r) in cof.items() if r != 0]
    return {"changed": changed, "entries": sum((j2 + 1) ** 2 for j2 in tables), "nonzero_remainders": bad,
            "sympy": sp.__version__}


def check_D_factorisation() -> list[str]:
    """SymPy's Rotation.D(j,m,mp,a,b,g) evaluates to exp(-I m a) d^j_{m,mp}(b) exp(-I mp g)
    (what `Dmat` in Lemmas/C05Wigner.lean assumes); returns the list of mismatches."""
    import sympy as sp
    from sympy.physics.quantum.spin import Rotation

    a, b, g = sp.symbols("alpha beta gamma", real=True)
    bad = []
    for j2 in range(JMAX2 + 1):
        j = sp.Rational(j2, 2)
        for x in range(j2 + 1):
            for y in range(j2 + 1):
                m, mp = -j + x, -j + y
                lhs = Rotation.D(j, m, mp, a, b, g).doit()
                rhs = sp.exp(-sp.I * m * a) * Rotation.d(j, m, mp, b).doit() * sp.exp(-sp.I * mp * g)
                diff = sp.expand(lhs - rhs)
                if diff != 0:
                    val = complex(diff.subs({a: 0.37, b: 1.21, g: -2.2}).evalf(30))
                    if abs(val) > 1e-25:
                        bad.append(f"D^{j}_{m},{mp}")
    return bad


class CaseTimeout(BaseException):  # not an Exception: must pass through `except Exception`
    pass


class time_limit:
    """cap on the CPU time (user+system, ITIMER_PROF) one case may consume — CPU time rather than wall time so
    that a loaded machine cannot turn a slow case into an alarm; an endless loop still trips it
    (the checks run in the main thread of a Unix process)"""

    def __init__(self, seconds: float):
        self.seconds = seconds

    def __enter__(self):
        import signal

        def handler(signum, frame):
            raise CaseTimeout(f"exceeded {self.seconds:.0f} s")

        self.old = signal.signal(signal.SIGPROF, handler)
        signal.setitimer(signal.ITIMER_PROF, self.seconds)
        return self

    def __exit__(self, *a):
        import signal

        signal.setitimer(signal.ITIMER_PROF, 0)
        signal.signal(signal.SIGPROF, self.old)
        return False


# ============================================================================ reactions

def load_reaction(name: str):
    import qrules

    return qrules.io.load(str(CORPUS / f"{name}.json"))


def replace_particle(reaction, old: str, **changes):
    """the same reaction with particle `old` replaced by a synthetic one (e.g. mass=0.0)"""
    import attrs
    from qrules.topology import FrozenDict
    from qrules.transition import ReactionInfo

    cache = {}
    new_transitions = []
    for t in reaction.transitions:
        states = {}
        for i, st in t.states.items():
            if st.particle.name == old:
                if old not in cache:
                    cache[old] = attrs.evolve(st.particle, **changes)
                st = attrs.evolve(st, particle=cache[old])
            states[i] = st
        new_transitions.append(attrs.evolve(t, states=FrozenDict(states)))
    return ReactionInfo(transitions=new_transitions, formalism=reaction.formalism)


# name, corpus file, particle substitution, tiers for: skeleton / numeric
CASES = [
    dict(name="lc_pKpi_Kstar", file="lc_pKpi_Kstar", numeric="quick"),
    dict(name="lc_pKpi_L1520", file="lc_pKpi_L1520", numeric="quick"),
    dict(name="d0_k0kpkm_a0", file="d0_k0kpkm_a0", numeric="thorough"),
    dict(name="jpsi_gpi0pi0_f0", file="jpsi_gpi0pi0_f0", numeric="quick"),
    dict(name="lc_nuKpi_Kstar", file="lc_pKpi_Kstar", numeric="quick",
         sub=("p", dict(name="nu(x)", mass=0.0, latex=r"\nu_x"))),
    dict(name="psi2S_jpsipipi_f0", file="psi2S_jpsipipi_f0", numeric="quick"),
    dict(name="jpsi_kpikpi_4body", file="jpsi_kpikpi_kstkst_4body", numeric="thorough"),
    dict(name="lc_pKpi_Delta", file="lc_pKpi_Delta", numeric="thorough"),
    dict(name="lc_nuKpi_L1520", file="lc_pKpi_L1520", numeric="thorough",
         sub=("p", dict(name="nu(x)", mass=0.0, latex=r"\nu_x"))),
    dict(name="jpsi_omegapipi_b1", file="jpsi_omegapipi_b1", numeric="thorough"),
    dict(name="jpsi_ppbarpi0_N1440", file="jpsi_ppbarpi0_N1440", numeric="thorough"),
    dict(name="b0_deltappbarpi_Deltabar", file="b0_deltappbarpi_Deltabar", numeric="thorough"),
    dict(name="b0_gravitino_Deltabar", file="b0_deltappbarpi_Deltabar", numeric="thorough",
         sub=("Delta(1232)++", dict(name="psi32(x)", mass=0.0, latex=r"\psi_{3/2}"))),
    dict(name="b0_deltappbarpi_N", file="b0_deltappbarpi_N", numeric="thorough"),
]


def get_case(case):
    r = load_reaction(case["file"])
    if case.get("sub"):
        r = replace_particle(r, case["sub"][0], **case["sub"][1])
    return r


def outer_ids(reaction):
    t = reaction.transitions[0]
    return list(t.initial_states) + sorted(t.final_states)


def state_infos(reaction):
    """(edge, 2*spin, massless, sorted doubled observed projections) per outer state — computed
    from the qrules objects only"""
    out = []
    for i in outer_ids(reaction):
        p = reaction.transitions[0].states[i].particle
        obs = sorted({int(2 * Fraction(t.states[i].spin_projection)) for t in reaction.transitions})
        out.append((i, int(2 * Fraction(p.spin)), int(p.mass == 0.0), obs))
    return out


def tree_string(topology) -> str:
    def rec(edge_id):
        node = topology.edges[edge_id].ending_node_id
        if node is None:
            return f"l{edge_id}"
        kids = sorted(topology.get_edge_ids_outgoing_from_node(node))
        if len(kids) != 2:
            raise ValueError("not an isobar topology")
        return f"n{edge_id}({rec(kids[0])},{rec(kids[1])})"

    (root,) = topology.incoming_edge_ids
    return rec(root)


def depth_of(topology, edge_id) -> int:
    d = 0
    e = topology.edges[edge_id]
    while e.originating_node_id is not None:
        d += 1
        (parent,) = topology.get_edge_ids_ingoing_to_node(e.originating_node_id)
        e = topology.edges[parent]
    return d


def classify(reaction) -> dict:
    """facts about a reaction that decide how a disagreement is judged"""
    infos = state_infos(reaction)
    topo = reaction.transitions[0].topology
    finals = infos[1:]
    complete = all(
        obs == ([-s2, s2] if (ml and s2 > 0) else list(range(-s2, s2 + 1, 2))) for _, s2, ml, obs in infos)
    return {
        "single_topology": len({t.topology for t in reaction.transitions}) == 1,
        "complete_helicity_sets": complete,
        "massless_boson_final": any(ml and s2 >= 2 for _, s2, ml, _ in finals),
        "massless_final": any(ml for _, _, ml, _ in finals),
        "massless_deep_final": any(ml and depth_of(topo, e) >= 2 for e, _, ml, _ in finals),
        "n_final": len(finals),
        "spins2": [s2 for _, s2, _, _ in infos],
    }


# ---------------------------------------------------------------------------- synthetic reactions
# final-state particle types: (spin, mass)
SYN_TYPES = {
    "nu": (Fraction(1, 2), 0.0),   # massless spin 1/2
    "gam": (Fraction(1), 0.0),     # massless spin 1 (axis-angle: known finding)
    "V": (Fraction(1), 0.78),      # massive spin 1
    "f": (Fraction(1, 2), 0.94),   # massive spin 1/2
    "S": (Fraction(0), 0.14),      # spin 0
}
# higher spins (HARDENING rule 5); used one at a time next to S / f
SYN_HIGH = {
    "D": (Fraction(3, 2), 1.23),   # massive spin 3/2
    "T": (Fraction(2), 1.27),      # massive spin 2
    "F": (Fraction(5, 2), 1.68),   # massive spin 5/2
}
SYN_ALL = {**SYN_TYPES, **SYN_HIGH}


def _projections(spin: Fraction, mass: float):
    s2 = int(2 * spin)
    if mass == 0.0 and s2 > 0:
        return [-spin, spin]
    return [-spin + i for i in range(s2 + 1)]


def synthetic_topologies():
    """single topologies used for the placement sweep: the three 3-body labelings (which final
    state is the spectator) and two 4-body shapes"""
    from qrules.topology import create_isobar_topologies

    base = create_isobar_topologies(3)[0]  # edge 0 spectator, resonance -> 1, 2
    out = {"3:spect0": base}
    out["3:spect1"] = base.relabel_edges({0: 1, 1: 0})
    out["3:spect2"] = base.relabel_edges({0: 2, 2: 0})
    for k, t in enumerate(create_isobar_topologies(4)):
        out[f"4:shape{k}"] = t
    return out


def synthetic_reaction(topology, types, j0_extra: int = 0, minimal: bool = False):
    """hand-built single-topology reaction: every helicity combination with |l1 - l2| <= J at every
    node. Default: resonance/initial spins 0, 1/2 or 1 by a fixed rule. `minimal`: every decaying
    state gets the smallest spin |s1 - s2| for which all helicities of both children occur (complete
    helicity sets at low cost), the initial state `j0_extra` units more (initial spins 0, 1/2, 1, 3/2, ...)."""
    import itertools

    from qrules.particle import Particle
    from qrules.quantum_numbers import InteractionProperties
    from qrules.topology import FrozenTransition
    from qrules.transition import ReactionInfo, State

    (root,) = topology.incoming_edge_ids
    spin, mass = {}, {}
    for i, t in enumerate(types):
        spin[i], mass[i] = SYN_ALL[t]

    def fill(edge):
        node = topology.edges[edge].ending_node_id
        if node is None:
            return int(2 * spin[edge])
        kids = sorted(topology.get_edge_ids_outgoing_from_node(node))
        tot = [fill(k) for k in kids]
        if minimal:
            spin[edge] = abs(spin[kids[0]] - spin[kids[1]]) + (j0_extra if edge == root else 0)
        elif sum(tot) % 2:
            spin[edge] = Fraction(1, 2)
        else:
            spin[edge] = Fraction(0) if all(spin[k] == 0 for k in kids) else Fraction(1)
        mass[edge] = sum(mass[k] for k in kids) + (3.0 if edge == root else 0.3)
        return int(2 * spin[edge])

    fill(root)
    particles = {}
    for e in topology.edges:
        name = f"{types[e]}{e}" if e in range(len(types)) else ("A" if e == root else f"R{e}")
        particles[e] = Particle(name=name, pid=1000 + e, spin=float(spin[e]), mass=mass[e], width=0.0)
    ids = sorted(topology.edges)
    pools = [_projections(spin[e], mass[e]) for e in ids]
    transitions = []
    for combo in itertools.product(*pools):
        lam = dict(zip(ids, combo))
        ok = True
        for node in topology.nodes:
            (parent,) = topology.get_edge_ids_ingoing_to_node(node)
            c1, c2 = sorted(topology.get_edge_ids_outgoing_from_node(node))
            if abs(lam[c1] - lam[c2]) > spin[parent]:
                ok = False
                break
        if ok:
            states = {e: State(particles[e], float(lam[e])) for e in ids}
            transitions.append(FrozenTransition(topology, states, {n: InteractionProperties() for n in topology.nodes}))
    return ReactionInfo(transitions, formalism="helicity")


def synthetic_cases():
    """(name, topology key, types, is_mixed). `mixed` = exactly one massless spin-1/2 and one massive
    spin-1 particle, the rest spin 0: every ordered placement on every topology. 3-body additionally:
    every assignment of the five types to the three slots."""
    import itertools

    cases = []
    seen = set()
    for key, n in (("3:spect0", 3), ("3:spect1", 3), ("3:spect2", 3), ("4:shape0", 4), ("4:shape1", 4)):
        for a, b in itertools.permutations(range(n), 2):
            types = ["S"] * n
            types[a], types[b] = "nu", "V"
            cases.append((f"syn{key}:" + ",".join(types), key, tuple(types), True, {}))
            seen.add((key, tuple(types)))
    for key in ("3:spect0", "3:spect1", "3:spect2"):
        for types in itertools.product(SYN_TYPES, repeat=3):
            if (key, types) not in seen:
                cases.append((f"syn{key}:" + ",".join(types), key, types, False, {}))
    # higher spins 3/2, 2, 5/2 in every slot of every spectator choice, next to spin 0 / spin 1/2,
    # with minimal-complete resonance spins and initial spins j0 and j0 + 1
    for key in ("3:spect0", "3:spect1", "3:spect2"):
        for slot in range(3):
            for high in SYN_HIGH:
                for other in ("S", "f"):
                    types = [other] * 3
                    types[slot] = high
                    if other == "f":
                        types[(slot + 1) % 3] = "S"
                    for extra in (0, 1):
                        cases.append((f"syn{key}:" + ",".join(types) + f":min+{extra}", key, tuple(types), False,
                                      {"minimal": True, "j0_extra": extra}))
    # minimal-complete variants of the low-spin types: initial spins 0 / 1/2 (and +1), equal masses (S,S), (f,f), (V,V)
    for key in ("3:spect0", "3:spect1", "3:spect2"):
        for types in (("S", "f", "f"), ("f", "f", "S"), ("V", "V", "S"), ("S", "V", "V"), ("f", "S", "V"), ("nu", "nu", "S"),
                      ("V", "f", "S"), ("f", "V", "f")):
            for extra in (0, 1):
                cases.append((f"syn{key}:" + ",".join(types) + f":min+{extra}", key, types, False,
                              {"minimal": True, "j0_extra": extra}))
    return cases


ALIGNMENTS = ["none", "axis", "dpd1", "dpd2", "dpd3"]


def formulate(reaction, align: str, robust_masses: bool = True, helicity_couplings: bool = False):
    """the real model for (reaction, alignment); DPD works on relabelled edge ids"""
    import ampform
    from ampform.helicity.align import NoAlignment
    from ampform.helicity.align.axisangle import AxisAngleAlignment
    from ampform.helicity.align.dpd import DalitzPlotDecomposition, relabel_edge_ids

    if align.startswith("dpd"):
        reaction = relabel_edge_ids(reaction)
        alignment = DalitzPlotDecomposition(reference_subsystem=int(align[3]))
    elif align == "axis":
        alignment = AxisAngleAlignment()
    else:
        alignment = NoAlignment()
    builder = ampform.get_builder(reaction)
    builder.config.spin_alignment = alignment
    if robust_masses:
        builder.config.scalar_initial_state_mass = True
        builder.config.stable_final_state_ids = list(reaction.final_state)
    if helicity_couplings:
        builder.config.use_helicity_couplings = True
    return builder.formulate(), reaction


def make_alignment(align: str):
    from ampform.helicity.align import NoAlignment
    from ampform.helicity.align.axisangle import AxisAngleAlignment
    from ampform.helicity.align.dpd import DalitzPlotDecomposition

    if align.startswith("dpd"):
        return DalitzPlotDecomposition(reference_subsystem=int(align[3]))
    return AxisAngleAlignment() if align == "axis" else NoAlignment()


def model_fingerprint(model) -> dict:
    """what must not depend on what was formulated before"""
    import sympy as sp

    return {
        "intensity": sp.srepr(model.intensity),
        "amplitudes": sorted((sp.srepr(k), sp.srepr(sp.sympify(v))) for k, v in model.amplitudes.items()),
        "parameters": sorted(str(k) for k in model.parameter_defaults),
        "kinematic_variables": sorted((str(k), sp.srepr(v)) for k, v in model.kinematic_variables.items()),
    }


def history_probe(reaction, sequences) -> list[dict]:
    """HARDENING rule 3: drive ONE builder through alignment sequences and compare every model with
    the model of a fresh builder (the DPD amplitude is functools.cache'd and its angle dict is mutable;
    a caller may also write into the dict `define_symbols` returns)."""
    import ampform
    from ampform.helicity.align.dpd import relabel_edge_ids

    problems = []
    for relabel, seq in sequences:
        rr = relabel_edge_ids(reaction) if relabel else reaction

        def fresh(align):
            b = ampform.get_builder(rr)
            b.config.spin_alignment = make_alignment(align)
            b.config.scalar_initial_state_mass = True
            b.config.stable_final_state_ids = list(rr.final_state)
            return model_fingerprint(b.formulate())

        reference = {a: fresh(a) for a in dict.fromkeys(seq)}
        builder = ampform.get_builder(rr)
        builder.config.scalar_initial_state_mass = True
        builder.config.stable_final_state_ids = list(rr.final_state)
        for step, align in enumerate(seq):
            alignment = make_alignment(align)
            builder.config.spin_alignment = alignment
            got = model_fingerprint(builder.formulate())
            # a caller scribbles into what the public API handed out
            symbols = alignment.define_symbols(rr)
            symbols.clear()
            for field in got:
                if got[field] != reference[align][field]:
                    problems.append({"sequence": list(seq), "step": step, "alignment": align, "field": field,
                                     "relabelled": relabel})
        again = {a: fresh(a) for a in dict.fromkeys(seq)}
        for a in again:
            if again[a] != reference[a]:
                problems.append({"sequence": list(seq), "step": "fresh builder afterwards", "alignment": a,
                                 "field": [f for f in again[a] if again[a][f] != reference[a][f]], "relabelled": relabel})
    return problems


HISTORY_SEQUENCES = [
    (False, ["none", "axis", "none", "axis"]),
    (True, ["none", "dpd1", "dpd2", "dpd3", "dpd1", "none"]),
]


def formulate_amplitude_only(reaction, align: str):
    """`SpinAlignment.formulate_amplitude(reaction)` — the alignment code alone, without the builder"""
    from ampform.helicity.align import NoAlignment
    from ampform.helicity.align.axisangle import AxisAngleAlignment
    from ampform.helicity.align.dpd import DalitzPlotDecomposition, relabel_edge_ids

    if align.startswith("dpd"):
        reaction = relabel_edge_ids(reaction)
        return DalitzPlotDecomposition(reference_subsystem=int(align[3])).formulate_amplitude(reaction), reaction
    if align == "axis":
        return AxisAngleAlignment().formulate_amplitude(reaction), reaction
    return NoAlignment().formulate_amplitude(reaction), reaction


# ============================================================================ helicity-set histories
# Reactions that share topology and particles but differ in their HELICITY SETS (what qrules generates when
# the helicities of a state are given as a list, e.g. a J/psi from e+e-: [-1, +1]), formulated one after the
# other in ONE process: the aligned amplitude sums over the helicities collected from the reaction's
# transitions, so everything that remembers an aligned amplitude must tell such reactions apart.

def restrict_reaction(reaction, allowed: dict):
    """the reaction with those transitions only in which every outer state `e` of `allowed` has a doubled spin
    projection in `allowed[e]` (same topology, same particles); None if no transition is left"""
    from qrules.transition import ReactionInfo

    if not allowed:
        return reaction
    keep = [t for t in reaction.transitions
            if all(int(2 * Fraction(t.states[e].spin_projection)) in pool for e, pool in allowed.items())]
    if not keep:
        return None
    return ReactionInfo(transitions=keep, formalism=reaction.formalism)


def fresh_family(reaction, k: int):
    """the same reaction with the initial-state mass shifted by k * 1e-7 (relative): a reaction object this
    process has not formulated before in any variant, so that the FIRST step of a history is a fresh formulation"""
    t = reaction.transitions[0]
    (i0,) = t.initial_states
    p = t.states[i0].particle
    return replace_particle(reaction, p.name, mass=p.mass * (1 + 1e-7 * k))


def helicity_subsets(obs: list[int]) -> list[tuple[str, list[int]]]:
    """proper non-empty subsets of an observed pool (doubled projections): without 0 (e+e- -> J/psi), one
    extreme only, 0 only, without the largest"""
    out = []
    if 0 in obs and len(obs) >= 3:
        out.append(("no0", [x for x in obs if x != 0]))
    out.append(("max", [max(obs)]))
    out.append(("min", [min(obs)]))
    if 0 in obs:
        out.append(("zero", [0]))
    if len(obs) >= 3:
        out.append(("nomax", [x for x in obs if x != max(obs)]))
    seen, res = set(), []
    for name, s in out:
        if tuple(s) not in seen and 0 < len(s) < len(obs):
            seen.add(tuple(s))
            res.append((name, s))
    return res


def helicity_histories(infos, rng) -> list[list[dict]]:
    """histories (lists of `allowed` dicts, {} = the reaction as it is) for one base reaction: for every outer
    state with >= 2 observed projections restricted-then-complete and complete-then-restricted, two different
    subsets of the same state one after the other, and subsets of two different states (initial vs final, final
    vs final) one after the other. The first history of the initial state always drops projection 0 if it can."""
    spinful = [(e, obs) for e, _, _, obs in infos if len(obs) >= 2]
    hist = []
    for e, obs in spinful:
        subs = helicity_subsets(obs)
        hist.append([{e: subs[0][1]}, {}])
        hist.append([{}, {e: rng.choice(subs)[1]}])
        if len(subs) >= 2:
            a, b = rng.sample(subs, 2)
            hist.append([{e: a[1]}, {e: b[1]}, {}])
    if len(spinful) >= 2:
        (e1, o1), (e2, o2) = rng.sample(spinful, 2)
        a, b = rng.choice(helicity_subsets(o1))[1], rng.choice(helicity_subsets(o2))[1]
        hist.append([{e1: a}, {e2: b}, {e1: a, e2: b}, {}])
    return hist


def allowed_label(allowed: dict) -> str:
    return "full" if not allowed else ";".join(f"{e}in{','.join(map(str, p))}" for e, p in sorted(allowed.items()))


# ============================================================================ T2b: skeleton extraction

GREEK =("lambda", "mu", "nu", "xi", "alpha", "beta", "gamma")


class ExtractionError(Exception):
    pass


def extract_skeleton(model, reaction, align: str, amplitude_only: bool = False) -> list[str]:
    """canonical skeleton lines of the REAL `model.intensity` (same format as the Lean driver);
    with `amplitude_only`, `model` is the expression returned by `SpinAlignment.formulate_amplitude`
    and the `outer` lines (which come from the builder) are left out"""
    import sympy as sp
    from sympy.physics.quantum.spin import WignerD

    from ampform.helicity.naming import (
        create_spin_projection_symbol,
        get_helicity_angle_symbols,
        get_helicity_suffix,
    )
    from ampform.sympy import PoolSum

    topo = reaction.transitions[0].topology
    ids = outer_ids(reaction)
    finals = sorted(topo.outgoing_edge_ids)
    var = {}
    for i in ids:
        var[create_spin_projection_symbol(i)] = f"m:{i}"
    if align == "axis":
        from ampform.helicity.align import axisangle

        greek = getattr(axisangle, "__GREEK_INDEX_NAMES", GREEK)
        for e in finals:
            suffix = get_helicity_suffix(topo, e)
            for k, root in enumerate(greek):
                var[sp.Symbol(f"{root}{suffix}", rational=True)] = f"g{k}:{e}"
    elif align.startswith("dpd"):
        for k, sym in enumerate(sp.symbols(R"\lambda_(:4)^", rational=True)):
            var[sym] = f"g0:{k}"
    angle = {}
    for e in sorted(set(topo.edges) - set(topo.incoming_edge_ids)):
        phi, theta = get_helicity_angle_symbols(topo, e)
        angle[(phi, theta, sp.Integer(0))] = f"hel:{e}"
    for e in finals:
        suffix = get_helicity_suffix(topo, e)
        key = tuple(sp.Symbol(f"{n}{suffix}", real=True) for n in ("alpha", "beta", "gamma"))
        angle[key] = f"wig:{e}"
    for i in range(4):
        for j in (1, 2, 3):
            for k in (1, 2, 3):
                z = sp.Symbol(Rf"\zeta^{i}_{{{j}({k})}}", real=True)
                angle[(sp.Integer(0), z, sp.Integer(0))] = f"zeta:{i}:{j}:{k}"

    def pool(values):
        out = []
        for v in values:
            d = 2 * sp.Rational(v)
            if not d.is_Integer:
                raise ExtractionError(f"pool value {v} is not a half-integer")
            out.append(int(d))
        return out

    def amplitude_lines(amp):
        if isinstance(amp, PoolSum):
            inner, sums = amp.expression, list(amp.indices)
        else:
            inner, sums = amp, []
        lines_amp, factors = None, []
        for f in sp.Mul.make_args(inner):
            if isinstance(f, sp.Indexed):
                if lines_amp is not None:
                    raise ExtractionError("more than one amplitude symbol in the summand")
                entries = []
                for idx in f.indices:
                    if idx in var:
                        entries.append("+" + var[idx])
                    elif isinstance(idx, sp.Mul) and len(idx.args) == 2 and idx.args[0] == -1 and idx.args[1] in var:
                        entries.append("-" + var[idx.args[1]])
                    else:
                        raise ExtractionError(f"unexpected amplitude index {idx}")
                lines_amp = "amp " + " ".join(entries)
            elif isinstance(f, WignerD):
                j, m, mp, a, b, g = f.args
                if m not in var or mp not in var:
                    raise ExtractionError(f"Wigner factor with unexpected indices: {f}")
                if (a, b, g) not in angle:
                    raise ExtractionError(f"Wigner factor with unexpected angles: {f}")
                j2 = 2 * sp.Rational(j)
                if not j2.is_Integer:
                    raise ExtractionError(f"spin {j}")
                factors.append(f"factor {int(j2)} {var[m]} {var[mp]} {angle[(a, b, g)]}")
            elif f == 1:
                continue
            else:
                raise ExtractionError(f"unexpected factor {sp.srepr(f)[:160]}")
        if lines_amp is None:
            raise ExtractionError("no amplitude symbol in the summand")
        sum_lines = []
        for sym, values in sums:
            if sym not in var:
                raise ExtractionError(f"unexpected summation index {sym}")
            sum_lines.append(f"sum {var[sym]} " + " ".join(map(str, pool(values))))
        return [lines_amp, *factors, *sum_lines]

    if amplitude_only:
        return canon(amplitude_lines(model))
    top = model.intensity
    if not isinstance(top, PoolSum):
        raise ExtractionError(f"intensity is a {type(top).__name__}, not a PoolSum")
    body = top.expression
    if not (isinstance(body, sp.Pow) and body.exp == 2 and isinstance(body.base, sp.Abs)):
        raise ExtractionError(f"intensity summand is not Abs(...)**2: {sp.srepr(body)[:120]}")
    outer_lines = []
    for sym, values in top.indices:
        if sym not in var:
            raise ExtractionError(f"unexpected outer index {sym}")
        outer_lines.append(f"outer {var[sym]} " + " ".join(map(str, sorted(pool(values)))))
    return canon([*amplitude_lines(body.base.args[0]), *outer_lines])


def canon(lines: list[str]) -> list[str]:
    """order of factors and of summation indices is irrelevant (finite sums, commutative product)"""
    amp = [l for l in lines if l.startswith("amp ")]
    fac = sorted(l for l in lines if l.startswith("factor "))
    sums = sorted((l for l in lines if l.startswith("sum ")), key=lambda l: (int(l.split()[1].split(":")[1]), l.split()[1]))
    outer = [l for l in lines if l.startswith("outer ")]
    rest = [l for l in lines if not l.startswith(("amp ", "factor ", "sum ", "outer "))]
    return amp + fac + sums + outer + rest


def skeleton_request(reaction, align: str, variant: int) -> str:
    topo = reaction.transitions[0].topology
    states = " ".join(f"{e}:{s2}:{ml}:{','.join(map(str, obs))}" for e, s2, ml, obs in state_infos(reaction))
    return f"skel {align} {variant} {tree_string(topo)} {states}"


# ============================================================================ T2a: create_spin_range

_CALL_LOG: list[str] = []  # every create_spin_range call of this process made by the harness, in order


def _log_call(value, flag, scribble, result):
    _CALL_LOG.append(f"create_spin_range({value!r}, no_zero_spin={flag})" + (" ; result.append(99.0)" if scribble else "")
                     + f" -> {result}")
    return result


def call_history(n: int = 12) -> dict:
    return {"note": "same process; before these calls the run formulated the aligned models of the corpus "
                    "(axis-angle with a massless spin-1 final state among them)",
            "harness_calls_so_far": len(_CALL_LOG), "last_calls": _CALL_LOG[-n:]}


def real_range(value, flag, scribble: bool = False):
    try:
        with time_limit(3):
            res = _real_range(value, flag, scribble)
    except CaseTimeout:
        res = "Timeout"
    return _log_call(value, flag, scribble, res)


def _real_range(value, flag, scribble: bool = False):
    from ampform.helicity.align._spin import create_spin_range

    try:
        res = create_spin_range(value, no_zero_spin=flag)
    except ValueError:
        return "ValueError"
    except Exception as e:  # noqa: BLE001
        return "Other:" + type(e).__name__
    out = []
    for x in res:
        d = 2 * x
        if d != int(d):
            return f"non-half-integer:{x!r}"
        out.append(int(d))
    if scribble:
        res.append(99.0)  # a caller may do what it likes with the returned list
    return " ".join(["ok", *map(str, out)])


def expected_range(s2: int, flag: bool) -> str:
    """the property statement itself: -s..s in unit steps (minus 0 iff flag, s integer, s > 0)"""
    vals = list(range(-s2, s2 + 1, 2))
    if flag and s2 % 2 == 0 and s2 > 0:
        vals.remove(0)
    return " ".join(["ok", *map(str, vals)])


# ============================================================================ numeric oracle

def phase_space(rng, m0: float, masses: list[float], n: int):
    """n physical events of m0 -> masses in the rest frame (sequential two-body decays with
    uniformly drawn intermediate masses; not flat, but every event is physical). Returns a
    list over particles of (n, 4) arrays [E, px, py, pz]."""
    import numpy as np

    def two_body(M, ma, mb):
        lam = (M * M - (ma + mb) ** 2) * (M * M - (ma - mb) ** 2)
        return math.sqrt(max(lam, 0.0)) / (2 * M)

    def direction():
        c = rng.uniform(-1, 1)
        ph = rng.uniform(-math.pi, math.pi)
        s = math.sqrt(1 - c * c)
        return np.array([s * math.cos(ph), s * math.sin(ph), c])

    def boost(p, frame, M):
        b = frame[1:] / frame[0]
        b2 = b @ b
        g = frame[0] / M
        bp = b @ p[1:]
        g2 = (g - 1) / b2 if b2 > 0 else 0.0
        return np.array([g * (p[0] + bp), *(p[1:] + g2 * bp * b + g * b * p[0])])

    k = len(masses)
    events = [[] for _ in range(k)]
    for _ in range(n):
        # system masses M_k = m0 > M_{k-1} > ... > M_1 = masses[0]; M_i is the mass of particles 0..i-1
        margin = 0.02 * (m0 - sum(masses))
        sys_m = [0.0] * (k + 1)
        sys_m[k] = m0
        for i in range(k - 1, 1, -1):
            lo = sum(masses[:i]) + margin
            hi = sys_m[i + 1] - masses[i] - margin
            sys_m[i] = rng.uniform(lo, hi)
        sys_m[1] = masses[0]
        frame = np.array([m0, 0.0, 0.0, 0.0])
        momenta = [None] * k
        for i in range(k, 1, -1):
            M = sys_m[i]
            q = two_body(M, sys_m[i - 1], masses[i - 1])
            d = direction()
            p_last = np.array([math.sqrt(masses[i - 1] ** 2 + q * q), *(-q * d)])
            p_sys = np.array([math.sqrt(sys_m[i - 1] ** 2 + q * q), *(q * d)])
            if i < k:
                p_last = boost(p_last, frame, M)
                p_sys = boost(p_sys, frame, M)
            momenta[i - 1] = p_last
            frame = p_sys
        momenta[0] = frame
        for i in range(k):
            events[i].append(momenta[i])
    return [np.array(v) for v in events]


def evaluate_model(model, momenta: dict, params: dict):
    """numeric intensity of the real model: kinematic variables, amplitudes and the top
    expression (PoolSums unfolded by the library's own `evaluate`) are lambdified separately and
    composed; equivalent to lambdifying `model.expression`, but much faster."""
    import numpy as np
    import sympy as sp

    from ampform.sympy import PoolSum

    n = len(next(iter(momenta.values())))
    kin = {}
    kin_syms = sorted({s for e in model.kinematic_variables.values() for s in e.free_symbols}, key=str)
    kin_args = []
    for s in kin_syms:
        if str(s) in momenta:
            kin_args.append(momenta[str(s)])
        elif s in params:
            kin_args.append(params[s])
        else:
            raise KeyError(f"kinematic variables depend on {s}")
    with np.errstate(all="ignore"):
        for sym, expr in model.kinematic_variables.items():
            f = sp.lambdify(kin_syms, expr.doit(), "numpy", cse=True)
            kin[sym] = f(*kin_args)

    def value_of(s):
        if s in params:
            return params[s]
        if s in kin:
            return kin[s]
        raise KeyError(f"symbol {s} is neither a parameter nor a kinematic variable")

    amps = {}
    with np.errstate(all="ignore"):
        for a, expr in model.amplitudes.items():
            e = expr.doit()
            fs = sorted(e.free_symbols, key=str)
            if not fs:
                amps[a] = complex(e)
                continue
            f = sp.lambdify(fs, e, "numpy", cse=True)
            amps[a] = f(*[value_of(s) for s in fs])
    top = model.intensity.evaluate()
    for node in list(sp.postorder_traversal(top)):
        if isinstance(node, PoolSum):
            top = top.xreplace({node: node.evaluate()})
    indexed = sorted(top.atoms(sp.Indexed), key=str)
    undefined = [str(a) for a in indexed if a not in amps]
    if undefined:
        raise KeyError(f"intensity refers to undefined amplitudes {undefined[:4]}")
    from sympy.physics.quantum.spin import WignerD

    dummies = {a: sp.Dummy(f"A{i}", complex=True) for i, a in enumerate(indexed)}
    values = {d: amps[a] for a, d in dummies.items()}
    # every distinct Wigner function of the alignment is evaluated once (SymPy's own `doit`), the
    # unfolded sum is then a polynomial in these values and the amplitudes
    with np.errstate(all="ignore"):
        for k, w in enumerate(sorted(top.atoms(WignerD), key=str)):
            d = sp.Dummy(f"W{k}", complex=True)
            e = w.doit()
            fs = sorted(e.free_symbols, key=str)
            values[d] = complex(e) if not fs else sp.lambdify(fs, e, "numpy")(*[value_of(s) for s in fs])
            dummies[w] = d
    top = top.xreplace(dummies).doit()
    fs = sorted(top.free_symbols, key=str)
    f = sp.lambdify(fs, top, "numpy", cse=True)
    with np.errstate(all="ignore"):
        res = f(*[values[s] if s in values else value_of(s) for s in fs])
    return np.real(res) * np.ones(n), np.imag(res) * np.ones(n)


def random_parameters(model, rng):
    params = {}
    for s in sorted(model.parameter_defaults, key=str):
        if s.name.startswith(("C_", "H_")):
            params[s] = complex(rng.uniform(-1, 1), rng.uniform(-1, 1))
        else:
            params[s] = model.parameter_defaults[s]
    return params


def numeric_case(case, reaction, seed_rng, n_events: int, robust: bool = True, helicity_couplings: bool = False,
                 prelude=()):
    """intensities of the five models of one reaction at the same events and couplings. `prelude`: reactions
    whose five models are formulated first, in the same process (a history; their models are not evaluated)"""
    import numpy as np

    for earlier in prelude:
        n_fin = len(outer_ids(earlier)) - 1
        for align in ["none", "axis"] + (["dpd1", "dpd2", "dpd3"] if n_fin == 3 else []):
            try:
                formulate(earlier, align, robust, helicity_couplings)
            except Exception:  # noqa: BLE001, S110 - only the models of `reaction` are judged here
                pass

    ids = outer_ids(reaction)
    finals = ids[1:]
    m0 = reaction.transitions[0].states[ids[0]].particle.mass
    masses = [reaction.transitions[0].states[i].particle.mass for i in finals]
    ev_seed = seed_rng.random()
    import random

    events = phase_space(random.Random(f"ev{ev_seed}"), m0, masses, n_events)
    par_seed = seed_rng.random()
    aligns = ["none", "axis"] + (["dpd1", "dpd2", "dpd3"] if len(finals) == 3 else [])
    out = {}
    for align in aligns:
        try:
            model, rr = formulate(reaction, align, robust, helicity_couplings)
        except Exception as e:  # noqa: BLE001
            out[align] = {"error": "formulate", "detail": "".join(traceback.format_exception_only(type(e), e))[-400:]}
            continue
        fin = sorted(rr.final_state)
        momenta = {f"p{i}": events[k] for k, i in enumerate(fin)}
        params = random_parameters(model, random.Random(f"par{par_seed}"))
        try:
            re_, im_ = evaluate_model(model, momenta, params)
            out[align] = {"values": re_, "imag": float(np.nanmax(np.abs(im_))) if len(im_) else 0.0}
        except Exception as e:  # noqa: BLE001
            out[align] = {"error": "evaluate", "detail": "".join(traceback.format_exception_only(type(e), e))[-400:]}
    return out, events


def hashseed_digest() -> dict:
    """run in a fresh process (PYTHONHASHSEED set by the caller): the aligned amplitudes of the corpus
    reactions, once as printed (iteration orders visible) and once canonicalised"""
    import hashlib

    import sympy as sp

    common.use_repo_source()
    raw, canonical = [], []
    for case in CASES:
        reaction = get_case(case)
        cls = classify(reaction)
        if not cls["single_topology"]:
            continue
        for align in ["axis"] + (["dpd1", "dpd2", "dpd3"] if cls["n_final"] == 3 else []):
            expr, rr = formulate_amplitude_only(reaction, align)
            raw.append(sp.srepr(expr))
            canonical.append("|".join(extract_skeleton(expr, rr, align, amplitude_only=True)))
    return {"raw": hashlib.sha1("\n".join(raw).encode()).hexdigest(),
            "canonical": hashlib.sha1("\n".join(canonical).encode()).hexdigest()}


def subprocess_timeout():
    import subprocess

    return subprocess.TimeoutExpired


def hashseed_probe(seeds=(1, 2, 3, 4)) -> dict:
    import os
    import subprocess

    out = {}
    for hs in seeds:
        env = dict(os.environ, PYTHONHASHSEED=str(hs))
        p = subprocess.run([common.PY, "-c", "import json; from tools.props import C05; print('DIGEST', json.dumps(C05.hashseed_digest()))"],
                           cwd=common.ROOT, env=env, capture_output=True, text=True, timeout=600)
        line = [l for l in p.stdout.splitlines() if l.startswith("DIGEST ")]
        out[hs] = json.loads(line[0][7:]) if line else {"error": (p.stdout + p.stderr)[-300:]}
    return out


# ============================================================================ the check

class C05Property:
    prop_id = PROP_ID

    def regenerate(self):
        common.use_repo_source()
        regenerate_wigner()

    # ------------------------------------------------------------------ helpers
    @staticmethod
    def infer_variant() -> int:
        """1 = the repaired guard of create_spin_range (6cd7ef9), 0 = the pinned one"""
        return 0 if real_range(0.5, True) == "ValueError" else 1

    def run(self, tier: str, seed: int) -> int:  # noqa: C901, PLR0912, PLR0915
        import numpy as np

        chk = common.Check(PROP_ID, tier, seed)
        common.use_repo_source()
        chk.info("source_blobs", common.source_blob_hashes(SOURCES))
        thorough = tier == "thorough"

        import time as _time
        timing = {}
        _t = [_time.time()]

        def lap(name):
            timing[name] = round(_time.time() - _t[0], 1)
            _t[0] = _time.time()

        # ---- T3: regenerate the Wigner tables
        try:
            winfo = regenerate_wigner()
            chk.info("wigner_tables", {k: v for k, v in winfo.items() if k != "changed"})
            if winfo["nonzero_remainders"]:
                chk.broken_correspondence("wigner-table", {"entries of d d^T - 1 with a remainder": winfo["nonzero_remainders"]})
        except Exception as e:  # noqa: BLE001
            chk.broken_correspondence("wigner-table", "".join(traceback.format_exception_only(type(e), e))[-600:])
        chk.coverage["obligations"] += 1
        try:
            badD = check_D_factorisation()
        except Exception as e:  # noqa: BLE001
            badD = [repr(e)[:200]]
        if badD:
            chk.broken_correspondence("wigner-D = phase * d * phase", badD[:5])
        else:
            chk.coverage["discharged"] += 1

        lap("wigner tables + D factorisation")
        # ---- proofs
        res = common.prove(PROP_ID, PROP_MODULES, timeout=2400)
        chk.record_proof(res, "cd lean && lake build " + " ".join(PROP_MODULES) + f" && lake env lean Ampverif/Audit/{PROP_ID}.lean")
        if res["failed"]:
            chk.note("proof obligations not discharged: " + "; ".join(f"{k}: {v[:160]}" for k, v in list(res["failed"].items())[:5]))
        if thorough and res["build_ok"]:
            self.leanchecker(chk)

        lap("lake build + audit")
        # ---- variant
        variant = self.infer_variant()
        chk.info("inferred_variant", {"checksZeroMember": bool(variant)})
        failing = []  # (signature, replay)

        # does the loop of create_spin_range terminate at all? (otherwise nothing that formulates an
        # axis-angle model may be run: it would fill the memory)
        stuck = [(v, f) for v in (0, 0.5, 1, 1.5, 2) for f in (False, True) if real_range(v, f) == "Timeout"]
        if stuck:
            v, f = stuck[0]
            chk.failing_input(
                {"class": "create_spin_range does not terminate"},
                {"input": {"call": f"create_spin_range({v!r}, no_zero_spin={f})"}, "observed": "no result within 3 s",
                 "expected": expected_range(int(2 * v), f), "skipped": "skeleton correspondence and numeric oracle"})
            chk.coverage["rule"] = "run stopped after the termination probe of create_spin_range"
            return chk.finish()

        if variant == 0:
            # the Lean witness C05_witness_range_pinned, replayed on the real function
            failing.append((
                {"class": "create_spin_range raises for half-integer spin with no_zero_spin"},
                {"input": {"call": "create_spin_range(0.5, no_zero_spin=True)"}, "observed": real_range(0.5, True),
                 "expected": expected_range(1, True), "lean_witness": "Ampverif.Props.C05.C05_witness_range_pinned"}))

        # ---- requests for the Lean driver (one process)
        requests, plan = [], []
        range_inputs = []
        for s2 in range(0, 21):
            for flag in (False, True):
                import decimal

                import numpy
                import sympy

                forms = [s2 / 2, Fraction(s2, 2), sympy.Rational(s2, 2), numpy.float64(s2 / 2), decimal.Decimal(s2) / 2]
                forms += [s2 // 2] if s2 % 2 == 0 else []
                range_inputs.append((s2, flag, forms))
        for s2 in range(-6, 0):  # malformed stream: negative magnitudes
            for flag in (False, True):
                range_inputs.append((s2, flag, [s2 / 2]))
        for s2, flag, forms in range_inputs:
            requests.append(f"range {variant} {s2} {int(flag)}")
            plan.append(("range", s2, flag, forms))

        # history stream: create_spin_range must be a pure function of its arguments — interleaved
        # flags, repeated spins, and callers that modify the returned list
        hist_rng = common.rng_for(PROP_ID, seed, "range-history")
        for _ in range(160):
            s2 = hist_rng.randrange(0, 9)
            flag = hist_rng.random() < 0.5
            requests.append(f"range {variant} {s2} {int(flag)}")
            plan.append(("history", s2, flag, False))

        cases = []
        for case in CASES:
            try:
                reaction = get_case(case)
            except Exception as e:  # noqa: BLE001
                raise common.InfraError(f"corpus reaction {case['file']} cannot be loaded: {e!r}") from e
            cases.append((case, reaction, classify(reaction)))
        by_name_all = {c["name"]: r for c, r, _ in cases}
        skel_real = {}
        formulate_errors = {}
        timeouts = []
        case_cap = 240 if thorough else 120       # one formulation / one reaction of the oracle
        oracle_budget = 1100 if thorough else 200  # the whole numeric oracle
        for case, reaction, cls in cases:
            if not cls["single_topology"]:
                continue
            aligns = ["none", "axis"] + (["dpd1", "dpd2", "dpd3"] if cls["n_final"] == 3 else [])
            for align in aligns:
                key = (case["name"], align)
                try:
                    with time_limit(case_cap):
                        model, rr = formulate(reaction, align)
                except CaseTimeout as e:
                    timeouts.append({"phase": "formulate", "reaction": case["name"], "alignment": align, "detail": str(e)})
                    continue
                except Exception as e:  # noqa: BLE001
                    formulate_errors[key] = "".join(traceback.format_exception_only(type(e), e))[-400:]
                    rr = None
                    try:
                        if align.startswith("dpd"):
                            from ampform.helicity.align.dpd import relabel_edge_ids

                            rr = relabel_edge_ids(reaction)
                        else:
                            rr = reaction
                    except Exception:  # noqa: BLE001
                        rr = None
                    skel_real[key] = ["error"]
                else:
                    try:
                        skel_real[key] = extract_skeleton(model, rr, align)
                    except ExtractionError as e:
                        skel_real[key] = [f"unextractable: {e}"]
                if rr is not None:
                    requests.append(skeleton_request(rr, align, variant))
                    plan.append(("skel", key))

        lap("formulate + extract corpus skeletons")
        # synthetic placement sweep: amplitude-level skeletons (cheap: SpinAlignment.formulate_amplitude only)
        syn_tops = synthetic_topologies()
        syn_cases = synthetic_cases()
        syn_reactions = {}
        syn_opts = {c[0]: c[4] for c in syn_cases}
        syn_compared = 0
        for name, key, types, mixed, opts in syn_cases:
            try:
                reaction = synthetic_reaction(syn_tops[key], types, **opts)
            except Exception as e:  # noqa: BLE001
                raise common.InfraError(f"synthetic reaction {name} cannot be built: {e!r}") from e
            syn_reactions[name] = (reaction, classify(reaction), key, types, mixed)
            aligns = ["axis"] + (["dpd1", "dpd2", "dpd3"] if key.startswith("3") else [])
            for align in aligns:
                k = (name, align)
                try:
                    with time_limit(30):
                        expr, rr = formulate_amplitude_only(reaction, align)
                        skel_real[k] = extract_skeleton(expr, rr, align, amplitude_only=True)
                except CaseTimeout as e:
                    timeouts.append({"phase": "formulate_amplitude", "reaction": name, "alignment": align, "detail": str(e)})
                    continue
                except ExtractionError as e:
                    skel_real[k] = [f"unextractable: {e}"]
                    rr = reaction
                except Exception as e:  # noqa: BLE001
                    formulate_errors[k] = "".join(traceback.format_exception_only(type(e), e))[-400:]
                    skel_real[k] = ["error"]
                    rr = reaction
                    if align.startswith("dpd"):
                        continue  # no relabelled reaction to describe to the model
                requests.append(skeleton_request(rr, align, variant))
                plan.append(("skel", k, True))
                syn_compared += 1

        lap("synthetic skeletons")
        # helicity-set histories: variants of ONE reaction (same topology, same particles, different helicity
        # sets of an initial or final state) formulated one after the other in this process; the skeleton of
        # EVERY step is compared with the Lean model (a pure function of the described reaction), and the raw
        # expression of a variant must not depend on its position in a history
        hist_rng = common.rng_for(PROP_ID, seed, "helicity-histories")
        hist_bases = [(c["name"], r, k) for c, r, k in cases if k["single_topology"] and k["n_final"] == 3]
        hist_bases += [(c["name"], r, k) for c, r, k in cases if k["single_topology"] and k["n_final"] > 3]
        syn_hist = sorted(n for n, (_, c, _, _, _) in syn_reactions.items()
                          if c["single_topology"] and max(c["spins2"]) >= 1)
        n_syn_hist = len(syn_hist) if thorough else 10
        # the quick tier always has synthetic bases with a spin-1 initial state whose pool contains 0
        with_zero = [n for n in syn_hist if 0 in state_infos(syn_reactions[n][0])[0][3] and syn_reactions[n][1]["spins2"][0] == 2]
        picked = hist_rng.sample(with_zero, min(3, len(with_zero)))
        picked += hist_rng.sample([n for n in syn_hist if n not in picked], max(0, min(n_syn_hist, len(syn_hist)) - len(picked)))
        hist_bases += [(n, syn_reactions[n][0], syn_reactions[n][1]) for n in picked]
        hist_meta = {}       # history key -> description (for replays and the forced oracle)
        hist_raw = {}        # (base, variant label, alignment) -> {digest of the raw expression: [where seen]}
        hist_stats = {"bases": len(hist_bases), "histories": 0, "steps": 0, "skeletons": 0, "kinds": {}}
        family = 0
        import hashlib as _hashlib

        import sympy as _sp
        for base_name, base, cls in hist_bases:
            aligns = ["axis"] + (["dpd1", "dpd2", "dpd3"] if cls["n_final"] == 3 else [])
            for h_index, steps in enumerate(helicity_histories(state_infos(base), hist_rng)):
                family += 1
                fam = fresh_family(base, family)
                hist_stats["histories"] += 1
                kind = "->".join("full" if not a else "restricted" for a in steps)
                hist_stats["kinds"][kind] = hist_stats["kinds"].get(kind, 0) + 1
                for step, allowed in enumerate(steps):
                    variant_reaction = restrict_reaction(fam, allowed)
                    if variant_reaction is None:
                        continue  # the two restrictions exclude each other
                    hist_stats["steps"] += 1
                    label = allowed_label(allowed)
                    hname = f"hist:{base_name}#{h_index}.{step}:{label}"
                    hist_meta[hname] = {"base": base_name, "family": family, "steps": [dict(a) for a in steps], "step": step,
                                        "history": [allowed_label(a) for a in steps[:step + 1]],
                                        "how": "tools.props.C05: restrict_reaction(fresh_family(base, family), steps[i]) for i <= step, "
                                               "each formulated with SpinAlignment.formulate_amplitude for axis, dpd1..3, in this order, in one process"}
                    for align in aligns:
                        k = (hname, align)
                        rr = None
                        try:
                            with time_limit(30):
                                expr, rr = formulate_amplitude_only(variant_reaction, align)
                                digest = _hashlib.sha1(_sp.srepr(expr).encode()).hexdigest()
                                hist_raw.setdefault((base_name, label, align), {}).setdefault(digest, []).append(hname)
                                skel_real[k] = extract_skeleton(expr, rr, align, amplitude_only=True)
                        except CaseTimeout as e:
                            timeouts.append({"phase": "helicity history", "reaction": hname, "alignment": align, "detail": str(e)})
                            continue
                        except ExtractionError as e:
                            skel_real[k] = [f"unextractable: {e}"]
                        except Exception as e:  # noqa: BLE001
                            formulate_errors[k] = "".join(traceback.format_exception_only(type(e), e))[-400:]
                            skel_real[k] = ["error"]
                        if rr is None:
                            if align.startswith("dpd"):
                                continue
                            rr = variant_reaction
                        requests.append(skeleton_request(rr, align, variant))
                        plan.append(("skel", k, True))
                        hist_stats["skeletons"] += 1
        position_dependent = {f"{b} [{lab}] {al}": v for (b, lab, al), v in hist_raw.items() if len(v) > 1}
        hist_stats["variants_seen_at_several_positions"] = sum(1 for v in hist_raw.values() if sum(len(w) for w in v.values()) > 1)
        hist_stats["position_dependent"] = len(position_dependent)
        chk.info("helicity_set_histories", hist_stats)
        for what, v in list(position_dependent.items())[:3]:
            chk.broken_correspondence("aligned amplitude of a reaction depends on what was formulated before",
                                      {"variant": what, "expressions": {d: w[:4] for d, w in v.items()}})

        lap("helicity-set histories")
        try:
            out = common.lean_run(DRIVER, "\n".join(requests) + "\n")
        except common.LeanRunError as e:
            chk.broken_correspondence("lean-driver", str(e)[:800])
            out = ""
        lines = out.split("\n")
        pos = 0
        range_dist = {"ok": 0, "ValueError": 0, "other": 0}
        skel_mismatch = 0
        hist_mismatches = []
        range_mismatch = 0
        for item in plan:
            if pos >= len(lines) or (pos == len(lines) - 1 and lines[pos] == ""):
                chk.broken_correspondence("lean-driver", "driver output ended early")
                break
            if item[0] == "range":
                _, s2, flag, forms = item
                lean = lines[pos].strip()
                pos += 1
                for value in forms:
                    real = real_range(value, flag)
                    chk.count(("range", s2, flag) if s2 > 0 else None)
                    range_dist["ok" if real.startswith("ok") else ("ValueError" if real == "ValueError" else "other")] += 1
                    if real != lean:
                        range_mismatch += 1
                        if range_mismatch <= 3:
                            chk.broken_correspondence("create_spin_range", {"spin": f"{s2}/2", "flag": flag, "type": type(value).__name__, "real": real, "lean": lean})
                    if s2 >= 0 and real != expected_range(s2, flag):
                        failing.append((
                            {"class": "create_spin_range deviates from -s..s", "spin": f"{s2}/2", "flag": flag},
                            {"input": {"call": f"create_spin_range({value!r}, no_zero_spin={flag})", "history": call_history()},
                             "observed": real, "expected": expected_range(s2, flag)}))
                if (s2, flag) in ((1, True), (2, True)):
                    chk.sample({"create_spin_range": f"{s2}/2", "no_zero_spin": flag, "real": real_range(s2 / 2, flag), "lean": lean})
            elif item[0] == "history":
                _, s2, flag, scribble = item
                lean = lines[pos].strip()
                pos += 1
                real = real_range(s2 / 2, flag, scribble)
                chk.count(("range-history", s2, flag) if s2 > 0 else None)
                if real != lean:
                    range_mismatch += 1
                    if range_mismatch <= 3:
                        chk.broken_correspondence("create_spin_range", {"spin": f"{s2}/2", "flag": flag, "stream": "history", "real": real, "lean": lean})
                if real != expected_range(s2, flag):
                    failing.append((
                        {"class": "create_spin_range deviates from -s..s", "spin": f"{s2}/2", "flag": flag},
                        {"input": {"call": f"create_spin_range({s2 / 2!r}, no_zero_spin={flag})", "history": call_history()},
                         "observed": real, "expected": expected_range(s2, flag)}))
            else:
                key = item[1]
                amplitude_only = len(item) > 2
                block = []
                while pos < len(lines) and lines[pos].strip() != "done":
                    block.append(lines[pos].strip())
                    pos += 1
                pos += 1
                if amplitude_only:
                    block = [l for l in block if not l.startswith("outer ")]
                lean = canon(block)
                real = skel_real[key]
                chk.count(("skeleton", *key))
                if real != lean:
                    skel_mismatch += 1
                    diff = {"only_real": [l for l in real if l not in lean][:6], "only_lean": [l for l in lean if l not in real][:6]}
                    if key[0] in hist_meta:
                        diff["history"] = hist_meta[key[0]]
                        hist_mismatches.append(key)
                    chk.broken_correspondence("alignment skeleton", {"reaction": key[0], "alignment": key[1], **diff})
                elif key == ("lc_pKpi_L1520", "axis"):
                    chk.sample({"skeleton": list(key), "lines": real[:8]})
        chk.info("range_correspondence", {"requests": len(range_inputs), "results": range_dist, "mismatches": range_mismatch,
                                          "domain": "2s in -6..20 x flag, passed as float / Fraction / sympy.Rational / numpy.float64 / Decimal / int"})
        chk.info("skeleton_correspondence", {
            "compared": len(skel_real), "mismatches": skel_mismatch,
            "corpus_reactions": sorted({k[0] for k in skel_real if not k[0].startswith("syn")}),
            "synthetic": {"amplitude_level_skeletons": syn_compared, "reactions": len(syn_cases),
                          "mixed_placements(one massless spin-1/2 vs one massive spin-1)": sum(1 for c in syn_cases if c[3]),
                          "types": {k: [str(v[0]), v[1]] for k, v in SYN_TYPES.items()},
                          "topologies": {k: tree_string(t) for k, t in syn_tops.items()}}})

        # ---- formulation succeeds for every final-state spin and mass
        for key, err in formulate_errors.items():
            failing.append((
                {"class": "formulating an aligned model raised", "alignment": key[1]},
                {"input": {"reaction": key[0], "alignment": key[1], "corpus": str(CORPUS), "history": hist_meta.get(key[0])},
                 "observed": err, "expected": "a HelicityModel"}))

        lap("lean driver + comparison")
        # ---- histories on ONE builder vs fresh builders
        hist_names = [c["name"] for c, _, k in cases if k["n_final"] == 3 and k["single_topology"] and not c.get("sub")]
        if not thorough:
            hist_names = [n for n in hist_names if n in ("lc_pKpi_Kstar", "lc_pKpi_L1520", "jpsi_gpi0pi0_f0")]
        hist_problems = []
        for n in hist_names:
            try:
                with time_limit(case_cap):
                    probs = history_probe(by_name_all[n], HISTORY_SEQUENCES)
            except CaseTimeout as e:
                timeouts.append({"phase": "history", "reaction": n, "detail": str(e)})
                continue
            except Exception as e:  # noqa: BLE001
                probs = [{"error": "".join(traceback.format_exception_only(type(e), e))[-300:]}]
            chk.count(("history", n), len(HISTORY_SEQUENCES))
            for pr in probs:
                hist_problems.append({"reaction": n, **pr})
        chk.info("history_probe", {"reactions": hist_names, "sequences": [s_ for _, s_ in HISTORY_SEQUENCES], "problems": len(hist_problems)})
        if hist_problems:
            failing.append((
                {"class": "aligned model depends on what was formulated before"},
                {"input": {"reaction": hist_problems[0]["reaction"], "corpus": str(CORPUS), **hist_problems[0],
                           "between_steps": "alignment.define_symbols(reaction).clear() on the returned dict"},
                 "observed": "model differs from the model of a fresh builder", "all": hist_problems[:6]}))
        # DPD is formulated for three-body decays only; what a 4-body reaction does is recorded, not judged
        try:
            r4 = by_name_all["jpsi_kpikpi_4body"]
            try:
                formulate_amplitude_only(r4, "dpd1")
                chk.info("dpd_on_4_body", "formulates")
            except Exception as e:  # noqa: BLE001
                chk.info("dpd_on_4_body", "raises " + "".join(traceback.format_exception_only(type(e), e)).strip()[-160:])
        except KeyError:
            pass
        lap("history probe")
        if True:
            try:
                hs = hashseed_probe((1, 2, 3, 4) if thorough else (1, 2))
                canon_set = {v.get("canonical") for v in hs.values()}
                chk.info("hash_seed_probe", {"seeds": list(hs), "distinct_raw_expressions": len({v.get("raw") for v in hs.values()}),
                                             "distinct_canonical_skeletons": len(canon_set),
                                             "errors": [v["error"] for v in hs.values() if "error" in v][:2]})
                chk.count(("hashseeds",), len(hs))
                if len(canon_set) != 1 or any("error" in v for v in hs.values()):
                    chk.broken_correspondence("aligned amplitude depends on PYTHONHASHSEED", hs)
            except subprocess_timeout() as e:
                timeouts.append({"phase": "hash seeds", "detail": str(e)})
            lap("hash seed probe")
        # ---- numeric oracle
        rng = common.rng_for(PROP_ID, seed, "oracle")
        n_events = (12 if thorough else 4) * (2 if chk.broken else 1)
        numeric_log = []
        unjudged = []
        # a reaction whose skeleton disagreed is searched numerically whatever the tier
        forced = {b["detail"]["reaction"] for b in chk.broken
                  if b.get("what") == "alignment skeleton" and isinstance(b.get("detail"), dict)}
        jobs = []
        for case, reaction, cls in cases:
            if case["numeric"] == "thorough" and not thorough and case["name"] not in forced:
                continue
            jobs.append((case, reaction, cls))
        # synthetic placements: a seeded subset in the quick tier, all mixed placements in the thorough tier
        pick_rng = common.rng_for(PROP_ID, seed, "synthetic-subset")
        mixed3 = [n for n, (_, _, key, _, mixed) in syn_reactions.items() if mixed and key.startswith("3")]
        mixed4 = [n for n, (_, _, key, _, mixed) in syn_reactions.items() if mixed and key.startswith("4")]
        general = [n for n, (_, c, key, _, mixed) in syn_reactions.items()
                   if not mixed and c["complete_helicity_sets"] and c["single_topology"]]
        def cost(name):
            """number of terms of the axis-angle alignment sum (what the SymPy evaluation time scales with)"""
            reaction, cls_, key, types, _ = syn_reactions[name]
            c = cls_["spins2"][0] + 1
            for i, t in enumerate(types):
                d = depth_of(syn_tops[key], i)
                c *= int(2 * SYN_ALL[t][0] + 1) ** (d + 1 if d >= 2 else 1)
            return c

        def spins_ok(name):
            return max(syn_reactions[name][1]["spins2"]) <= 5

        def is_high(name):
            return any(t in SYN_HIGH for t in syn_reactions[name][3])

        mixed4 = [n for n in mixed4 if cost(n) <= 500]
        general = [n for n in general if cost(n) <= 500 and spins_ok(n)]
        high = [n for n in general if is_high(n)]
        boundary = [n for n in general if n.endswith(":min+0") and not is_high(n)]  # equal masses, initial spin 0 / 1/2
        if thorough:
            # spin 5/2 is expensive in SymPy whatever its position: one case, at depth 1
            high_f = [n for n in high if "F" in syn_reactions[n][3] and cost(n) <= 40]
            high_dt = [n for n in high if "F" not in syn_reactions[n][3] and cost(n) <= 100]
            chosen = (mixed3 + pick_rng.sample(mixed4, 1)
                      + pick_rng.sample([n for n in general if not is_high(n) and cost(n) <= 250], 6)
                      + pick_rng.sample(high_dt, 3) + pick_rng.sample(high_f, 1)
                      + pick_rng.sample([n for n in boundary if cost(n) <= 250], 3))
        else:
            chosen = (pick_rng.sample([n for n in mixed3 if cost(n) <= 110], 2)
                      + pick_rng.sample([n for n in high if cost(n) <= 60 and "F" not in syn_reactions[n][3]], 1)
                      + pick_rng.sample([n for n in boundary if cost(n) <= 60], 1))
        chosen = list(dict.fromkeys(chosen))
        # forced cases: prefer those where a disagreement cannot be mistaken for a known finding, cheapest first
        forced_syn = sorted((n for n in forced if n in syn_reactions and n not in chosen),
                            key=lambda n: (syn_reactions[n][1]["massless_boson_final"], syn_reactions[n][1]["massless_deep_final"],
                                           not syn_reactions[n][1]["complete_helicity_sets"], cost(n), n))
        chosen += forced_syn[:3]
        # non-default public options (HARDENING rule 5): masses from the four-momenta, helicity couplings
        by_name = {c["name"]: (c, r, k) for c, r, k in cases}
        for n in (["lc_pKpi_Kstar", "psi2S_jpsipipi_f0", "lc_pKpi_L1520"] if thorough else ["lc_pKpi_Kstar"]):
            c, r, k = by_name[n]
            jobs.append(({**c, "name": n + "[default masses, helicity couplings]", "options": {"robust": False, "helicity_couplings": True}}, r, k))
        for n in chosen:
            reaction, cls, key, types, _ = syn_reactions[n]
            jobs.append(({"name": n, "file": None, "synthetic": {"topology": tree_string(syn_tops[key]), "types": list(types),
                                                               "options": syn_opts.get(n, {}),
                                                               "how": "tools.props.C05.synthetic_reaction(synthetic_topologies()[key], types, **options)"}},
                         reaction, cls))
        # helicity-set histories (oracle on the LAST model of a history): the five models of a restricted variant
        # are formulated first, then those of the complete reaction (a fresh family: this process has not seen
        # the object before), whose aligned intensities must equal the unaligned one
        hist_oracle_pool = {
            "initial": [("jpsi_gpi0pi0_f0", -1), ("lc_pKpi_Kstar", -1), ("lc_pKpi_L1520", -1), ("psi2S_jpsipipi_f0", -1)],
            "final": [("lc_pKpi_Kstar", 0), ("lc_nuKpi_Kstar", 0), ("jpsi_gpi0pi0_f0", 0), ("psi2S_jpsipipi_f0", 0)],
        }
        oracle_pick_rng = common.rng_for(PROP_ID, seed, "helicity-history-oracle")
        hist_jobs = []
        for where, pool_ in hist_oracle_pool.items():
            for base_name, edge in (pool_ if thorough else oracle_pick_rng.sample(pool_[:3], 1)):
                c, r, k = by_name[base_name]
                obs = next(o for e, _, _, o in state_infos(r) if e == edge)
                subs = helicity_subsets(obs)
                first = [subs[0]] + ([oracle_pick_rng.choice(subs[1:])] if len(subs) > 1 and thorough else [])
                hist_jobs.append((c, r, k, [{edge: s_} for _, s_ in first], where))
        # a history whose skeleton disagreed at a complete step is replayed on the models, cheapest bases first
        for key in hist_mismatches:
            meta = hist_meta[key[0]]
            if meta["steps"][meta["step"]] or meta["step"] == 0 or len(hist_jobs) >= (12 if thorough else 5):
                continue
            if meta["base"] in by_name:
                c, r, k = by_name[meta["base"]]
                if c["numeric"] != "quick":
                    continue
            elif meta["base"] in syn_reactions and cost(meta["base"]) <= 110:
                r, k = syn_reactions[meta["base"]][0], syn_reactions[meta["base"]][1]
                c = {"name": meta["base"], "file": None, "synthetic": {"types": list(syn_reactions[meta["base"]][3]),
                                                                      "topology": syn_reactions[meta["base"]][2],
                                                                      "options": syn_opts.get(meta["base"], {})}}
            else:
                continue
            if any(j[0]["name"] == c["name"] and j[3] == meta["steps"][:meta["step"]] for j in hist_jobs):
                continue
            hist_jobs.append((c, r, k, meta["steps"][:meta["step"]], "skeleton disagreed"))
        for n_job, (c, r, k, earlier, where) in enumerate(hist_jobs):
            fam = fresh_family(r, 100000 + n_job)
            prelude = [x for x in (restrict_reaction(fam, a) for a in earlier) if x is not None]
            jobs.append(({**c, "name": c["name"] + "[after " + " then ".join(allowed_label(a) for a in earlier) + "]",
                          "prelude": prelude,
                          "history": {"restricted_state": where, "formulated_before_in_the_same_process":
                                      [allowed_label(a) for a in earlier], "base": c["name"], "family": 100000 + n_job,
                                      "how": "fam = tools.props.C05.fresh_family(reaction, family); for a in steps: formulate(restrict_reaction("
                                             "fam, {edge: doubled projections}), align) for align in none, axis, dpd1..3; then the five models of fam"}},
                         fam, k))
        forced |= {j[0]["name"] for j in jobs if j[0].get("history", {}).get("restricted_state") == "skeleton disagreed"}
        # reactions whose skeleton disagreed come first: they must not fall victim to the time budget
        jobs.sort(key=lambda j: 0 if j[0]["name"] in forced else (1 if j[0].get("history") else 2))
        oracle_t0 = _time.time()
        skipped_budget = []
        for case, reaction, cls in jobs:
            entry = {"reaction": case["name"], **{k: cls[k] for k in ("complete_helicity_sets", "massless_final", "spins2")}}
            if not cls["single_topology"] or not cls["complete_helicity_sets"]:
                entry["skipped"] = "outside the hypothesis (one topology, complete helicity sets)"
                numeric_log.append(entry)
                continue
            _tc = _time.time()
            if _tc - oracle_t0 > oracle_budget * (1.5 if chk.broken else 1):
                entry["skipped"] = "time budget of the numeric oracle used up"
                skipped_budget.append(case["name"])
                numeric_log.append(entry)
                continue
            try:
                with time_limit(case_cap):
                    results, _ = numeric_case(case, reaction, rng, n_events, prelude=case.get("prelude", ()),
                                              **case.get("options", {}))
            except CaseTimeout as e:
                timeouts.append({"phase": "numeric oracle", "reaction": case["name"], "detail": str(e)})
                entry["skipped"] = f"case {e}"
                numeric_log.append(entry)
                continue
            entry["seconds"] = round(_time.time() - _tc, 1)
            ref = results.get("none", {})
            if "values" not in ref:
                failing.append(({"class": "the unaligned model cannot be evaluated"},
                                {"input": {"reaction": case["name"]}, "observed": ref}))
                continue
            refv = ref["values"]
            entry["max_rel"] = {}
            for align, r in results.items():
                if align == "none":
                    continue
                if r.get("error") == "formulate":
                    continue  # reported by the formulation probe
                if "values" not in r:
                    failing.append((
                        {"class": "the aligned model cannot be evaluated", "alignment": align},
                        {"input": {"reaction": case["name"], "alignment": align}, "observed": r}))
                    continue
                val = r["values"]
                ok_ref = np.isfinite(refv) & (np.abs(refv) > 0)
                tol = 1e-6 if (cls["massless_final"] and align.startswith("dpd")) else 1e-9
                rel = np.where(ok_ref, np.abs(val - refv) / np.where(ok_ref, np.abs(refv), 1.0), 0.0)
                nan_bad = ok_ref & ~np.isfinite(val)
                bad = ok_ref & (nan_bad | (rel > tol))
                chk.count((case["name"], align), int(ok_ref.sum()))
                finite_rel = rel[ok_ref & np.isfinite(val)]
                entry["max_rel"][align] = float(finite_rel.max()) if finite_rel.size else None
                if not bad.any():
                    continue
                i = int(np.argmax(bad))
                replay = {
                    "input": {"reaction": case["name"],
                              "corpus_file": f"corpus/C05/{case['file']}.json" if case.get("file") else None,
                              "synthetic": case.get("synthetic"),
                              "substitution": case.get("sub"), "builder_options": case.get("options"),
                              "history": case.get("history"),
                              "alignment": align, "event_index": i,
                              "seed": seed, "tier": tier},
                    "observed": (float(val[i]) if np.isfinite(val[i]) else repr(float(val[i]))), "expected": float(refv[i]),
                    "relative_difference": None if not np.isfinite(val[i]) else float(rel[i]), "tolerance": tol,
                }
                if align == "axis" and cls["massless_boson_final"]:
                    failing.append(({"class": KNOWN_CLASS}, replay))
                elif align == "axis" and cls["massless_deep_final"] and bool(nan_bad.any()) and not bool((bad & ~nan_bad).any()):
                    sig = {"class": DEEP_MASSLESS_CLASS}
                    if chk.match_known(sig) is not None:
                        failing.append((sig, replay))
                    else:
                        unjudged.append({"signature": sig, **replay, "events_nan": int(nan_bad.sum()), "events": int(ok_ref.sum())})
                else:
                    failing.append(({"class": "aligned intensity differs from the unaligned intensity", "alignment": align,
                                     "reaction": case["name"]}, replay))
            numeric_log.append(entry)
            if case["name"] == "lc_pKpi_L1520":
                chk.sample({"numeric": case["name"], "unaligned": [float(x) for x in refv[:2]],
                            "max_relative_difference": entry["max_rel"]})
        chk.info("numeric_oracle", numeric_log)
        lap("numeric oracle")
        chk.info("timing_s", timing)
        if skipped_budget:
            chk.info("oracle_cases_skipped_for_time", skipped_budget)
            chk.note(f"{len(skipped_budget)} oracle cases skipped: time budget used up")
        for t in timeouts[:5]:
            chk.broken_correspondence("case exceeded its time cap", t)
        # re-probe create_spin_range after all the formulations above (both flags interleaved); the last
        # round also writes into the returned lists first (a caller may do that) — done at the very end so
        # that a function that hands out shared lists cannot poison the models evaluated above
        for s2 in range(0, 9):
            seq = []
            for flag, scribble in ((False, False), (True, False), (False, True), (True, True), (False, False), (True, False)):
                real = real_range(s2 / 2, flag, scribble)
                seq.append(f"create_spin_range({s2 / 2!r}, no_zero_spin={flag})" + (" ; result.append(99.0)" if scribble else "")
                           + f"  -> {real}")
                chk.count(None)
                if real != expected_range(s2, flag):
                    failing.append((
                        {"class": "create_spin_range deviates from -s..s", "spin": f"{s2}/2", "flag": flag},
                        {"input": {"call": f"create_spin_range({s2 / 2!r}, no_zero_spin={flag})",
                                   "history": "after formulating the aligned models of this run (in particular axis-angle models "
                                              "with a massless spin-1 final state), then this call sequence in the same process",
                                   "call_sequence": list(seq)},
                         "observed": real, "expected": expected_range(s2, flag)}))
        chk.info("input_distribution", {
            "range": "exhaustive 2s = 0..20 x flag (x argument types), malformed: 2s = -6..-1",
            "skeleton": "every corpus case x {none, axis, dpd1..3 (3-body)} on model.intensity; 399 synthetic reactions "
                        "(all 5^3 type assignments x 3 spectator choices; all ordered placements of one massless spin-1/2 "
                        "vs one massive spin-1 on 3 three-body and 2 four-body topologies) x {axis, dpd1..3} on formulate_amplitude",
            "helicity_set_histories": "per base reaction (corpus single-topology cases + seeded synthetic ones) and per outer "
                                      "state with >= 2 observed projections: [subset, full], [full, subset], [subset, other subset, "
                                      "full]; plus [subset of one state, subset of another, both, full]; each history on a copy with "
                                      "its own initial-state mass; stream C05:<seed>:helicity-histories",
            "numeric_histories": [c["name"] for c, _, _ in jobs if c.get("history")],
            "numeric_synthetic": [c["name"] for c, _, _ in jobs if c["name"].startswith("syn")],
            "numeric": f"{n_events} events per reaction, random complex couplings, one PRNG stream ({PROP_ID}:{seed}:oracle)",
        })

        # ---- verdict
        seen = set()
        for sig, replay in failing:
            k = (sig.get("class"), sig.get("alignment"))  # one replay per kind of failure
            if k in seen or len(seen) >= 6:
                continue
            seen.add(k)
            chk.failing_input(sig, {**replay, "others_of_this_kind": sum(1 for s2, _ in failing if (s2.get("class"), s2.get("alignment")) == k) - 1,
                                    "broken": chk.broken[:8]})
        if chk.broken and not chk.violations:
            groups: dict[str, list] = {}
            for b in chk.broken:
                groups.setdefault(b.get("theorem") or b.get("what"), []).append(b)
            for what, items in groups.items():
                chk.unexplained(what, {"count": len(items), "first": items[:5]})
        chk.coverage["rule"] = (
            "evaluations = create_spin_range calls compared with the Lean model + skeletons compared + "
            "(reaction, alignment, event) intensity comparisons; distinct_nontrivial counts distinct (2s>0, flag) "
            "range inputs, distinct (reaction, alignment) skeletons and distinct (reaction, alignment) numeric "
            "comparisons with a finite non-zero unaligned intensity")
        chk.coverage["trusted_base"] = [
            "Lean 4.33 kernel + Mathlib v4.33 (axioms: see axioms_reported)",
            "skeleton extraction from model.intensity and the line protocol (tools/props/C05.py)",
            "SymPy: Rotation.d/Rotation.D evaluation, PoolSum.evaluate, lambdify; numpy",
            "qrules objects (topologies, particles) of the corpus reactions",
        ]
        chk.assumptions[:] = [
            "doubled spins: create_spin_range is modelled on half-integer inputs only",
            "numeric oracle uses stable final-state masses and a scalar initial-state mass (exact masses)",
            "DPD with a massless spin-1/2 final state is compared at 1e-6 (acos near +-1), everything else at 1e-9",
        ]
        return chk.finish()

    # ------------------------------------------------------------------ leanchecker (thorough)
    @staticmethod
    def leanchecker(chk):
        import shutil
        import subprocess

        exe = shutil.which("leanchecker")
        if exe is None:
            chk.note("leanchecker not available; skipped")
            return
        try:
            p = subprocess.run(["lake", "env", "leanchecker", *PROP_MODULES], cwd=common.LEAN, capture_output=True,
                               text=True, timeout=900)
        except subprocess.TimeoutExpired:
            chk.note("leanchecker timed out; skipped")
            return
        chk.info("leanchecker", {"returncode": p.returncode, "tail": (p.stdout + p.stderr)[-300:]})
        if p.returncode != 0:
            chk.broken.append({"kind": "proof", "theorem": "<leanchecker>", "detail": (p.stdout + p.stderr)[-600:]})


PROP = C05Property()

MANIFEST = {
    "technique": "Lean 4 theorems about executable models (create_spin_range, alignment skeletons) and about "
                 "Wigner-d tables regenerated from the installed SymPy; model<->source correspondence over a line "
                 "protocol on every run; independent numeric three-way oracle on the real models",
    "design_ref": "DESIGN.md §3 C05, §5 (C05 rows)",
    "text": (
        "Proof. (1) C05_range: for the repaired guard and EVERY spin s=n/2 and flag, the model of create_spin_range "
        "(loop, -0.0 step, list.remove modelled literally on doubled integers) returns -s..s in unit steps, without 0 "
        "iff no_zero_spin and s is a positive integer, never raises and its loop ends by its own condition; witness "
        "theorems: the pinned guard raises ValueError for s=1/2 (decide) and for every half-integer spin. "
        "(2) C05_unitary_product: sum_m |sum_l prod_i U_i(m_i,l_i) A_l|^2 = sum_l |A_l|^2 for unitary U_i, any finite "
        "family of states and any finite dimensions (Mathlib matrices over the product index type), and the list form "
        "C05_unitary_product_lists used for the skeletons (any number of states, any duplicate-free pools). "
        "(3) C05_wiring: for ANY list of per-state descriptions, any chain lengths, any interpretation of the Wigner "
        "factors and any commutative semiring, the flat skeleton (named indices, one PoolSum, signed amplitude "
        "indices) denotes the state-by-state contraction of A with one chain matrix per state. "
        "(4) C05_axis_invariant / C05_dpd_invariant: for every topology and every list of outer states with "
        "complete helicity sets (axis-angle: no massless boson), the axis-angle / DPD(any reference) skeleton and "
        "the unaligned skeleton have the same intensity whenever the Wigner factors are unitary on complete ranges; "
        "C05_axis_invariant_wigner / C05_dpd_invariant_wigner discharge that hypothesis for spins <= 5/2 and all real "
        "angles with D = e^{-i m alpha} d(beta) e^{-i m' gamma} built from (5). "
        "(5) C05_d_unitary, C05_D_unitary: TABLE-BOUNDED (j <= 5/2, the property's range): the d^j(beta) entries "
        "regenerated from SymPy as polynomials in cos(beta/2), sin(beta/2), sqrt2, sqrt3, sqrt5 satisfy d d^T = 1 and "
        "d^T d = 1 (91 entries, cofactors re-checked by linear_combination). "
        "(6) C05_axis_formulates: with the repaired range every final state's rotation chain is formulated; "
        "C05_witness_formulate_pinned: the pinned guard fails for a massless spin-1/2 final state. "
        "(8) C05_dpd_pools / C05_dpd_helicity_sets_injective: for every topology, reference subsystem and list of outer "
        "states the summed and the outer pools of the DPD skeleton are the states' observed helicity sets, so two "
        "reactions with different helicity sets never share an aligned amplitude (what a cache key must respect). "
        "(7) C05_witness_massless: with the photon pool {-1,+1} an orthogonal rotation mixing projection 0 turns an "
        "unaligned intensity 1 into 0 (decide) - the known finding. "
        "Tie: create_spin_range vs model exhaustively for 2s=-6..20 x flag x argument type; the skeleton extracted "
        "from the real model.intensity (amplitude indices with signs, every Wigner factor with its index symbols and "
        "WHICH rotation it is, summed indices with pools, outer pools) equals the model's for 14 corpus cases x "
        "{none, axis-angle, DPD 1,2,3} incl. a 4-body topology, massless spin-1/2 and spin-3/2 synthetic particles, and at "
        "amplitude level (SpinAlignment.formulate_amplitude) for 555 hand-built single-topology reactions (spins 3/2, 2, "
        "5/2 in every slot, initial spins 0..7/2, equal-mass pairs, and): every assignment "
        "of {massless 1/2, massless 1, massive 1, massive 1/2, spin 0} to the three slots x every spectator choice, and "
        "every ordered placement of one massless spin-1/2 against one massive spin-1 on three 3-body and two 4-body "
        "topologies; create_spin_range additionally in a seeded 160-call history (interleaved flags, repeated spins) and "
        "re-probed after the oracle incl. callers that write into the returned list; one builder driven through "
        "alignment sequences (none/axis/DPD 1-3, define_symbols result cleared by the caller) must give the models of "
        "fresh builders; HELICITY-SET HISTORIES: variants of one reaction that share topology and particles but "
        "differ in the helicity set of an initial or final state (without 0 as for a J/psi from e+e-, one extreme, 0 only, "
        "without the largest) are formulated one after the other in one process (restricted-then-complete, "
        "complete-then-restricted, two subsets of one state, subsets of two states; every corpus case + 10 seeded "
        "synthetic ones in the quick tier, all in the thorough tier; axis-angle and DPD 1-3), the skeleton of EVERY step "
        "must equal the model's (whose pools are the described helicity sets: C05_dpd_pools) and the raw expression of "
        "a variant must not depend on its position; canonical skeletons identical across PYTHONHASHSEED values in fresh processes; "
        "SymPy's Rotation.D = phase*d*phase checked symbolically. Oracle: intensities of the five real models at the "
        "same physical events and random couplings (1e-9; quick 6 corpus + 4 seeded mixed placements, thorough 12 corpus "
        "incl. spin 3/2, massive spin 1 at depth 1 and 2, 4-body + all 18 three-body mixed placements + 12 more "
        "synthetic; plus, on a fresh copy of a corpus reaction, the five models of the complete reaction AFTER the five "
        "models of a helicity-restricted variant were formulated in the same process - one initial-state and one "
        "final-state restriction per seed in the quick tier, eight in the thorough tier - and the replay of any history "
        "whose skeleton disagreed), formulation probe for every case; per-case CPU-time caps and an oracle time budget (skipped "
        "cases are counted in the evidence). NOT proved: that the numerical angle "
        "values are what the formalism prescribes (irrelevant for one topology: any real angle gives a unitary); "
        "the hypothesis 'complete pools' is forced - DPD with a photon ({-1,+1} observed) is covered by the oracle "
        "only; the re-indexing between SymPy's (j,m) and the doubled integers is part of the trusted harness."
    ),
    "level_note": (
        "Trusted: Lean kernel + Mathlib (axioms propext, Classical.choice, Quot.sound); the skeleton extraction and "
        "canonicalisation in tools/props/C05.py (order of factors and of summation indices is ignored, being "
        "semantically irrelevant); SymPy's evaluation of Rotation.d/D, PoolSum.evaluate and lambdify/numpy are "
        "executed, not modelled; qrules objects are inputs. Modelled, not executed: PoolSum semantics (psum), "
        "Decimal/float arithmetic of create_spin_range on half-integers (exact in that range; checked exhaustively "
        "to s=10). Known finding: AxisAngleAlignment with a massless spin>=1 final state. "
        "Second known finding (found by this check): AxisAngleAlignment with a massless final state below a resonance "
        "gives NaN (notes/findings_C05.md)."
    ),
}
