"""C12 — lineshape normalisations hold and builder API equals function API."""

from __future__ import annotations

import math

from tools.lib import common
from tools.corr import C12_factor as fhist
from tools.corr import C12_history as hist
from tools.props import C11 as c11
from tools.translate import c11_ext as X
from tools.translate.c11_ext import C, N, R, Fun, RawBlock, Real, TDef

SOURCES = [
    "src/ampform/dynamics/__init__.py",
    "src/ampform/dynamics/form_factor.py",
    "src/ampform/dynamics/builder.py",
    "src/ampform/dynamics/phasespace.py",
    "src/ampform/sympy/math.py",
]
LMAX = 10
RHO = c11.RHO_CLASSES
FF_T = Fun([R, R, R, N, R], C)
RHO_T = Fun([R, R, R], C)
FLAGS = [(False, False), (True, False), (False, True), (True, True)]  # (form_factor, energy_dependent_width)

RES_MASS, RES_WIDTH = 1.2345, 0.0678


def _resonance(latex="R"):
    from qrules.particle import Particle

    return Particle(name="Res(1234)", latex=latex, pid=99990, spin=1, mass=RES_MASS, width=RES_WIDTH)


def _bw_table_entry(expr, z, ell):
    """(c, [a_0..a_L]) with expr == c z^L / sum a_k z^k, extracted with SymPy; the Lean theorem
    `bw_L_eq_table` re-proves the equality against the syntactically translated definition."""
    import sympy as sp

    num, den = sp.fraction(sp.together(expr))
    pn, pd = sp.Poly(num, z), sp.Poly(den, z)
    lead = pd.LC()
    coeffs = [sp.Rational(c) / lead for c in reversed(pd.all_coeffs())]
    if pn.degree() != ell or len(pn.terms()) != 1:
        raise X.Untranslatable(f"Blatt-Weisskopf numerator for L={ell} is not a monomial of degree L: {num}")
    c = sp.Rational(pn.LC()) / lead
    return c, coeffs


def _q(r):
    return f"({r.p} : ℚ)" if r.q == 1 else f"(({r.p} : ℚ) / {r.q})"


def build_definitions():  # noqa: PLR0915
    import sympy as sp

    import ampform.dynamics as dyn
    from ampform.dynamics import builder as bld
    from ampform.dynamics import form_factor as ffm
    from ampform.dynamics import phasespace as ps

    defs, reals = c11.phasespace_definitions()
    s, m0, g0, m1, m2, d, x = sp.symbols("s m0 Gamma0 m1 m2 d x", real=True)
    z = sp.Symbol("z", nonnegative=True)
    ell = sp.Symbol("L", integer=True, nonnegative=True)
    rho = sp.Function("rho")
    env_types = {"L": N}

    # ---- hooks: how ampform classes with non-argument attributes / integer L become calls
    def hook(e, tr):
        if isinstance(e, ffm.SphericalHankel1):
            lval = e.args[0]
            if not isinstance(lval, sp.Integer) or not 0 <= int(lval) <= LMAX:
                raise X.Untranslatable(f"SphericalHankel1 with l = {lval!r}")
            return ("app", f"SphericalHankel1_{int(lval)}", [tr.tr(e.args[1])])
        if isinstance(e, ffm.BlattWeisskopfSquared):
            return ("app", "BlattWeisskopfSquared", [tr.tr(e.args[0]), tr.tr(e.args[1])])
        if isinstance(e, ffm.FormFactor):
            return ("fapp", "ff", [tr.tr(a) for a in e.args])
        if isinstance(e, dyn.EnergyDependentWidth):
            if e.phsp_factor is not rho:
                raise X.Untranslatable(f"EnergyDependentWidth carries phsp_factor={e.phsp_factor!r} instead of the one passed in")
            return ("app", "EnergyDependentWidth", [("fref", "ff"), ("fref", "rho"), *[tr.tr(a) for a in e.args]])
        if isinstance(e, ps.BreakupMomentumSquared):
            return ("app", "BreakupMomentumSquared", [tr.tr(a) for a in e.args])
        return None

    def translator():
        return X.XTranslator(funcs={rho: "rho"}, hooks=[hook])

    def nonneg_of(tr):
        return {n for n, sym in tr.symbols.items() if sym.is_nonnegative}

    # ---- spherical Hankel functions, Hankel form and polynomial form of B_L² for L = 0..LMAX
    table = []
    for k in range(LMAX + 1):
        tr = translator()
        defs.append(TDef(f"SphericalHankel1_{k}", [("x", R)], C, tr(ffm.SphericalHankel1(k, x).doit()),
                         doc=f"SphericalHankel1({k}, x).doit()"))
        reals[f"SphericalHankel1_{k}"] = Real(ffm.SphericalHankel1(k, x), [x], ())
    for k in range(LMAX + 1):
        tr = translator()
        body = tr(ffm._formulate_blatt_weisskopf(sp.Integer(k), z))
        defs.append(TDef(f"BlattWeisskopfHankel_{k}", [("z", R)], R, body, nonneg=nonneg_of(tr),
                         doc=f"_formulate_blatt_weisskopf({k}, z): |h(1)|²/(|h(√z)|² z), z ≥ 0"))
        reals[f"BlattWeisskopfHankel_{k}"] = Real(ffm._formulate_blatt_weisskopf(sp.Integer(k), z), [z], ())
    for k in range(LMAX + 1):
        tr = translator()
        poly = ffm.BlattWeisskopfSquared(z, sp.Integer(k)).evaluate()
        defs.append(TDef(f"BlattWeisskopfSquared_{k}", [("z", R)], R, tr(poly), nonneg=nonneg_of(tr),
                         doc=f"BlattWeisskopfSquared(z, {k}).evaluate() — the cached polynomial path"))
        reals[f"BlattWeisskopfSquared_{k}"] = Real(ffm.BlattWeisskopfSquared(z, sp.Integer(k)), [z], ())
        table.append(_bw_table_entry(poly, z, k))
    # the defining expression for L = 0 on the WHOLE real z axis (sqrt(z) principal, complex argument of h_0):
    # used by the witness theorem of the known finding "symbolic-L Hankel path vs integer-L polynomial path, z <= 0"
    xc, zr = sp.Symbol("x"), sp.Symbol("z", real=True)
    defs.append(TDef("SphericalHankel1C_0", [("x", C)], C, translator()(ffm.SphericalHankel1(0, xc).doit()),
                     doc="SphericalHankel1(0, x).doit() for a complex argument"))

    def hook_c(e, tr):
        if isinstance(e, ffm.SphericalHankel1) and e.args[0] == 0:
            return ("app", "SphericalHankel1C_0", [tr.tr(e.args[1])])
        return None

    defs.append(TDef("BlattWeisskopfHankelC_0", [("z", R)], R,
                     X.XTranslator(hooks=[hook_c])(ffm._formulate_blatt_weisskopf(sp.Integer(0), zr)),
                     doc="_formulate_blatt_weisskopf(0, z) for ANY real z (principal sqrt): what a symbolic L gives after L := 0"))
    # (SymPy rewrites |exp(i sqrt z)| with arctan2, which numpy cannot evaluate for complex input and evaluates to nan
    # for negative floats: the twin is compared with the mpmath evaluation of the same lambdified expression)
    reals["BlattWeisskopfHankelC_0"] = Real(ffm._formulate_blatt_weisskopf(sp.Integer(0), zr), [zr], (), mp_only=lambda pt: True)
    # dispatcher over L and regenerated table
    lean_cases = "\n".join(f"  | {k} => BlattWeisskopfSquared_{k} z" for k in range(LMAX + 1))
    flt_cases = "\n".join(f"  | {k} => BlattWeisskopfSquared_{k} z" for k in range(LMAX + 1))
    entries = "\n".join(
        f"def bwEntry_{k} : Ampverif.Lemmas.C12.BWEntry := ⟨{k}, {_q(c)}, [{', '.join(_q(a) for a in co)}]⟩"
        for k, (c, co) in enumerate(table))
    defs.append(RawBlock(
        "BlattWeisskopfSquared",
        "/-- BlattWeisskopfSquared(z, L) for an integer L: table of the polynomial path (L ≤ "
        f"{LMAX}; 0 outside the regenerated table) -/\n"
        f"noncomputable def BlattWeisskopfSquared (z : ℝ) (L : ℕ) : ℝ :=\n  match L with\n{lean_cases}\n  | _ => 0\n\n"
        "/-! Regenerated table: numerator constant and denominator coefficients (ascending) of B_L². -/\n"
        f"{entries}\n"
        f"def bwTable : List Ampverif.Lemmas.C12.BWEntry := [{', '.join(f'bwEntry_{k}' for k in range(LMAX + 1))}]",
        f"def BlattWeisskopfSquared (z : Float) (L : Nat) : Float :=\n  match L with\n{flt_cases}\n  | _ => 0.0",
        sigs={"BlattWeisskopfSquared": ([R, N], R)}))

    # ---- FormFactor, EnergyDependentWidth (generic ff and rho), Breit-Wigner functions
    ff_body = translator()(ffm.FormFactor(s, m1, m2, ell, d).evaluate())
    p_ff = [("s", R), ("m1", R), ("m2", R), ("L", N), ("d", R)]
    defs.append(TDef("FormFactor", p_ff, C, ff_body, doc="FormFactor(s, m1, m2, L, d).evaluate()"))
    reals["FormFactor"] = Real(None, None, (s,), family=lambda pt: (
        pt[3], ffm.FormFactor(s, m1, m2, sp.Integer(pt[3]), d), [s, m1, m2, d]))

    generic = [("ff", FF_T), ("rho", RHO_T)]
    p_edw = [*generic, ("s", R), ("m0", R), ("Gamma0", R), ("m1", R), ("m2", R), ("L", N), ("d", R)]
    defs.append(TDef("EnergyDependentWidth", p_edw, C,
                     translator()(dyn.EnergyDependentWidth(s, m0, g0, m1, m2, ell, d, phsp_factor=rho).evaluate()),
                     doc="EnergyDependentWidth(s, m0, Γ0, m1, m2, L, d, phsp_factor=rho).evaluate() for an ARBITRARY "
                         "form factor `ff` (the FormFactor class) and phase-space factor `rho`"))
    defs.append(TDef("relativisticBreitWigner", [("s", R), ("m0", R), ("Gamma0", R)], C,
                     translator()(dyn.relativistic_breit_wigner(s, m0, g0))))
    reals["relativisticBreitWigner"] = Real(dyn.relativistic_breit_wigner(s, m0, g0), [s, m0, g0], (s,))
    defs.append(TDef("relativisticBreitWignerWithFF", p_edw, C,
                     translator()(dyn.relativistic_breit_wigner_with_ff(s, m0, g0, m1, m2, ell, d, phsp_factor=rho))))

    # ---- the four flag combinations of RelativisticBreitWignerBuilder on a synthetic resonance
    m, m_a, m_b, theta, phi = sp.symbols("m m_a m_b theta phi", real=True)
    res = _resonance()
    pool = bld.TwoBodyKinematicVariableSet(m, m_a, m_b, theta, phi, ell)
    p_bld = [*generic, ("m", R), ("m_a", R), ("m_b", R), ("L", N), ("m_R", R), ("Gamma_R", R), ("d_R", R)]
    facts = {}
    for ff_flag, edw_flag in FLAGS:
        b = bld.RelativisticBreitWignerBuilder(form_factor=ff_flag, energy_dependent_width=edw_flag, phsp_factor=rho)
        expr, defaults = b(res, pool)
        name = f"builder_ff{int(ff_flag)}_edw{int(edw_flag)}"
        tr = translator()
        body = tr(expr)
        unknown = set(tr.symbols) - {n for n, _ in p_bld}
        if unknown:
            raise X.Untranslatable(f"{name} contains symbols {sorted(unknown)} that the builder should not introduce")
        defs.append(TDef(name, p_bld, C, body, nonneg=nonneg_of(tr),
                         doc=f"RelativisticBreitWignerBuilder(form_factor={ff_flag}, energy_dependent_width={edw_flag}, "
                             "phsp_factor=rho)(resonance, variable_pool)[0]"))
        facts[f"{name}_defaults"] = _defaults_fact(defaults)
    facts.update(_discrete_facts(bld, dyn, ps, sp))
    facts.update(hist.none_facts())

    # ---- concrete instances (real FormFactor, each real phase-space class) for the Float-twin validation
    sy = lambda *names: [("sym", n) for n in names]  # noqa: E731
    p_inst = [("s", R), ("m0", R), ("Gamma0", R), ("m1", R), ("m2", R), ("L", N), ("d", R)]
    p_binst = [("m", R), ("m_a", R), ("m_b", R), ("L", N), ("m_R", R), ("Gamma_R", R), ("d_R", R)]
    fl = [m, m_a, m_b]
    r_m, r_g, r_d = sp.Symbol("m_{R}", nonnegative=True), sp.Symbol(R"\Gamma_{R}", nonnegative=True), sp.Symbol("d_{R}", positive=True)
    for cname in RHO:
        cls = getattr(ps, cname)
        fr = [("dref", "FormFactor"), ("dref", cname)]
        defs.append(TDef(f"EDW_{cname}", p_inst, C,
                         ("app", "EnergyDependentWidth", [*fr, *sy("s", "m0", "Gamma0", "m1", "m2", "L", "d")])))
        # (numpy's PhaseSpaceFactor at s < 0 depends on the sign of a zero imaginary part, see C11)
        szr = (lambda pt: pt[0] < 0) if cname == "PhaseSpaceFactor" else None
        reals[f"EDW_{cname}"] = Real(None, None, (s,), mp_only=szr, family=lambda pt, cls=cls: (
            pt[5], dyn.EnergyDependentWidth(s, m0, g0, m1, m2, sp.Integer(pt[5]), d, phsp_factor=cls), [s, m0, g0, m1, m2, d]))
        defs.append(TDef(f"BWFF_{cname}", p_inst, C,
                         ("app", "relativisticBreitWignerWithFF", [*fr, *sy("s", "m0", "Gamma0", "m1", "m2", "L", "d")])))
        reals[f"BWFF_{cname}"] = Real(None, None, (s,), mp_only=szr, family=lambda pt, cls=cls: (
            pt[5], dyn.relativistic_breit_wigner_with_ff(s, m0, g0, m1, m2, sp.Integer(pt[5]), d, phsp_factor=cls),
            [s, m0, g0, m1, m2, d]))
        for ff_flag, edw_flag in FLAGS:
            if not edw_flag and cname != RHO[0]:
                continue  # without energy-dependent width the phase-space factor does not occur
            bname = f"builder_ff{int(ff_flag)}_edw{int(edw_flag)}"
            iname = f"B{int(ff_flag)}{int(edw_flag)}_{cname}"
            defs.append(TDef(iname, p_binst, C,
                             ("app", bname, [*fr, *sy("m", "m_a", "m_b", "L", "m_R", "Gamma_R", "d_R")])))

            def fam(pt, cls=cls, ff_flag=ff_flag, edw_flag=edw_flag):
                pool_k = bld.TwoBodyKinematicVariableSet(m, m_a, m_b, theta, phi, int(pt[3]))
                e = bld.RelativisticBreitWignerBuilder(ff_flag, edw_flag, cls)(res, pool_k)[0]
                return (pt[3], e, [*fl, r_m, r_g, r_d])

            reals[iname] = Real(None, None, (m,), family=fam)
    X.check_types(defs)
    return defs, reals, facts


def _defaults_fact(defaults):
    return sorted((str(k), float(v)) for k, v in defaults.items())


def _discrete_facts(bld, dyn, ps, sp):
    """Facts about the builder API that are not formulas; evaluated on the real objects."""
    facts = {}
    m, m_a, m_b, theta, phi = sp.symbols("m m_a m_b theta phi", real=True)
    pool = bld.TwoBodyKinematicVariableSet(m, m_a, m_b, theta, phi, 2)
    res = _resonance()
    # identifier falls back to the name when the particle has no LaTeX
    res2 = _resonance(latex=None)
    e2, d2 = bld.RelativisticBreitWignerBuilder(True, True)(res2, pool)
    facts["identifier_falls_back_to_name"] = sorted(str(k) for k in d2) == sorted(
        [f"m_{{{res2.name}}}", Rf"\Gamma_{{{res2.name}}}", f"d_{{{res2.name}}}"])
    # the three module-level convenience builders are the documented flag combinations
    sm, sg, sd = sp.Symbol("m_{R}", nonnegative=True), sp.Symbol(R"\Gamma_{R}", nonnegative=True), sp.Symbol("d_{R}", positive=True)
    e, dflt = bld.create_relativistic_breit_wigner(res, pool)
    facts["create_relativistic_breit_wigner_is_function"] = bool(e == dyn.relativistic_breit_wigner(m**2, sm, sg))
    facts["create_relativistic_breit_wigner_defaults"] = _defaults_fact(dflt)
    e, dflt = bld.create_relativistic_breit_wigner_with_ff(res, pool)
    facts["create_relativistic_breit_wigner_with_ff_is_function"] = bool(
        e == dyn.relativistic_breit_wigner_with_ff(m**2, sm, sg, m_a, m_b, 2, sd, phsp_factor=ps.PhaseSpaceFactor))
    facts["create_relativistic_breit_wigner_with_ff_defaults"] = _defaults_fact(dflt)
    e, dflt = bld.create_analytic_breit_wigner(res, pool)
    facts["create_analytic_breit_wigner_is_function"] = bool(
        e == dyn.relativistic_breit_wigner_with_ff(m**2, sm, sg, m_a, m_b, 2, sd, phsp_factor=ps.EqualMassPhaseSpaceFactor))
    facts["create_analytic_breit_wigner_defaults"] = _defaults_fact(dflt)
    # default phase-space factor of the builder and of EnergyDependentWidth
    e, _ = bld.RelativisticBreitWignerBuilder(True, True)(res, pool)
    facts["builder_default_phsp_factor"] = bool(
        e == dyn.relativistic_breit_wigner_with_ff(m**2, sm, sg, m_a, m_b, 2, sd, phsp_factor=ps.PhaseSpaceFactor))
    return facts


_D_MG = [("\\Gamma_{R}", RES_WIDTH), ("m_{R}", RES_MASS)]
_D_MGD = sorted([*_D_MG, ("d_{R}", 1.0)])
EXPECTED_FACTS = {
    "builder_ff0_edw0_defaults": sorted(_D_MG),
    "builder_ff1_edw0_defaults": _D_MGD,
    "builder_ff0_edw1_defaults": _D_MGD,
    "builder_ff1_edw1_defaults": _D_MGD,
    "identifier_falls_back_to_name": True,
    "create_relativistic_breit_wigner_is_function": True,
    "create_relativistic_breit_wigner_defaults": sorted(_D_MG),
    "create_relativistic_breit_wigner_with_ff_is_function": True,
    "create_relativistic_breit_wigner_with_ff_defaults": _D_MGD,
    "create_analytic_breit_wigner_is_function": True,
    "create_analytic_breit_wigner_defaults": _D_MGD,
    "builder_default_phsp_factor": True,
    # what a call WITHOUT angular momentum does (read off the clean tree: __simple_breit_wigner needs no L,
    # the form-factor / width code raises ValueError("Angular momentum is not defined ..."))
    "L_None_plain_builder_returns_plain_breit_wigner": True,
    "L_None_with_form_factor_or_width_raises": ["ValueError:angular momentum"] * 3 + ["ValueError"],
}


# ------------------------------------------------------------------------------ points

_PHSP = {"BreakupMomentumSquared", "ComplexSqrt", "PhaseSpaceFactor", "PhaseSpaceFactorAbs", "PhaseSpaceFactorComplex",
         "chewMandelstamSWave", "PhaseSpaceFactorSWave", "analyticContinuation", "EqualMassPhaseSpaceFactor"}
_TIER = {"lmax": 4}


def _lineshape_point(rng, lmax):
    m1, m2 = c11.mass_pair(rng, rng.choice(["equal", "generic", "generic", "dyadic"]))
    thr = m1 + m2
    m0 = thr * rng.uniform(1.05, 3.0) if rng.random() < 0.8 else thr * rng.uniform(0.5, 0.95)
    g0 = rng.uniform(0.01, 0.5)
    region = rng.choice(["above", "above", "above", "between", "neg"])
    s = c11.s_value(rng, m1, m2, region)
    ell = rng.randint(0, lmax)
    d = rng.choice([1.0, rng.uniform(0.3, 5.0)])
    return s, m0, g0, m1, m2, ell, d


def points(name, rng, n):
    lmax = _TIER["lmax"]
    pts = []
    if name in _PHSP:
        return c11.points(name, rng, max(4, n // 4))
    if name.startswith("SphericalHankel1_"):
        return [[rng.choice([1.0, rng.uniform(0.05, 30)])] for _ in range(max(4, n // 4))]
    if name == "BlattWeisskopfHankelC_0":
        return [[rng.choice([-1.0, 1.0]) * 10 ** rng.uniform(-2, 1)] for _ in range(max(6, n // 4))]
    if name.startswith(("BlattWeisskopfHankel_", "BlattWeisskopfSquared_")):
        return [[rng.choice([1.0, 10 ** rng.uniform(-4, 4)])] for _ in range(max(4, n // 4))]
    for _ in range(n):
        s, m0, g0, m1, m2, ell, d = _lineshape_point(rng, lmax)
        if name == "FormFactor":
            pts.append([s, m1, m2, ell, d])
        elif name == "relativisticBreitWigner":
            pts.append([s, m0, g0])
        elif name.startswith(("EDW_", "BWFF_")):
            pts.append([s, m0, g0, m1, m2, ell, d])
        else:  # builder instances: (m, m_a, m_b, L, m_R, Gamma_R, d_R)
            if s <= 0:
                s = c11.s_value(rng, m1, m2, "above")
            pts.append([math.sqrt(s), m1, m2, ell, m0, g0, d])
    return pts


# ------------------------------------------------------------------------------ independent oracle


def search(chk: common.Check, rng, n: int, tier: str):  # noqa: C901, PLR0912, PLR0915
    """Every clause of C12 evaluated numerically on the real code (doit + lambdify/evalf)."""
    import mpmath
    import numpy as np
    import sympy as sp

    import ampform.dynamics as dyn
    from ampform.dynamics import builder as bld
    from ampform.dynamics import form_factor as ffm
    from ampform.dynamics import phasespace as ps

    lmax = 4 if tier == "quick" else LMAX
    bad = []
    s, m0, g0, m1, m2, d = sp.symbols("s m0 Gamma0 m1 m2 d", real=True)
    z = sp.Symbol("z", nonnegative=True)
    cache = {}

    def fn(key, make, args, complex_args=(s,)):
        if key not in cache:
            real = Real(make(), args, complex_args)
            cache[key] = (X.numpy_fn(real), X.mpmath_fn(real))
        return cache[key]

    def close(a, b, tol=1e-9):
        return abs(a - b) <= tol * max(1.0, abs(a), abs(b))

    # ---- Blatt-Weisskopf: normalisation, threshold behaviour, bound, polynomial = Hankel (numeric and symbolic-L path)
    ell_sym = sp.Symbol("L", integer=True, nonnegative=True)
    for k in range(lmax + 1):
        f_poly = fn(("bw", k), lambda k=k: ffm.BlattWeisskopfSquared(z, sp.Integer(k)), [z], ())[1]
        f_hank = fn(("bwh", k), lambda k=k: ffm._formulate_blatt_weisskopf(sp.Integer(k), z), [z], ())[1]
        f_sym = fn(("bws", k), lambda k=k: ffm.BlattWeisskopfSquared(z, ell_sym).doit().xreplace({ell_sym: sp.Integer(k)}).doit(), [z], ())[1]
        one = X.mp_call(f_poly, [1.0])
        chk.count(("bw-one", k))
        if not close(one, 1.0, 1e-30):
            bad.append({"what": "B_L²(1) != 1", "L": k, "value": str(one)})
        # z^L behaviour at threshold: B(z)/z^L tends to a positive constant
        with mpmath.workdps(50):
            r1 = f_poly(mpmath.mpf(10) ** -12) / (mpmath.mpf(10) ** -12) ** k
            r2 = f_poly(mpmath.mpf(10) ** -14) / (mpmath.mpf(10) ** -14) ** k
        chk.count(("bw-threshold", k))
        if not (r1 > 0 and r2 > 0 and abs(r1 / r2 - 1) < 1e-9):
            bad.append({"what": "B_L²(z) does not behave like c·z^L (c > 0) at threshold", "L": k, "ratio_1e-12": str(r1), "ratio_1e-14": str(r2)})
        with mpmath.workdps(50):
            sup = f_poly(mpmath.mpf(10) ** 30)
        for j in range(max(6, n // 20)):
            zv = 10 ** rng.uniform(-6, 6)
            a, b, c = X.mp_call(f_poly, [zv]), X.mp_call(f_hank, [zv]), X.mp_call(f_sym, [zv])
            chk.count(("bw-paths", k, j))
            if not (close(a, b, 1e-25) and close(a, c, 1e-25)):
                bad.append({"what": "Blatt-Weisskopf polynomial path != Hankel definition", "L": k, "z": zv,
                            "polynomial": str(a), "hankel_integer_L": str(b), "hankel_symbolic_L": str(c)})
            if not (0 <= a.real <= float(sup) * (1 + 1e-12) and a.imag == 0):
                bad.append({"what": "B_L²(z) leaves [0, sup]", "L": k, "z": zv, "value": str(a), "sup": str(sup)})
    # ---- Gamma(m0²) = Gamma0 and the PDG form of the width, all phase-space factors x L
    rho_classes = [getattr(ps, c) for c in RHO]
    for i in range(n):
        sv, m0v, g0v, m1v, m2v, k, dv = _lineshape_point(rng, lmax)
        if sv == 0:
            continue
        cls = rho_classes[i % len(rho_classes)]
        f_w = fn(("edw", cls.__name__, k), lambda cls=cls, k=k: dyn.EnergyDependentWidth(s, m0, g0, m1, m2, sp.Integer(k), d, phsp_factor=cls),
                 [s, m0, g0, m1, m2, d])[1]
        f_ff = fn(("ff", k), lambda k=k: ffm.FormFactor(s, m1, m2, sp.Integer(k), d), [s, m1, m2, d])[1]
        f_rho = fn(("rho", cls.__name__), lambda cls=cls: cls(s, m1, m2), [s, m1, m2])[1]
        with mpmath.workdps(50):
            s0 = mpmath.mpf(m0v) ** 2
            rho0 = X.mp_call(f_rho, [s0, m1v, m2v])
            ff0 = X.mp_call(f_ff, [s0, m1v, m2v, dv])
            if not (abs(rho0) > 1e-6 and abs(ff0) > 1e-6 and math.isfinite(abs(rho0)) and math.isfinite(abs(ff0))):
                continue
            w0 = X.mp_call(f_w, [s0, m0v, g0v, m1v, m2v, dv])
        chk.count(("width-at-pole", cls.__name__, k, i))
        if not close(w0, g0v, 1e-20):
            bad.append({"what": "Gamma(m0²) != Gamma0", "phsp_factor": cls.__name__, "L": k, "m0": m0v, "Gamma0": g0v, "m1": m1v, "m2": m2v, "d": dv, "value": str(w0)})
        w = X.mp_call(f_w, [sv, m0v, g0v, m1v, m2v, dv])
        rho_s, ff_s = X.mp_call(f_rho, [sv, m1v, m2v]), X.mp_call(f_ff, [sv, m1v, m2v, dv])
        if all(math.isfinite(abs(v)) for v in (w, rho_s, ff_s)):
            expect = g0v * (ff_s / ff0) ** 2 * rho_s / rho0
            chk.count(("width-form", cls.__name__, k, i))
            if not close(w, expect, 1e-12):
                bad.append({"what": "Gamma(s) != Gamma0 (F(s)/F(m0²))² rho(s)/rho(m0²)", "phsp_factor": cls.__name__, "L": k, "s": sv, "m0": m0v, "Gamma0": g0v,
                            "m1": m1v, "m2": m2v, "d": dv, "value": str(w), "expected": str(expect)})
        if i < 2:
            chk.sample({"oracle": "width", "phsp_factor": cls.__name__, "L": k, "point": [sv, m0v, g0v, m1v, m2v, dv], "Gamma(m0^2)": str(w0), "Gamma(s)": str(w)})
    # ---- builder expression = public function, all flags x phase-space factors x L; defaults
    m, m_a, m_b, theta, phi = sp.symbols("m m_a m_b theta phi", real=True)
    res = _resonance()
    for i in range(max(8, n // 4)):
        sv, m0v, g0v, m1v, m2v, k, dv = _lineshape_point(rng, lmax)
        if sv <= 0:
            sv = c11.s_value(rng, m1v, m2v, "above")
        cls = rho_classes[i % len(rho_classes)]
        ff_flag, edw_flag = FLAGS[(i // len(rho_classes)) % 4]
        pool = bld.TwoBodyKinematicVariableSet(m, m_a, m_b, theta, phi, k)
        expr, defaults = bld.RelativisticBreitWignerBuilder(ff_flag, edw_flag, cls)(res, pool)
        names = {str(sym): sym for sym in defaults}
        mr, gr = names.get("m_{R}"), names.get("\\Gamma_{R}")
        dr = names.get("d_{R}")
        ok_defaults = (mr is not None and gr is not None and defaults[mr] == res.mass and defaults[gr] == res.width
                       and ((dr is not None and defaults[dr] == 1) if (ff_flag or edw_flag) else dr is None))
        chk.count(("builder-defaults", ff_flag, edw_flag, cls.__name__, k))
        if not ok_defaults:
            bad.append({"what": "builder parameter defaults are not the resonance's mass/width (and radius 1)", "flags": [ff_flag, edw_flag], "defaults": str(defaults)})
            continue
        subs = {m: sp.Float(math.sqrt(sv), 30), m_a: sp.Float(m1v, 30), m_b: sp.Float(m2v, 30), mr: sp.Float(m0v, 30), gr: sp.Float(g0v, 30)}
        if dr is not None:
            subs[dr] = sp.Float(dv, 30)
        got = complex(_mp_eval(expr, subs))
        sval = sp.Float(math.sqrt(sv), 30) ** 2
        M, G, D = sp.Float(m0v, 30), sp.Float(g0v, 30), sp.Float(dv, 30)
        A, B = sp.Float(m1v, 30), sp.Float(m2v, 30)
        if ff_flag and edw_flag:
            ref = dyn.relativistic_breit_wigner_with_ff(sval, M, G, A, B, k, D, phsp_factor=cls)
        elif not ff_flag and not edw_flag:
            ref = dyn.relativistic_breit_wigner(sval, M, G)
        elif ff_flag:
            ref = dyn.FormFactor(sval, A, B, k, D) * dyn.relativistic_breit_wigner(sval, M, G)
        else:
            ref = M * G / (M**2 - sval - dyn.EnergyDependentWidth(sval, M, G, A, B, k, D, phsp_factor=cls) * M * sp.I)
        want = complex(_mp_eval(ref, {}))
        chk.count(("builder-vs-function", ff_flag, edw_flag, cls.__name__, k, i))
        if math.isfinite(abs(want)) and math.isfinite(abs(got)) and not close(got, want, 1e-12):
            bad.append({"what": "builder expression != public lineshape function", "flags": {"form_factor": ff_flag, "energy_dependent_width": edw_flag},
                        "phsp_factor": cls.__name__, "L": k, "m": math.sqrt(sv), "m_a": m1v, "m_b": m2v, "mass": m0v, "width": g0v, "d": dv,
                        "builder": str(got), "function": str(want)})
        if len(bad) > 20:
            break
    _ = np
    # ---- histories: purity of __call__ on one builder object (fresh and module-level objects)
    bad += hist.purity_oracle(chk, rng, 40 if tier == "quick" else 400)
    # histories with the phase-space FACTOR OBJECT as part of the call (identity, hand calculation, fresh process)
    bad += fhist.oracle(chk, rng, tier)
    # numbers vs symbols (int / Integer / symbolic L), exact pole, defaults, protocol implementations,
    # compound arguments / generated code (notes/HARDENING.md)
    from tools.search import C12_exact

    hard, hinfo = C12_exact.hardening_oracle(chk, rng, tier)
    chk.info("hardening_oracle", hinfo)
    bad += hard
    return bad


def _mp_eval(expr, subs):
    """Numeric value (30 digits) of an ampform expression through its own doit()."""
    import sympy as sp

    from ampform.sympy.math import ComplexSqrt

    e = sp.sympify(expr).xreplace(subs).doit()
    e = e.replace(lambda x: isinstance(x, ComplexSqrt), lambda x: x.get_definition())
    return sp.N(e, 30)


class _Prop(X.TypedT1Property):
    def run(self, tier, seed):
        _TIER["lmax"] = 4 if tier == "quick" else LMAX
        return super().run(tier, seed)


def _history_tie(chk, ctx):
    """T2: call histories on real builder objects vs the Lean state machine (Model/C12Builder.lean)."""
    hist.run_correspondence(chk, ctx["rng"], 60 if ctx["tier"] == "quick" else 600)
    fhist.run_correspondence(chk, ctx["rng"], ctx["tier"])


KNOWN_CLASS = "symbolic-L Hankel path vs integer-L polynomial path, z <= 0"


def signature_of(f):
    sig = {"what": f.get("what")}
    if f.get("class"):
        sig["class"] = f["class"]
    return sig


def replay(data: dict) -> int:
    """./check C12 --replay FILE: factor-object history findings are re-run in new interpreters."""
    import json

    case = (data.get("replay") or data).get("input", {})
    if isinstance(case, dict) and case.get("factor_history_replay"):
        common.use_repo_source()
        return fhist.replay_history(case["factor_history_replay"])
    print(json.dumps(data, indent=1, default=str))
    return 0


PROP = _Prop(
    prop_id="C12",
    sources=SOURCES,
    namespace="C12",
    build_definitions=build_definitions,
    points=points,
    search=search,
    prop_modules=["Ampverif.Props.C12", "Ampverif.Props.C12Factor"],
    n_points={"quick": 24, "thorough": 120},
    n_search={"quick": 120, "thorough": 1500},
    extra_imports=("Ampverif.Lemmas.C12Table",),
    expected_facts=EXPECTED_FACTS,
    post=_history_tie,
    signature_of=signature_of,
    trusted=("history tie: the canonicaliser of tools/corr/C12_history.py (structural equality with the public "
             "function API decides which lineshape a builder result is)",
             "factor-history tie: the skeleton reader of tools/corr/C12_factor.py (tree traversal for EnergyDependentWidth / "
             "FormFactor nodes, factor objects by identity); the cache model Model/C12Factor.lean is hand-written (about 30 lines of logic)",
             "the Blatt-Weisskopf table (c_L, denominator coefficients) is extracted with SymPy's Poly and re-proved "
             "equal to the syntactically translated polynomial path by the kernel (bw_L_eq_table)",),
)

MANIFEST = {
    "technique": "Lean 4 theorems over typed ℝ/ℂ definitions regenerated from the source (translator, generic in the phase-space factor and the form factor), regenerated Blatt-Weisskopf table with generic table theorems, Float/CF-twin validation, independent numeric oracle",
    "design_ref": "DESIGN.md §3 C12",
    "text": (
        "Proof; the Blatt-Weisskopf clauses are table-bounded (L = 0..10, the property's range), everything else is unbounded. "
        "EnergyDependentWidth, relativistic_breit_wigner(_with_ff) and the four flag combinations of RelativisticBreitWignerBuilder "
        "(called on a synthetic resonance and variable set with a symbolic L and a marker phase-space factor) are re-translated on every "
        "run with the phase-space factor rho and the form factor ff as ARBITRARY functions; FormFactor, SphericalHankel1(L,·), the Hankel "
        "form and the cached polynomial form of BlattWeisskopfSquared are re-translated for L = 0..10 together with a table (c_L, "
        "denominator coefficients). Kernel-checked: Γ(s) = Γ0 (F(s)/F(m0²))² ρ(s)/ρ(m0²) and Γ(m0²) = Γ0 for every rho, ff that do not "
        "vanish at the pole (+ the five concrete instantiations); every table entry is well-formed (decide) and equals the translated "
        "polynomial path, hence for all L ≤ 10: B_L²(1) = 1, B_L²(z) = z^L·(c_L/P_L(z)) with c_L > 0, P_L(0) > 0, and 0 ≤ B_L²(z) ≤ c_L "
        "for z ≥ 0; for each L ≤ 10 and z > 0 the polynomial path equals |h_L(1)|²/(|h_L(√z)|² z) built from the translated Hankel "
        "function — z > 0 is necessary: for every z < 0 and L = 0 the defining expression with the principal sqrt is negative while "
        "the polynomial path is 1 (bw_paths_differ_below_zero), which is the KNOWN FINDING 'symbolic-L Hankel path vs integer-L "
        "polynomial path, z <= 0' that every run reproduces on the real code and prints as KNOWN-FINDING (strictly classified: only a "
        "disagreement between the symbolic-L spelling and the integer-L spelling of one call at z <= 0; a disagreement at z > 0, or "
        "between the integer-L path and the documented B_L² formulas for L <= 4 at any real z, is a violation); builder() = relativistic_breit_wigner(m², m_R, Γ_R), builder(ff, edw, ρ) = relativistic_breit_wigner_with_ff(m², m_R, "
        "Γ_R, m_a, m_b, L, d_R, ρ), ff-only = F × simple BW, edw-only = BW with the energy-dependent width, for every ff, rho, L and all "
        "real arguments; at the pole the full lineshape is i·F(m_R²). Discrete facts re-evaluated on the real objects each run: parameter "
        "defaults = resonance mass/width (radius 1) for all flags, identifier fallback, the three module-level convenience builders = the "
        "public functions. Symbolic L (the _SymbolicSum path) is only compared numerically with the polynomial path by the oracle. "
        "Histories: the builder is modelled as a state machine (Model/C12Builder.lean: builder = immutable configuration); proved for "
        "every configuration and every call history on ONE builder object: each output equals what a fresh builder of that "
        "configuration returns for that call and the attributes are unchanged (builder_history_pure, builder_call_k), a call without "
        "angular momentum returns the plain Breit-Wigner for the plain builder and raises otherwise (builder_call_none; pinned on the "
        "tree as facts), plus a kernel-checked witness history for the defect class 'a call stores a fallback on the instance'. The "
        "model is tied to the real class by a history correspondence on every run (60 / 600 seeded histories mixing L = None, 0, 1, 2, "
        "five resonances, two pools, fresh builders of all flag x phase-space combinations and the three module-level builder objects). "
        "Factor-object histories (Model/C12Factor.lean, Props/C12Factor.lean, tools/corr/C12_factor.py): the phase-space factor OBJECT is part "
        "of the call; the builder (four flag combinations, new / re-used / module-level objects), relativistic_breit_wigner_with_ff and "
        "EnergyDependentWidth are modelled as calls that consult a process-global constructor cache keyed on (resonance, pool, L, "
        "key(factor object)); proved for EVERY key function that is injective on factor objects and every history: each call returns what "
        "a fresh process returns for its (resonance, variables, L, factor object) and its width carries exactly the object passed "
        "(factor_history_pure, factor_call_k, factor_history_honours), with kernel-checked witnesses that the key 'qualified name' "
        "(two lambdas of one scope, two closures of one factory) breaks this, also across APIs (qualname_key_witness, "
        "qualname_key_dishonours, qualname_key_crosses_apis). Tied on every run by one in-process history (~130 quick / ~570 thorough "
        "calls; 82 factor objects with 17 qualified names: library classes, named functions, lambdas of one scope, closures of one factory, "
        "functools.partial, callable instances, bound methods of two instances; real, imaginary-below-threshold and complex conventions) "
        "compared call by call with the model (shape, resonance, pool, L, identity of the carried factor object); the oracle checks for "
        "EVERY call: (a) phsp_factor of every width IS the passed object, (b) value at 5 energies incl. below threshold = hand calculation "
        "in plain complex arithmetic with the passed object, and (c) for 16 / 70 selected calls = the same call as the only call of a "
        "fresh interpreter. Two CLASSES of one qualified name (confused by the unchanged library: known finding of C10) are run as an "
        "observation only."
    ),
    "level_note": (
        "Trusted: Lean kernel + Mathlib (axioms propext, Classical.choice, Quot.sound; thorough tier re-checks with leanchecker); the "
        "translator core + c11_ext (validated each run: Float/CF twin of ~70 definitions incl. every (phase-space class × builder flag) "
        "instance vs the real lambdified code under numpy complex128 and mpmath, L ≤ 4 quick / ≤ 10 thorough); the extraction of the "
        "table with SymPy's Poly is re-proved against the syntactic translation by the kernel. Modelled: a FormFactor / EnergyDependentWidth "
        "instance is read as a call of the corresponding generated definition with the instance's arguments and phsp_factor attribute "
        "(checked: the attribute must be the object passed in). In the history tie a builder result is canonicalised to the NAME of the "
        "public lineshape it is structurally equal to (for that call's resonance symbols, pool, L, phase-space class); the Lean state "
        "machine is hand-written (about 25 lines of logic). The non-vanishing hypotheses ρ(m0²) ≠ 0, F(m0²) ≠ 0 are hypotheses of the "
        "width theorems (they fail e.g. exactly at threshold). Floating-point evaluation is executed, not modelled. A hardening oracle (tools/search/C12_exact.py) checks on every run: numbers vs symbols with L as int / Integer / substituted Symbol for every public callable, the pole with exact rationals, defaults, phase-space factors given as functions/lambdas/classes (width, function API, builder), compound arguments in generated numpy code. The sub-threshold disagreement of the symbolic-L Hankel path with the integer-L polynomial path (z <= 0) is a known finding (known_findings.json, notes/findings_C12.md), matched by signature."
    ),
}
