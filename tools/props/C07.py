"""C07 — kinematic variables mean what their names say, in every topology.

Proof:   lean/Ampverif/Props/C07.lean about the topology model M2 (Model/Topology.lean) and about
         the regenerated unfolding of InvariantMass (Gen/C07.lean).
Tie:     T2 — descriptors parsed from the REAL expression trees of every isobar topology with
         2..4 (quick) / 2..5 (thorough) final states and all permutations, plus seeded random
         topologies with random edge/node numbering, compared with the Lean model through the line
         protocol; T1 — Gen/C07.lean regenerated and validated by its Float twin.
Oracle:  independent boost-and-rotate implementation (tools/search/C07.py), always run.
"""

from __future__ import annotations

import traceback

from tools.corr import C07 as corr
from tools.lib import common
from tools.translate import core

PROP_ID = "C07"
SOURCES = [
    "src/ampform/kinematics/angles.py",
    "src/ampform/kinematics/phasespace.py",
    "src/ampform/kinematics/lorentz.py",
    "src/ampform/kinematics/__init__.py",
    "src/ampform/helicity/naming.py",
    "src/ampform/helicity/decay.py",
    "src/ampform/sympy/math.py",
]
PROP_MODULES = ["Ampverif.Props.C07", "Ampverif.Props.C07Dalitz"]
NS = "C07"
KNOWN_CLASS = "angle-name collision via opposite-helicity branch"
PARAMS = ["E0", "x0", "y0", "z0", "E1", "x1", "y1", "z1"]
EDGE_QUERIES = ("attached", "sibling", "opp", "parent", "chain", "bchain", "suffix", "mass")


# =========================================================================== T1: Gen/C07.lean


def build_definitions():
    """definitions regenerated from the working tree + the real expressions they came from"""
    import sympy as sp

    from ampform.kinematics.angles import Phi, Theta
    from ampform.kinematics.lorentz import (
        Energy,
        EuclideanNorm,
        InvariantMass,
        ThreeMomentum,
        create_four_momentum_symbol,
    )
    from ampform.sympy._array_expressions import ArraySum
    from ampform.sympy.math import ComplexSqrt
    from tools.translate.c07_ext import ArrayReader, split_complex_sqrt

    p0, p1 = create_four_momentum_symbol(0), create_four_momentum_symbol(1)
    q = ArraySum(p0, p1)
    tr = core.Translator(extra=ArrayReader())
    mass = InvariantMass(q)
    unfolded = mass.doit()
    re_ast, im_ast, arg_ast = split_complex_sqrt(unfolded, tr)
    energy = Energy(q)
    norm = EuclideanNorm(ThreeMomentum(q))
    defs = [
        core.Definition("energy", PARAMS, tr(energy.doit()), doc="Energy(p0 + p1) unfolded"),
        core.Definition("normP", PARAMS, tr(norm.doit()), doc="EuclideanNorm(ThreeMomentum(p0 + p1)) unfolded"),
        core.Definition("invMassArg", PARAMS, arg_ast, doc="the argument of ComplexSqrt in InvariantMass(p0 + p1).doit()"),
        core.Definition("invMassRe", PARAMS, re_ast, doc="real part of InvariantMass(p0 + p1).doit() (ComplexSqrt via get_definition())"),
        core.Definition("invMassIm", PARAMS, im_ast, doc="imaginary part of InvariantMass(p0 + p1).doit()"),
        core.Definition("phi", PARAMS, tr(Phi(q).doit()), doc="Phi(p0 + p1) unfolded"),
        core.Definition("theta", PARAMS, tr(Theta(q).doit()), doc="Theta(p0 + p1) unfolded"),
    ]
    # the REAL polar/azimuthal helicity angle of the helicity child 0 of the isobar (01) in the
    # three-body topology 2 (01): Theta/Phi(BoostZ(beta)·RotY(-Theta)·RotZ(-Phi)·p0), frame p0 + p1
    from qrules.topology import create_isobar_topologies

    from ampform.kinematics.angles import compute_helicity_angles
    from ampform.kinematics.lorentz import create_four_momentum_symbols
    from tools.translate.c07_ext import chain_definitions

    top = corr.relabelled(create_isobar_topologies(3)[0], {0: 2, 1: 0, 2: 1})
    angles3 = {k.name: v for k, v in compute_helicity_angles(create_four_momentum_symbols(top), top).items()}
    if "theta_0^01" not in angles3 or "phi_0^01" not in angles3:
        raise core.Untranslatable(f"three-body topology 2 (01) has no symbol theta_0^01: {sorted(angles3)}")
    chain_defs, chain_facts = chain_definitions(angles3["theta_0^01"], angles3["phi_0^01"], PARAMS)
    defs += chain_defs
    facts = {
        **chain_facts,
        "InvariantMass_is_ComplexSqrt_of_E2_minus_p2": mass.evaluate() == ComplexSqrt(energy**2 - norm**2),
        "ComplexSqrt_definition_has_two_branches": len(ComplexSqrt(sp.Symbol("x", real=True)).get_definition().args) == 2,
    }
    reals = {
        "energy": (energy.doit(), "re"), "normP": (norm.doit(), "re"),
        "invMassRe": (unfolded, "re"), "invMassIm": (unfolded, "im"),
        "phi": (Phi(q).doit(), "re"), "theta": (Theta(q).doit(), "re"),
        "helTheta": (angles3["theta_0^01"].doit(), "re"), "helPhi": (angles3["phi_0^01"].doit(), "re"),
        "helCosArg": (sp.cos(angles3["theta_0^01"].doit()), "re"),
    }
    return defs, reals, facts, (p0, p1)


def render(defs, header):
    gen_mod = f"Ampverif.Gen.{NS}"
    flt_mod = f"Ampverif.GenFloat.{NS}"
    flt = core.render_float(flt_mod, defs, header)
    # not every definition uses every component: keep the driver's stdout free of linter output
    flt = flt.replace(f"namespace {flt_mod}\n", f"set_option linter.unusedVariables false\nnamespace {flt_mod}\n", 1)
    return ((gen_mod, core.render_gen(gen_mod, defs, header)), (flt_mod, flt))


def _header():
    hashes = common.source_blob_hashes(SOURCES)
    return hashes, "sources: " + ", ".join(f"{k}@{v[:10]}" for k, v in hashes.items())


def regenerate_files():
    common.use_repo_source()
    _, header = _header()
    defs, _, _, _ = build_definitions()
    for mod, text in render(defs, header):
        common.write_if_changed(common.LEAN / (mod.replace(".", "/") + ".lean"), text)


def validate_float_twin(chk, defs, reals, syms, rng, n_points):
    """Lean Float twin of every generated definition vs the real lambdified expression"""
    import numpy as np
    import sympy as sp

    pts = []
    for k in range(n_points):
        kind = k % 4
        v = [rng.uniform(-3, 3) for _ in range(8)]
        if kind == 0:      # time-like: energies dominate
            v[0], v[4] = abs(v[0]) + 4, abs(v[4]) + 4
        elif kind == 1:    # on shell with small masses (incl. massless)
            for o in (0, 4):
                m = rng.choice([0.0, rng.uniform(0, 0.5)])
                v[o] = (m * m + v[o + 1] ** 2 + v[o + 2] ** 2 + v[o + 3] ** 2) ** 0.5
        elif kind == 2:    # space-like sums (imaginary mass branch)
            v[0], v[4] = rng.uniform(0, 0.3), rng.uniform(0, 0.3)
        pts.append(v)
    lines, plan = [], []
    for d in defs:
        if d.name not in reals:
            continue
        for pt in pts:
            lines.append(" ".join([d.name, *[str(core.float_bits(x)) for x in pt]]))
            plan.append((d.name, pt))
    out = common.lean_run(f"Ampverif/GenFloat/{NS}.lean", "\n".join(lines) + "\n")
    outs = out.strip().split("\n") if out.strip() else []
    if len(outs) != len(plan):
        chk.broken_correspondence("float-twin", f"driver returned {len(outs)} lines for {len(plan)} requests")
        return
    fcache = {}
    mism = 0
    for (name, pt), o in zip(plan, outs):
        expr, part = reals[name]
        if name not in fcache:
            fcache[name] = sp.lambdify(list(syms), expr, "numpy")
        if o == "bad-op":
            chk.broken_correspondence("float-twin", f"driver rejected {name}")
            return
        lean_val = core.bits_float(int(o.split()[0]))
        arrs = [np.array([pt[0:4]]), np.array([pt[4:8]])]
        with np.errstate(all="ignore"):
            ref = np.asarray(fcache[name](*arrs)).astype(complex).reshape(-1)[0]
        ref_val = float(ref.real if part == "re" else ref.imag)
        both_nan = lean_val != lean_val and ref_val != ref_val
        scale = max(1.0, abs(ref_val)) if ref_val == ref_val else 1.0
        ok = both_nan or abs(lean_val - ref_val) <= 1e-10 * scale
        # sqrt of a difference that cancels: compare the squares with the scale of the terms
        if not ok and name in ("invMassRe", "invMassIm") and lean_val == lean_val and ref_val == ref_val:
            e2 = (pt[0] + pt[4]) ** 2
            ok = abs(lean_val**2 - ref_val**2) <= 1e-12 * max(1.0, e2)
        chk.count((name, tuple(pt)) if ref_val == ref_val else None)
        if not ok:
            mism += 1
            if mism <= 3:
                chk.broken_correspondence("float-twin", {"definition": name, "point": pt, "lean": lean_val, "numpy": ref_val})
    chk.info("translator_validation_points", len(plan))
    chk.info("translator_validation_mismatches", mism)
    if plan:
        chk.sample({"translator_validation": plan[0][0], "point": plan[0][1], "lean_float_bits": outs[0]})


# =========================================================================== T2: correspondence


def parse_defstring(s: str):
    kind, rest = s.split(":", 1)
    if kind == "M":
        return ("M", (), frozenset(int(i) for i in rest.split(".") if i != ""))
    chain_s, target_s = rest.split("@")
    chain = tuple(frozenset(int(i) for i in c.split(".")) for c in chain_s.split(">") if c != "")
    return (kind, chain, frozenset(int(i) for i in target_s.split(".") if i != ""))


def infer_variant(parser) -> tuple[str, str | None]:
    """distinguishing probe: in 0 (12) the opposite-helicity child decays and the helicity child 0
    is a final state; theta_0 = Theta(p1+p2) is the pinned source, Theta(p0) the documented one"""
    from qrules.topology import create_isobar_topologies

    try:
        d = dict(corr.real_angles(parser, create_isobar_topologies(3)[0]))
        _, _, target = parse_defstring(d["theta_0"])
        if target == frozenset([1, 2]):
            return "decaying", None
        if target == frozenset([0]):
            return "helicityState", None
        return "decaying", f"probe theta_0 has unexpected target {sorted(target)}"
    except Exception as e:  # noqa: BLE001
        return "decaying", f"probe failed: {type(e).__name__}: {e}"[:300]


class Harness:
    def __init__(self, chk, tier, seed):
        self.chk, self.tier, self.seed = chk, tier, seed
        self.lines: list[str] = []
        self.expect: list = []      # str | set (for set-valued replies) | None (not compared)
        self.meta: list[dict] = []
        self.topologies: list = []
        self.index: dict = {}
        self.parse_aborts: list[dict] = []
        self.real_defs: dict[int, list[tuple[str, str]]] = {}

    def ask(self, line, expect, **meta):
        self.lines.append(line)
        self.expect.append(expect)
        self.meta.append(meta)

    def add_topology(self, topology, label) -> int:
        if topology in self.index:
            return self.index[topology]
        n = len(self.topologies)
        self.topologies.append(topology)
        self.index[topology] = n
        self.ask(corr.topo_line(n, topology), "ok", what="topo", label=label, n=n)
        return n

    def per_topology(self, parser, n, edge_queries=True, bad_ids=(97, -5)):
        top = self.topologies[n]
        try:
            ang = corr.real_angles(parser, top)
            mas = corr.real_masses(parser, top)
            self.real_defs[n] = ang + mas
            self.ask(f"angles {n}", corr.show_dict(ang), what="angles", n=n)
            self.ask(f"masses {n}", corr.show_dict(mas), what="masses", n=n)
        except corr.ParseAbort as e:
            self.parse_aborts.append({"topology": corr.canonical_topo(top), "abort": str(e)[:300]})
        if edge_queries:
            for e in [*top.edges, *bad_ids]:
                for q in EDGE_QUERIES:
                    self.ask(f"{q} {n} {e}", corr.real_query(q, top, e), what=q, n=n, edge=e)

    def run(self):
        replies = corr.run_lean(self.lines)
        mismatches = []
        for line, exp, meta, got in zip(self.lines, self.expect, self.meta, replies):
            if exp is None:
                continue
            if isinstance(exp, dict):
                ok = dict(x.split("=", 1) for x in got.split(";") if "=" in x) == exp
                exp = show_sorted(exp)
                got = show_sorted(dict(x.split("=", 1) for x in got.split(";") if "=" in x))
            else:
                ok = (set(got.split("|")) == exp) if isinstance(exp, (set, frozenset)) else (got == exp)
            if not ok:
                mismatches.append({"request": line[:300], "real": exp if isinstance(exp, str) else sorted(exp)[:6],
                                   "model": got[:2000], **{k: v for k, v in meta.items() if k != "label"}})
        return replies, mismatches


def show_sorted(d: dict) -> str:
    return ";".join(f"{k}={v}" for k, v in sorted(d.items()))


def first_difference(real: str, model: str):
    """(name, real def, model def) of the first differing dict entry"""
    r = dict(x.split("=", 1) for x in real.split(";") if x)
    m = dict(x.split("=", 1) for x in model.split(";") if x)
    for k in r:
        if m.get(k) != r[k]:
            return k, r[k], m.get(k)
    for k in m:
        if k not in r:
            return k, None, m[k]
    return None


def python_collisions(per_topology: list[list[tuple[str, str]]]):
    """name -> (first definition, first different definition) in merge order"""
    seen: dict[str, str] = {}
    out: dict[str, tuple[str, str]] = {}
    for defs in per_topology:
        for k, v in defs:
            if k not in seen:
                seen[k] = v
            elif seen[k] != v and k not in out:
                out[k] = (seen[k], v)
    return out


def classify_collision(name, per_topology, topologies, final_ids, node_cache=None):
    """does the collision carry the known-finding signature?

    Exactly two definitions of an angle symbol, same kind and chain, whose targets are the two
    children H, O of one decay node (disjoint, together the decaying subsystem), the symbol being
    named after the helicity child H, O being the opposite-helicity child (larger sorted tuple) and
    BOTH decaying; and in every topology that defines the symbol that node exists. The two
    definitions are then `Phi/Theta(momentum of H)` (= sibling of the opposite-helicity child) and
    `Phi/Theta(momentum of the decaying opposite-helicity child O)`."""
    per_topology = [d if isinstance(d, dict) else dict(d) for d in per_topology] if not all(
        isinstance(d, dict) for d in per_topology) else per_topology
    node_cache = {} if node_cache is None else node_cache
    uses = [(i, d[name]) for i, d in enumerate(per_topology) if name in d]
    distinct = sorted({v for _, v in uses})
    info = {"name": name, "definitions": distinct}
    if len(distinct) != 2:
        return False, info
    (k1, c1, t1), (k2, c2, t2) = parse_defstring(distinct[0]), parse_defstring(distinct[1])
    if k1 != k2 or k1 == "M" or c1 != c2 or (t1 & t2):
        return False, info
    parent = c1[-1] if c1 else frozenset(final_ids)
    if (t1 | t2) != parent:
        return False, info
    th, to = (t1, t2) if tuple(sorted(t1)) < tuple(sorted(t2)) else (t2, t1)
    prefix = "phi" if k1 == "P" else "theta"
    if name != prefix + corr.PySpec.name_suffix(th, c1):
        return False, info
    if len(th) < 2 or len(to) < 2:
        return False, info
    for i, _ in uses:
        if i not in node_cache:
            node_cache[i] = {(ch, h[1], o[1]) for ch, h, o in corr.PySpec(topologies[i]).nodes()}
        if (c1, th, to) not in node_cache[i]:
            return False, info
    info.update({"helicity_child": sorted(th), "decaying_opposite_helicity_child": sorted(to),
                 "frames": [sorted(s) for s in c1]})
    return True, info


# =========================================================================== the property


class C07Property:
    prop_id = PROP_ID

    def regenerate(self):
        regenerate_files()

    def run(self, tier: str, seed: int) -> int:  # noqa: C901, PLR0912, PLR0915
        import numpy as np

        from tools.search import C07 as search

        chk = common.Check(PROP_ID, tier, seed)
        common.use_repo_source()
        hashes, header = _header()
        chk.info("source_blobs", hashes)
        rng = common.rng_for(PROP_ID, seed)

        # ---------------------------------------------------------------- T1
        translated = False
        defs = reals = syms = None
        try:
            defs, reals, facts, syms = build_definitions()
            for mod, text in render(defs, header):
                common.write_if_changed(common.LEAN / (mod.replace(".", "/") + ".lean"), text)
            translated = True
            chk.info("generated_definitions", [d.name for d in defs])
            chk.info("facts", facts)
            for k, v in facts.items():
                chk.coverage["obligations"] += 1
                if v is True:
                    chk.coverage["discharged"] += 1
                else:
                    chk.broken_correspondence("fact", f"{k}: source gives {v!r}")
        except core.Untranslatable as e:
            chk.broken_correspondence("translator", f"source no longer translatable: {e}")
        except Exception as e:  # noqa: BLE001
            chk.broken_correspondence("translator", "".join(traceback.format_exception_only(type(e), e))[-600:])

        # C07_dalitz composes with builder C19's regenerated formulate_scattering_angle definitions
        # (Gen/C19.lean, Gen/C19Table.lean): regenerate them from the tree under test as well, so
        # that the composition is re-checked against the current closed form on THIS run
        try:
            import importlib

            importlib.import_module("tools.props.C19").PROP.regenerate()
            chk.info("regenerated_dependency", "Gen/C19.lean, Gen/C19Table.lean (tools.props.C19.PROP.regenerate)")
        except core.Untranslatable as e:
            chk.broken_correspondence("translator", f"formulate_scattering_angle no longer translatable (C19 generator): {e}")
        except Exception as e:  # noqa: BLE001
            chk.note("could not regenerate Gen/C19*.lean through tools.props.C19 (" + f"{type(e).__name__}: {e}"[:200]
                     + "); C07_dalitz is checked against the files on disk")

        # ---------------------------------------------------------------- proofs
        res = common.prove(PROP_ID, PROP_MODULES)
        chk.record_proof(res, "cd lean && lake build " + " ".join(PROP_MODULES) + f" && lake env lean Ampverif/Audit/{PROP_ID}.lean")
        if res["failed"]:
            chk.note("proof obligations not discharged: " + "; ".join(f"{k}: {v[:160]}" for k, v in list(res["failed"].items())[:5]))
        ok_drv, log_drv = common.lake_build(["Ampverif.Model.Topology"])
        if not ok_drv:
            raise common.InfraError("the topology model does not build: " + log_drv[-400:])

        if translated:
            try:
                validate_float_twin(chk, defs, reals, syms, common.rng_for(PROP_ID, seed, "float"),
                                    {"quick": 40, "thorough": 400}[tier])
            except common.LeanRunError as e:
                chk.broken_correspondence("float-twin", f"Lean driver failed: {e}"[:800])
            except Exception as e:  # noqa: BLE001
                chk.broken_correspondence("float-twin", "".join(traceback.format_exception_only(type(e), e))[-600:])

        # ---------------------------------------------------------------- T2
        found: list[tuple[dict, dict]] = []     # (signature, replay)
        variant = "decaying"
        adapters = {}
        try:
            variant, found = self.correspondence(chk, tier, seed, rng, adapters)
        except common.LeanRunError as e:
            chk.broken_correspondence("driver", f"Lean driver failed: {e}"[:800])
        except Exception as e:  # noqa: BLE001
            chk.broken_correspondence("harness", "".join(traceback.format_exception(type(e), e, e.__traceback__))[-1500:])

        # ---------------------------------------------------------------- oracle on the real code
        stats: dict = {}
        bad: list[dict] = []
        try:
            bad = self.oracle(chk, tier, seed, variant, stats, deep=bool(chk.broken))
        except Exception as e:  # noqa: BLE001
            bad = [{"what": "the real code raised while the property was evaluated",
                    "error": "".join(traceback.format_exception(type(e), e, e.__traceback__))[-1500:]}]
        chk.info("oracle", stats)
        seen_what = set()
        for b in bad:
            key = b.get("what")
            if key in seen_what:
                continue
            seen_what.add(key)
            if len(seen_what) > 3:
                break
            found.append(({"class": "oracle", "what": key}, {"input": b}))

        for sig, rep in found:
            chk.failing_input(sig, {**rep, "broken": chk.broken[:5]})
        explained = bool(found) and any(chk.match_known(s) is None for s, _ in found)
        if chk.broken and not explained:
            for b in chk.broken:
                chk.unexplained(b.get("theorem") or b.get("what"), b)

        chk.coverage["rule"] = (
            "evaluations = line-protocol requests compared (real ampform vs Lean model) + translator-validation "
            "points + oracle points (kinematic variable x event, well-conditioned only); distinct_nontrivial counts "
            "distinct (topology, query) pairs of topologies with at least one intermediate edge, distinct "
            "(definition, point) validation pairs and distinct (oracle family, topology, symbol, event kind) groups")
        chk.coverage["trusted_base"] = [
            "Lean 4.33 kernel + Mathlib v4.33 (axioms: see axioms_reported)",
            "tools/corr/C07.py: the strict parser of the real expression trees and the canonical forms of the line protocol",
            "tools/translate (sympy tree -> Lean) for Gen/C07.lean, validated on this run by the Float twin",
            "qrules Topology objects / create_isobar_topologies, sympy lambdify + numpy (executed, not modelled)",
            "that BoostZMatrix/RotationYMatrix/RotationZMatrix are the boosts and rotations their names say is property C08",
        ]
        chk.assumptions += [
            "final-state ids < 10 in the theorems about names (the names concatenate decimal digits); the model itself renders any id",
            "edge ids of a topology are pairwise distinct (qrules keeps them as dict keys)",
            "Dalitz closed form: events given in the rest frame of the decaying particle",
        ]
        return chk.finish()

    # ------------------------------------------------------------------ correspondence
    def correspondence(self, chk, tier, seed, rng, adapters):  # noqa: C901, PLR0912, PLR0915
        from qrules.topology import create_isobar_topologies, create_n_body_topology

        from ampform.kinematics import HelicityAdapter

        parser = corr.DescriptorParser()
        variant, probe_problem = infer_variant(parser)
        chk.info("variant_inferred", f"angleSource={variant}")
        if probe_problem:
            chk.broken_correspondence("variant-probe", probe_problem)
        h = Harness(chk, tier, seed)
        h.ask(f"variant angleSource={variant}", "ok", what="variant")
        nmax = 4 if tier == "quick" else 5
        dist: dict = {"permuted_topologies": {}, "random_topologies": {}, "malformed": 0}
        groups = {}
        for n in range(2, nmax + 1):
            base = create_isobar_topologies(n)
            adapter, tops, exact_order = corr.all_permuted_topologies(n)
            base_idx = [h.add_topology(t, f"base{n}") for t in base]
            idx = [h.add_topology(t, f"perm{n}") for t in tops]
            for i in sorted(set(idx) | set(base_idx)):
                h.per_topology(parser, i)
            groups[n] = (adapter, tops, idx, base_idx, exact_order)
            dist["permuted_topologies"][n] = len(tops)
            # the registered set after permutate_registered_topologies
            h.ask("permute " + " ".join(map(str, base_idx)), {corr.canonical_topo(t) for t in tops}, what="permute", n_final=n)
            h.ask("register " + " ".join(map(str, idx)), f"ok {len(set(tops))}", what="register", n_final=n)
        # the Lean witness (corpus/C07/witness_collision.json) must replay on the real code
        try:
            import json

            wit = json.loads((common.ROOT / "corpus" / "C07" / "witness_collision.json").read_text())
            for side in ("a", "b"):
                t = _topology_from_canonical(wit[f"topology_{side}"])
                h.per_topology(parser, h.add_topology(t, "witness"))
                got = dict(corr.real_angles(parser, t)).get(wit["symbol"])
                if got != wit[variant][side]:
                    chk.broken_correspondence("witness-replay", {"topology": wit[f"topology_{side}"], "symbol": wit["symbol"],
                                                                 "real": got, "lean_witness": wit[variant][side], "variant": variant})
            chk.info("witness_replayed", True)
        except corr.ParseAbort:
            pass  # reported through the parser aborts below
        # seeded random topologies: random shapes, random final-state labelling, random
        # intermediate edge ids and node ids, random edge-dict order
        n_random = {"quick": 60, "thorough": 600}[tier]
        rnd_idx = []
        for _ in range(n_random):
            n = rng.choice([3, 4, 4, 5, 5, 6, 6, 7] if tier == "thorough" else [3, 4, 4, 5, 5, 6])
            t = corr.random_isobar_topology(rng, n)
            before = len(h.topologies)
            i = h.add_topology(t, "random")
            if i >= before:
                h.per_topology(parser, i)
                rnd_idx.append(i)
                dist["random_topologies"][n] = dist["random_topologies"].get(n, 0) + 1
        # a long cascade with two-digit final-state ids: the names concatenate the decimal digits
        big = corr.random_isobar_topology(rng, 12, shuffle_ids=True)
        h.per_topology(parser, h.add_topology(big, "two-digit-ids"), bad_ids=())
        # outside the theorems' hypothesis (ids < 10): what the real code does with two-digit ids —
        # two 13-body cascades: the resonance (0,12) of one and the subsystem (0,1,2) of the other are both named m_012
        try:
            probe = {}
            for label, pair in (("a", (0, 12)), ("b", (1, 2))):
                rest = [i for i in range(13) if i not in pair and i != 0] + ([0] if 0 not in pair else [])
                edges = {-1: (None, 0), pair[0]: (11, None), pair[1]: (11, None)}
                # cascade: node k decays into final state rest[k] and the next node; the last into the pair
                for k, fs in enumerate(rest):
                    edges[fs] = (k, None)
                    edges[100 + k] = (k, k + 1)
                t = corr.make_topology(edges)
                names = dict(corr.real_masses(parser, t))
                probe[label] = {"innermost_resonance": list(pair), "m_012": names.get("m_012")}
            chk.info("two_digit_id_probe", {**probe, "note": "outside the hypothesis ids < 10 of C07_mass/C07_injective: "
                                            "the same name for two different sets (recorded, not judged: the property quantifies over 2..5 final states)"})
        except Exception as e:  # noqa: BLE001
            chk.info("two_digit_id_probe", f"{type(e).__name__}: {e}"[:200])
        # thorough: ALL permuted six-body topologies (descriptors only; no per-edge queries)
        six = None
        if tier == "thorough":
            _, tops6, _ = corr.all_permuted_topologies(6)
            idx6 = [h.add_topology(t, "perm6") for t in tops6]
            for i in idx6:
                h.per_topology(parser, i, edge_queries=False)
            dist["permuted_topologies"][6] = len(tops6)
            six = (tops6, idx6)
        # merge in the adapter's own iteration order, collisions
        for n, (adapter, tops, idx, _, exact_order) in groups.items():
            try:
                merged = [parser.symbol_def(k, v) for k, v in adapter.create_expressions().items()]
                if exact_order:
                    h.ask("merge " + " ".join(map(str, idx)), corr.show_dict(merged), what="merge", n_final=n)
                else:
                    # the private set attribute was renamed: its iteration order cannot be observed, so
                    # the merged dict is only required to give every name one of its topologies' definitions
                    chk.note("HelicityAdapter's topology set is not observable in iteration order; order-exact merge comparison replaced by an order-free one")
                    options: dict = {}
                    for i in idx:
                        for k, v in h.real_defs.get(i, []):
                            options.setdefault(k, set()).add(v)
                    wrong = [k for k, v in merged if v not in options.get(k, set())] + [k for k in options if k not in dict(merged)]
                    if wrong:
                        chk.broken_correspondence("merge-order-free", {"n_final": n, "symbols": wrong[:5]})
            except corr.ParseAbort as e:
                h.parse_aborts.append({"topology": f"create_expressions n={n}", "abort": str(e)[:300]})
            per = [h.real_defs.get(i) for i in idx]
            if all(p is not None for p in per):
                cols = python_collisions(per)
                h.ask("collisions " + " ".join(map(str, idx)),
                      ";".join(f"{k}={a}/{b}" for k, (a, b) in cols.items()), what="collisions", n_final=n)
            # a second iteration order (reverse): the model must follow the order it is given
            ridx = list(reversed(idx))
            per_r = [h.real_defs.get(i) for i in ridx]
            if all(p is not None for p in per_r):
                out: dict = {}
                for defs in per_r:
                    out.update(dict(defs))
                h.ask("merge " + " ".join(map(str, ridx)), corr.show_dict(out.items()), what="merge-reversed", n_final=n)
        # ---- HARDENING rules 3 and 6: fresh processes, other evaluation orders, one adapter vs
        # single topologies, both registration orders, second call == first, hash seeds
        plans = ([((3, 4), "reversed", "1")] if tier == "quick"
                 else [((3, 4, 5), "reversed", "0"), ((3, 4, 5), "shuffle:1", "4242"), ((3, 4), "forward", None)])
        canon_index = {corr.canonical_topo(t): i for i, t in enumerate(h.topologies)}
        iteration_orders: dict = {}
        for n, (_, tops, idx, _, exact_order) in groups.items():
            if exact_order:
                iteration_orders.setdefault(n, set()).add(tuple(corr.canonical_topo(t) for t in tops))
        history_findings: list = []
        for n_finals, order, hseed in plans:
            wres = corr.run_worker([n for n in n_finals if n in groups], order, hseed)
            if "error" in wres:
                chk.broken_correspondence("worker", wres["error"])
                continue
            dist.setdefault("fresh_process_workers", []).append({"n_finals": list(n_finals), "order": order, "PYTHONHASHSEED": hseed or "unset"})
            for n_s, res in wres["n"].items():
                n = int(n_s)
                if "parse_abort" in res:
                    h.parse_aborts.append({"topology": f"fresh process n={n}", "abort": res["parse_abort"]})
                    continue
                if "error" in res:
                    chk.broken_correspondence("worker", {"n_final": n, "error": res["error"]})
                    continue
                if not res.get("second_call_equal", True):
                    history_findings.append({"what": "create_expressions() of one adapter differs between the first and the second call", "n_final_states": n})
                for canon, defs in res.get("per_topology", {}).items():
                    i = canon_index.get(canon)
                    if i is None or i not in h.real_defs:
                        continue
                    chk.count(("fresh-process", order, hseed, canon))
                    mine, theirs = dict(h.real_defs[i]), {k: v for k, v in defs}
                    if mine != theirs:
                        k = next(k for k in sorted(set(mine) | set(theirs)) if mine.get(k) != theirs.get(k))
                        history_findings.append({
                            "what": "the definition of a kinematic variable depends on what was evaluated before in the process",
                            "topology": canon, "symbol": k, "in_this_process": mine.get(k),
                            "in_a_fresh_process": theirs.get(k), "fresh_process_order": order})
                for it_key, mg_key, label in (("iteration", "merged", "merge-fresh-process"),
                                              ("reversed_iteration", "reversed_merged", "merge-reversed-registration")):
                    if it_key in res and mg_key in res and (it_key != "iteration" or res.get("exact_order")):
                        ids_ = [canon_index.get(c) for c in res[it_key]]
                        if None in ids_:
                            continue
                        iteration_orders.setdefault(n, set()).add(tuple(res[it_key]))
                        h.ask("merge " + " ".join(map(str, ids_)), {k: v for k, v in res[mg_key]}, what=label, n_final=n)
        chk.info("distinct_adapter_iteration_orders_observed", {n: len(v) for n, v in iteration_orders.items()})
        # random pairs/triples of random topologies with equal final states
        for _ in range({"quick": 10, "thorough": 100}[tier]):
            if len(rnd_idx) < 2:
                break
            pick = rng.sample(rnd_idx, min(len(rnd_idx), rng.choice([2, 3])))
            fs = {frozenset(h.topologies[i].outgoing_edge_ids) for i in pick}
            if len(fs) == 1:
                out = {}
                for i in pick:
                    out.update(dict(h.real_defs.get(i, [])))
                if all(i in h.real_defs for i in pick):
                    h.ask("merge " + " ".join(map(str, pick)), corr.show_dict(out.items()), what="merge-random")
            else:
                try:
                    ad = HelicityAdapter([h.topologies[pick[0]]])
                    for i in pick[1:]:
                        ad.register_topology(h.topologies[i])
                    exp = f"ok {len(ad.registered_topologies)}"
                except Exception as e:  # noqa: BLE001
                    exp = corr.err_name(e)
                h.ask("register " + " ".join(map(str, pick)), exp, what="register-mismatch")
                dist["malformed"] += 1
        # registration HISTORIES on one adapter with rejected calls caught (exception safety): what stays
        # registered must be exactly the accepted topologies, and create_expressions() afterwards must be the
        # merge of those alone (a rejected topology that stays registered gives names a second meaning)
        hist_n = {"quick": 24, "thorough": 200}[tier]
        found_hist: list[tuple[dict, dict]] = []
        n_hist = n_rejected = 0
        all_idx = list(range(len(h.topologies)))
        for _ in range(hist_n):
            if len(all_idx) < 3:
                break
            base = rng.choice(all_idx)
            same = [i for i in all_idx if frozenset(h.topologies[i].outgoing_edge_ids) == frozenset(h.topologies[base].outgoing_edge_ids)
                    and frozenset(h.topologies[i].incoming_edge_ids) == frozenset(h.topologies[base].incoming_edge_ids)]
            other = [i for i in all_idx if i not in same]
            if not other:
                continue
            seq = [base] + [rng.choice(other) if rng.random() < 0.5 else rng.choice(same) for _ in range(rng.randint(1, 4))]
            if all(i in same for i in seq):
                seq.insert(rng.randint(1, len(seq)), rng.choice(other))
            try:
                ad = HelicityAdapter([h.topologies[seq[0]]])
            except Exception:  # noqa: BLE001  (a non-isobar base: covered by the malformed stream)
                continue
            errs, kept = 0, [seq[0]]
            for i in seq[1:]:
                try:
                    ad.register_topology(h.topologies[i])
                    kept.append(i)
                except Exception:  # noqa: BLE001
                    errs += 1
            n_hist += 1
            n_rejected += errs
            h.ask("reghist " + " ".join(map(str, seq)), f"kept {len(ad.registered_topologies)} errs {errs}", what="register-history")
            # real-side oracle: the adapter after the history == a fresh adapter with the accepted topologies only
            try:
                got = ad.create_expressions()
                ref_ad = HelicityAdapter([h.topologies[kept[0]]])
                for i in kept[1:]:
                    ref_ad.register_topology(h.topologies[i])
                ref = ref_ad.create_expressions()
                same_defs = list(got) == list(ref) and all(got[k] == ref[k] for k in ref)
            except Exception as e:  # noqa: BLE001
                same_defs, got, ref = False, {"error": corr.err_name(e)}, {}
            if not same_defs:
                diff = sorted(str(k) for k in set(got) | set(ref) if got.get(k) != ref.get(k))[:6]
                found_hist.append(({"class": "rejected register_topology call changes the adapter"},
                                   {"input": {"history": [corr.canonical_topo(h.topologies[i]) for i in seq],
                                              "accepted_positions": [seq.index(i) for i in kept]},
                                    "observed": {"differing_variables": diff, "registered": len(ad.registered_topologies)},
                                    "expected": "create_expressions() of a fresh adapter holding the accepted topologies only"}))
        dist["register_histories"] = n_hist
        dist["register_histories_rejected_calls"] = n_rejected
        # malformed stream: non-isobar topologies
        for n_out in (3, 4):
            t = create_n_body_topology(1, n_out)
            try:
                HelicityAdapter([t])
                exp = "ok"
            except Exception as e:  # noqa: BLE001
                exp = corr.err_name(e)
            i = len(h.topologies)
            h.topologies.append(t)
            h.ask(corr.topo_line(i, t), exp, what="non-isobar")
            dist["malformed"] += 1
        # natural sorting of the names that occur
        names = sorted({k for defs in h.real_defs.values() for k, _ in defs if " " not in k})
        from ampform.helicity.naming import natural_sorting

        for _ in range({"quick": 20, "thorough": 200}[tier]):
            pick = rng.sample(names, min(len(names), rng.randint(2, 12)))
            h.ask("natsort " + " ".join(pick), " ".join(sorted(pick, key=natural_sorting)), what="natsort")

        replies, mismatches = h.run()
        chk.info("input_distribution", {
            **dist, "requests": len(h.lines),
            "requests_by_kind": {k: sum(1 for m in h.meta if m.get("what") == k) for k in sorted({m.get("what") for m in h.meta})},
            "topologies_total": len(h.topologies),
        })
        for line, meta in zip(h.lines, h.meta):
            n = meta.get("n")
            nontrivial = n is not None and len(h.topologies[n].edges) > 3
            chk.count((meta.get("what"), n, meta.get("edge")) if nontrivial or meta.get("what") in ("merge", "collisions", "permute") else None)
        shown = set()
        for line, exp, meta, got in zip(h.lines, h.expect, h.meta, replies):
            kind = meta.get("what")
            n = meta.get("n")
            if kind in ("angles", "masses", "suffix", "merge-random") and kind not in shown and (n is None or len(h.topologies[n].edges) >= 7):
                shown.add(kind)
                chk.sample({"request": line[:80], "topology": corr.canonical_topo(h.topologies[n]) if n is not None else None,
                            "real": str(exp)[:400], "model": got[:400]})

        found: list[tuple[dict, dict]] = list(found_hist[:3])
        for ab in h.parse_aborts[:3]:
            chk.broken_correspondence("parser", ab)
        if h.parse_aborts:
            chk.info("parse_aborts", len(h.parse_aborts))
        for m in mismatches[:5]:
            chk.broken_correspondence("model-vs-real", m)
        chk.info("correspondence_mismatches", len(mismatches))
        # a descriptor that differs from the model is a concrete failing input (topology + symbol)
        for m in mismatches:
            if m.get("what") in ("angles", "masses") and isinstance(m.get("real"), str):
                diff = first_difference(m["real"], m["model"])
                if diff:
                    top = h.topologies[m["n"]]
                    found.append(({"class": "descriptor differs from the model", "symbol": diff[0]},
                                  {"input": {"topology": corr.canonical_topo(top), "symbol": diff[0],
                                             "real_definition": diff[1], "model_definition": diff[2],
                                             "variant": variant}}))
                    break
        for m in mismatches:
            if m.get("what") in EDGE_QUERIES or m.get("what") in ("permute", "register", "non-isobar", "register-mismatch", "natsort"):
                found.append(({"class": "helper differs from the model", "query": m.get("what")},
                              {"input": {"request": m["request"], "real": m["real"], "model": m["model"],
                                         "topology": corr.canonical_topo(h.topologies[m["n"]]) if m.get("n") is not None and m["n"] < len(h.topologies) else None}}))
                break

        for hf in history_findings[:3]:
            chk.broken_correspondence("history", hf)
            found.append(({"class": "history dependence", "what": hf["what"]}, {"input": hf}))
        for m in mismatches:
            if str(m.get("what", "")).startswith("merge"):
                found.append(({"class": "merged dictionary differs from the model", "query": m.get("what")},
                              {"input": {"request": m["request"], "real": str(m["real"])[:1500], "model": m["model"][:1500]}}))
                break
        # ---- collisions on the real dictionaries (independent of the Lean model)
        col_stats = {}
        cache: dict = {}
        from tools.search import C07 as search

        col_groups = {n: (g[1], g[2]) for n, g in groups.items()}
        if six is not None:
            col_groups[6] = six
        for n, (tops, idx) in col_groups.items():
            per = [h.real_defs.get(i) for i in idx]
            if any(p is None for p in per):
                continue
            cols = python_collisions(per)
            col_stats[n] = len(cols)
            final_ids = sorted(tops[0].outgoing_edge_ids)
            reported_known = False
            per_d = [dict(d) for d in per]
            node_cache: dict = {}
            for name in cols:
                known, info = classify_collision(name, per_d, tops, final_ids, node_cache)
                ia = next(i for i, d in enumerate(per_d) if d.get(name) == cols[name][0])
                ib = next(i for i, d in enumerate(per_d) if d.get(name) == cols[name][1])
                replay = {"input": {"n_final_states": n, "symbol": name, "definitions": list(cols[name]),
                                    "topology_a": corr.canonical_topo(tops[ia]), "topology_b": corr.canonical_topo(tops[ib]),
                                    **{k: v for k, v in info.items() if k not in ("name", "definitions")}}}
                if known and variant == "decaying":
                    if reported_known:
                        continue
                    num = search.collision_is_numeric(tops[ia], tops[ib], name, common.rng_for(PROP_ID, seed, "collision"), cache)
                    replay["input"]["numeric"] = num
                    if num is None:
                        found.append(({"class": "name collision", "symbol": name, "note": "definitions differ but values agree"}, replay))
                    else:
                        found.append(({"class": KNOWN_CLASS}, replay))
                        reported_known = True
                        chk.sample({"known_finding_collision": replay["input"]})
                else:
                    found.append(({"class": "name collision", "symbol": name}, replay))
                    break
        chk.info("colliding_symbols_by_n_final_states", col_stats)
        return variant, found

    # ------------------------------------------------------------------ oracle
    def oracle(self, chk, tier, seed, variant, stats, deep):
        from qrules.topology import create_isobar_topologies

        from tools.search import C07 as search

        rng = common.rng_for(PROP_ID, seed, "oracle")
        cache: dict = {}
        bad: list[dict] = []
        n_events = {"quick": 40, "thorough": 400}[tier] * (2 if deep else 1)
        tops = []
        for n in (2, 3, 4):
            tops += list(create_isobar_topologies(n))
        # permuted / randomly numbered ones
        _, perm3, _ = corr.all_permuted_topologies(3)
        _, perm4, _ = corr.all_permuted_topologies(4)
        extra3 = perm3 if tier == "thorough" or deep else rng.sample(perm3, 2)
        extra4 = rng.sample(perm4, {"quick": 2, "thorough": 10}[tier] * (2 if deep else 1))
        tops += [t for t in [*extra3, *extra4] if t not in tops]
        for _ in range({"quick": 2, "thorough": 8}[tier]):
            tops.append(corr.random_isobar_topology(rng, rng.choice([3, 4, 4])))
        # a pair of topologies that share a sub-resonance under DIFFERENT parents, evaluated one after
        # the other in this process (HARDENING rule 3): 0 (1 (23)) and 1 (0 (23))
        for text in ("-1:-:0 0:0:- 1:1:- 2:2:- 3:2:- 4:0:1 5:1:2", "-1:-:0 1:0:- 0:1:- 2:2:- 3:2:- 4:0:1 5:1:2"):
            t = _topology_from_canonical(text)
            if t not in tops:
                tops.append(t)
        # shapes in which BOTH children of the top node decay, in BOTH tiers: (01)(23) is among the
        # four-body topologies above; (01)(234) and (01)((23)4) come from the five-body ones
        five = list(create_isobar_topologies(5))
        both_decay = [t for t in five if all(c[2] for c in corr.PySpec(t).root[2])]
        tops += both_decay[: (1 if tier == "quick" and not deep else len(both_decay))]
        if tier == "thorough" or deep:
            tops += [t for t in rng.sample(five, 2 if not deep else 3) if t not in tops]
            tops.append(corr.random_isobar_topology(rng, 5))
            _, perm5, _ = corr.all_permuted_topologies(5)
            tops += [t for t in rng.sample(perm5, 4) if t not in tops]
        if tier == "thorough":
            tops.append(corr.random_isobar_topology(rng, 6))
        for k, t in enumerate(tops):
            n_fs = len(t.outgoing_edge_ids)
            cse_modes = (True, False) if n_fs <= 4 else (True,)
            kinds = (*search.EVENT_KINDS, *search.EXTRA_KINDS, f"massless-at:{k}")
            if n_fs >= 6:
                kinds = ("generic", "boosted", f"massless-at:{k}")
            n_ev = n_events if n_fs <= 4 else max(10, n_events // 4)
            bad += search.check_topology(chk, t, variant, rng, n_ev, kinds=kinds,
                                         cse_modes=cse_modes, cache=cache, stats=stats)
            if len(bad) > 20:
                break
        stats["topologies"] = len(tops)
        bad += search.check_dalitz(chk, rng, n_events * 3, cache=cache, stats=stats)
        bad += search.check_compound_arguments(chk, rng, stats)
        bad += search.check_invariant_mass_dtypes(chk, rng, stats, n_events)
        bad += search.check_numbers_vs_symbols(chk, stats)
        stats["guard_probes"] = search.guard_probes(cache)
        return bad


PROP = C07Property()
regenerate = PROP.regenerate

MANIFEST = {
    "technique": "Lean 4 theorems about an executable topology model (structural induction over decay trees) tied to the "
                 "source by differential runs over all topologies/permutations with a strict expression-tree parser; "
                 "regenerated InvariantMass unfolding (translator + Float twin); independent boost-and-rotate oracle",
    "design_ref": "DESIGN.md §3 C07 (and §2.3 M2, §2.7)",
    "text": (
        "Registration histories (since round 7): C07_rejected_registration_is_noop / C07_accepted_registration — a rejected "
        "register_topology call leaves the adapter's registered set unchanged, for every history before it; the real adapter is driven "
        "through histories with rejected calls caught (what stays registered = model; create_expressions() afterwards = fresh adapter "
        "holding the accepted topologies only). "
        "Proof about an executable topology model + differential tie. The Lean model M2 (Model/Topology.lean) mirrors "
        "decay.py/naming.py/lorentz.py/angles.py/kinematics.__init__ line by line on decay trees addressed by edge id and yields "
        "for every symbol a descriptor (mass: final-state ids summed; angle pair: chain of subsystems boosted into + ids "
        "measured). Kernel-checked for EVERY tree with pairwise distinct edge ids (structural induction, any labelling): "
        "C07_mass/C07_mass_dict (m_S is InvariantMass of the sum over exactly the final states below the edge; the digits of the "
        "name read back to S; ids<10 explicit), C07_angles (the id-addressed recursion makes exactly the documented assignments "
        "- one pair per decay node, named after the helicity child and the subsystems above it, chain of helicity frames from "
        "the outermost inwards - when the angles are sourced from the helicity state; for the pinned source every assignment "
        "has the documented name and chain and measures the helicity child or, only in the opposite-helicity branch, the "
        "decaying opposite-helicity child), C07_injective + C07_merge_consistent (helicity-state sourcing: a name determines "
        "its descriptor across any topologies with ids<10, so create_expressions is independent of set iteration order), "
        "C07_witness_collision (decide: the pinned source gives phi_03 = Phi(p1+p2) in one and Phi(p0+p3) in another of the "
        "permuted four-body two-resonance topologies; the unrestricted statement is refuted for the pinned source), C07_partial "
        "(pinned source: no collision among topologies without a node whose two children both decay), C07_norm/"
        "C07_norm_spacelike (the regenerated unfolding of InvariantMass is sqrt(E^2-|p|^2) for time-like sums, i*sqrt(|p|^2-E^2) "
        "otherwise), C07_theta_polar/C07_phi_azimuth/C07_theta_phi_spherical (the regenerated Theta is arccos(p_z/|p|) in [0,pi] "
        "with |p|cos = p_z, |p|sin = p_T; the regenerated Phi is arg(p_x+i p_y) in (-pi,pi] with p_T cos = p_x, p_T sin = p_y). "
        "Dalitz link (Props/C07Dalitz.lean, over the REAL kinematic variable theta_0^01 of the topology 2(01) regenerated entry "
        "by entry from the library's explicit RotationZ/RotationY matrices and BoostZMatrix.evaluate()): "
        "chain_is_helicity_frame (RotZ(-Phi), RotY(-Theta) turn the subsystem's flight direction onto +z, BoostZ has "
        "gamma = E/m, gamma*beta = |p|/m), C07_chain_rest_frame (the chain carries the subsystem's own momentum to (m;0,0,0)), "
        "C07_dalitz_chain (for ANY three four-vectors summing to rest the regenerated acos argument of the polar helicity angle "
        "is minus the covariant cosine between the decay product and the spectator) and C07_dalitz (composed with builder C19's "
        "regenerated formulate_scattering_angle: for all six ordered pairs theta_ij is the helicity angle of particle i through "
        "the library's own chain, and theta_ji = pi - theta_ij for the opposite-helicity child). Guards of the Dalitz theorems "
        "(time-like moving subsystem, not exactly along z, positive energies) are real singularities of the generated code "
        "(nan there, recorded as guard_probes). Bounded/partial: the correspondence model<->source is checked, not proved, on "
        "all isobar topologies with 2..4 (quick) / 2..5 (thorough) final states and all permutations plus seeded random "
        "topologies up to 7 final states; the Dalitz theorems are stated for one level of the chain and the isobar (01) "
        "(deeper chains and the other labellings are the same generated function by the descriptor correspondence; "
        "numerically checked by the oracle); the name-collision of the pinned source is a KNOWN FINDING. Hardening (notes/"
        "HARDENING.md): thorough also enumerates all 2700 permuted six-body topologies (descriptors + collision signature); "
        "every run evaluates the permuted sets again in fresh processes (other evaluation order, other PYTHONHASHSEED, one "
        "adapter vs single topologies, reversed registration order, second create_expressions() call) and compares with the "
        "in-process results and the model; the oracle's event families keep the initial state MOVING (one extra rest-frame "
        "family), cover both-children-decay shapes (01)(23) and (01)(234) in both tiers, a massless particle at every position "
        "and all-massless events; Phi/Theta/InvariantMass/Energy/FourMomentumX-Z/EuclideanNorm(Squared) on compound array "
        "expressions (folded and unfolded code, cse off/on) against plain numpy; InvariantMass of time-/space-like sums on real "
        "and complex input arrays; the matrix classes on exact numbers vs symbols; ids >= 10 probed and recorded "
        "(two_digit_id_probe: m_012 names both (0,12) and (0,1,2))."
    ),
    "level_note": (
        "Trusted: Lean kernel + Mathlib (axioms propext, Classical.choice, Quot.sound); the strict parser of the real "
        "expression trees (tools/corr/C07.py: accepts only Phi/Theta(ArrayMultiplication(BoostZMatrix(|p|/E), RotationYMatrix(-Theta), "
        "RotationZMatrix(-Phi), inner)) over ArraySum(p_i) and InvariantMass(ArraySum), aborts otherwise) and the line "
        "protocol; the sympy->Lean translator for Gen/C07.lean (validated each run by the Lean Float twin against the real "
        "lambdified code). Modelled, tied by differential runs: the naming/recursion/merge algorithms. Executed, not modelled: "
        "qrules Topology objects and create_isobar_topologies, Python set iteration order (passed to the model as the observed "
        "order), sympy lambdify/numpy (cse on and off) in the numeric oracle, which compares with an independent extended-"
        "precision boost-and-rotate implementation on random physical events (massless, near threshold, boosts up to gamma 1e3) "
        "with condition-aware tolerances. C07_dalitz imports builder C19's theorems (theta_cos_covariant, theta_sum_pi) and "
        "regenerates Gen/C19*.lean through tools.props.C19 on the same run; the explicit matrices used for the chain are "
        "RotationY/Z.as_explicit() and the gamma, gamma*beta arguments of BoostZMatrix.evaluate() in the layout of "
        "as_explicit() (layout facts re-checked each run; that the generated numpy code equals these matrices is C08, and "
        "the Float twin of helTheta/helPhi/helCosArg is validated against the real lambdified variable each run)."
    ),
}


def _topology_from_canonical(text: str):
    edges = {}
    for tok in text.split():
        i, o, d = tok.split(":")
        edges[int(i)] = (None if o == "-" else int(o), None if d == "-" else int(d))
    return corr.make_topology(edges)


def replay(data: dict) -> int:
    """./check C07 --replay FILE: re-examine the recorded failing input on the current tree.

    Recomputes, for the recorded topology/topologies, the real descriptors (strict parser), the
    model's descriptors (Lean driver) and — when an event was recorded — the real values against
    the independent oracle; exit 1 when the failing input still fails, 0 when it no longer does."""
    import json

    import numpy as np

    from tools.search import C07 as search

    common.use_repo_source()
    print(json.dumps({k: v for k, v in data.items() if k != "broken"}, indent=1)[:3000])
    inp = data.get("input", {})
    texts = [inp[k] for k in ("topology", "topology_a", "topology_b") if isinstance(inp.get(k), str)]
    if not texts:
        print("[C07] replay without a recorded topology: running the whole check")
        return PROP.run("quick", 0)
    parser = corr.DescriptorParser()
    variant, _ = infer_variant(parser)
    still = False
    tops = [_topology_from_canonical(t) for t in texts]
    lines = [f"variant angleSource={variant}"]
    for n, t in enumerate(tops):
        lines += [corr.topo_line(n, t), f"angles {n}", f"masses {n}"]
    replies = corr.run_lean(lines)
    per = []
    for n, t in enumerate(tops):
        model = replies[1 + 3 * n + 1] + ";" + replies[1 + 3 * n + 2]
        try:
            real_defs = corr.real_angles(parser, t) + corr.real_masses(parser, t)
            real = corr.show_dict(real_defs)
            per.append(real_defs)
        except corr.ParseAbort as e:
            real = f"<parse abort: {e}>"
            still = True
        print(f"[C07] topology {texts[n]}\n   real : {real}\n   model: {model}")
        still = still or (real != model)
    if len(per) == 2:
        cols = python_collisions(per)
        for name in cols:
            known, info = classify_collision(name, per, tops, sorted(tops[0].outgoing_edge_ids))
            print(f"[C07] collision {name}: {cols[name]} known-finding signature: {known}")
            still = True
    if isinstance(inp.get("event"), dict) and tops:
        momenta = {int(k): np.array([v], dtype=float) for k, v in inp["event"].items()}
        spec = corr.PySpec(tops[0])
        real = search.evaluate_real(tops[0], momenta, bool(inp.get("cse", True)))
        for sfx, accept in spec.expected_angles(variant).items():
            for kind, idx in (("phi", 0), ("theta", 1)):
                got = float(np.asarray(real.get(kind + sfx, [np.nan]))[0])
                exp = [float(search.oracle_angle(momenta, c, t)[idx][0]) for c, t in accept]
                print(f"[C07] {kind}{sfx}: real {got!r} oracle {exp!r}")
    print("[C07] replay:", "still failing" if still else "no longer failing")
    return 1 if still else 0
