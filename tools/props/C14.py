"""C14 — unevaluated expressions obey substitution, equality and folding laws.

T3: the class table of every `@unevaluated` class of the package is regenerated on every run into
`lean/Ampverif/Gen/C14Table.lean`; `wfTable classTable` is re-proved by the kernel; generic theorems
(`Ampverif.Props.C14`) apply to every well-formed table. T2: random nested instances of EVERY table
class (and the helper classes) through the real generated methods vs the Lean model. Oracle: the
clauses of the property on real objects, incl. generated numpy code folded vs unfolded.
"""

from __future__ import annotations

import json
import traceback

from tools.lib import common

PROP_MODULES = ["Ampverif.Props.C14"]
N_CORR = {"quick": 2, "thorough": 25}
N_ORACLE = {"quick": 2, "thorough": 15}
CAP_S = 6.0  # wall-clock cap per oracle instance (symbolic doit of deeply nested random instances can explode)
RULE = ("distinct (class, operation, instance) triples of the correspondence whose instance has a nested @unevaluated "
        "argument or whose substitution map has >= 2 entries, plus distinct oracle instances with a nested @unevaluated argument")


def infer_variant() -> dict:
    from tools.props.C18 import infer_variant as iv

    return iv()


class C14Property:
    prop_id = "C14"

    def regenerate(self):
        from tools.corr import C14 as corr

        corr.regenerate()

    def run(self, tier: str, seed: int) -> int:  # noqa: C901, PLR0912, PLR0915
        from tools.corr import C14 as corr
        from tools.corr import C18m1 as m1
        from tools.search import C14 as oracle

        chk = common.Check("C14", tier, seed)
        self.n_compound = 8 if tier == "quick" else 60
        common.use_repo_source()
        chk.coverage["rule"] = RULE
        chk.info("source_blobs", common.source_blob_hashes(corr.SOURCES))
        chk.coverage["trusted_base"] = [
            "Lean 4.33 kernel, Mathlib",
            "tools/corr/C14.py class-table extractor (dataclasses.fields of every class found by walking the package; evaluate() on placeholders, validated on sample arguments)",
            "tools/corr/C18m1.py (S-expressions, SymPy<->AST conversion)",
            "SymPy constructors, xreplace/subs on built-in nodes, lambdify/numpy, pickle: executed, not modelled",
        ]
        chk.assumptions += [
            "_get_hashable_object injective on the attributes that occur (None vs 'builtins.NoneType' is the excluded point; probed and recorded)",
            "replacement maps do not touch dummies created inside evaluate()",
            "term keys: SymPy's subs is structural (modelled by substT) for keys that are array symbols, applied functions, indexed symbols and folded "
            "instances; Add/Mul/Pow keys are matched algebraically by SymPy: subs with the compound key c**2 is oracle-only, xreplace (structural for every "
            "key) is modelled; a key that is a folded sub-instance is compared with the model only (after unfolding it no longer occurs: no law)",
            "oracle substitution values respect the assumptions of the replaced symbol (SymPy simplifies with them at construction)",
        ]
        failing: list[dict] = []
        entries = helpers = ctx = None
        # ---- T3: regenerate the class table
        try:
            entries, helpers, ctx = corr.regenerate()
            chk.info("class_table", {
                "decorated_classes": len(entries), "helper_classes": [m1.class_key(h) for h in helpers],
                "classes": [e.key for e in entries],
                "with_template": sum(1 for e in entries if e.templates),
                "templates": sum(len(e.templates) for e in entries),
                "no_template": {e.key: e.why_no_template[:100] for e in entries if not e.templates},
                "numpy_printable": [e.key for e in entries if e.numpy_printable],
            })
        except Exception as e:  # noqa: BLE001
            chk.broken_correspondence("class table", "".join(traceback.format_exception_only(type(e), e))[-800:])
        # ---- proofs (incl. wfTable of the regenerated table)
        res = common.prove("C14", PROP_MODULES)
        chk.record_proof(res, "cd lean && lake build " + " ".join(PROP_MODULES) + " && lake env lean Ampverif/Audit/C14.lean")
        if res["failed"]:
            chk.note("proof obligations not discharged: " + "; ".join(f"{k}: {v[:160]}" for k, v in list(res["failed"].items())[:5]))
        # ---- variant
        try:
            variant = infer_variant()
        except Exception as e:  # noqa: BLE001
            variant = {"getArgsRecursive": 0, "poolSumProtectsBound": 1}
            chk.broken_correspondence("variant probes", f"{type(e).__name__}: {e}")
        chk.info("inferred_variant", variant)
        if variant["getArgsRecursive"]:
            chk.broken_correspondence("variant", "the source collects field values recursively (getArgsRecursive = true, dataclasses.astuple): "
                                      "the theorems assume the shallow variant; Lean witness C14.witness_astuple")
            failing += oracle.witness_astuple()
        if entries is not None:
            # ---- T2 correspondence
            try:
                bad, notes = corr.correspondence(chk, common.rng_for("C14", seed, "corr"), N_CORR[tier], entries, helpers, ctx)
                for b in bad[:8]:
                    chk.broken_correspondence("decorator methods vs model", b)
                if bad:
                    chk.note(f"correspondence: {len(bad)} disagreements, first: {json.dumps(bad[0], default=str)[:500]}")
                chk.info("excluded_points_met", {"count": len(notes), "examples": notes[:3]})
            except (common.LeanRunError, m1.Unrepresentable) as e:
                chk.broken_correspondence("decorator methods vs model", f"{type(e).__name__}: {str(e)[-800:]}")
            except Exception as e:  # noqa: BLE001
                chk.broken_correspondence("decorator methods vs model", "".join(traceback.format_exception(e))[-1200:])
            # ---- oracle on the real code
            try:
                failing += self.oracle_run(chk, common.rng_for("C14", seed, "oracle"), entries, ctx,
                                           N_ORACLE[tier] * (3 if chk.broken else 1))
            except Exception as e:  # noqa: BLE001
                chk.broken_correspondence("oracle", "".join(traceback.format_exception(e))[-1200:])
        seen = set()
        failing.sort(key=lambda f: len(f.get("expr", "")))
        for f in failing:
            key = (f["class"], f.get("expr"), json.dumps(f.get("map"), sort_keys=True))
            if key in seen or len(chk.violations) >= 6:
                continue
            seen.add(key)
            chk.failing_input({"class": f["class"]}, {"input": f, "expected": "the clause of C14 named in 'class'",
                                                      "observed": {k: v for k, v in f.items() if k not in {"class", "expr"}}})
        if chk.broken and not chk.violations:
            for b in chk.broken:
                chk.unexplained(b.get("theorem") or b.get("what"), b.get("detail"))
        return chk.finish()

    n_compound = 8

    def oracle_run(self, chk, rng, entries, ctx, n_per_class: int) -> list[dict]:
        from tools.corr import C14 as corr
        from tools.corr import C18m1 as m1
        from tools.search import C14 as oracle

        pools = corr.Pools(entries, friendly=True)
        stats = {"instances": 0, "commute_decided": 0, "commute_undecided": 0, "equality_pairs": 0, "numpy_code_comparisons": 0, "generated_sources_compared": 0,
                 "timeouts": []}
        fails, notes = [], []
        for entry in entries:
            insts = [pools.instance_of(entry, rng, 1) for _ in range(n_per_class)] + pools.function_attr_instances(entry, rng, 0)
            for r in insts:
                stats["instances"] += 1
                nested = any(m1.is_unevaluated_class(type(a)) for a in r.args)
                chk.count(("oracle", entry.key, str(r)) if nested else None)
                try:
                    fails += corr.with_cap(CAP_S, oracle.check_instance, entry, r, pools, rng, ctx, stats)
                except corr._Timeout:  # noqa: SLF001
                    stats["timeouts"].append(str(r)[:160])
                try:
                    fails += corr.with_cap(CAP_S, oracle.check_calling_conventions, entry, r, rng, stats)
                except corr._Timeout:  # noqa: SLF001
                    stats["timeouts"].append("calling conventions: " + str(r)[:120])
                others = corr.variants_for_eq(entry, pools, rng, r)
                stats["equality_pairs"] += len(others)
                fails += oracle.check_equality(entry, r, others, notes)
                n_pairs = 0
                for kind, o in others:
                    callable_changed = any(callable(getattr(o, f.name)) and getattr(o, f.name) is not getattr(r, f.name)
                                           for f in entry.attr_fields)
                    if kind.startswith("attr changed") and entry.implement_doit and callable_changed and n_pairs < 6:
                        n_pairs += 1
                        try:
                            # both orders (SymPy caches subs/doit by equality: who is asked first matters)
                            first, second = (r, o) if n_pairs % 2 else (o, r)
                            fails += corr.with_cap(CAP_S, oracle.check_pair_commute, first, second, kind, pools, rng, ctx, stats)
                        except corr._Timeout:  # noqa: SLF001
                            stats["timeouts"].append("pair: " + str(o)[:120])
            fails += oracle.check_template_globals(entry, pools, rng, ctx)
            try:
                fails += corr.with_cap(2 * CAP_S, oracle.numbers_vs_symbols, entry, pools, rng, ctx, stats)
            except corr._Timeout:  # noqa: SLF001
                stats["timeouts"].append("numbers vs symbols: " + entry.key)
            if entry.numpy_printable:
                try:
                    f, n, structural = corr.with_cap(8 * CAP_S, oracle.numpy_code_agrees, entry, pools, rng, 6, self.n_compound)
                except corr._Timeout:  # noqa: SLF001
                    stats["timeouts"].append("numpy code of " + entry.key)
                    f, n, structural = [], 0, []
                fails += f
                stats["generated_sources_compared"] += 2
                for s_ in structural:
                    # T1-style tie of the hand-written printers: folded and unfolded forms must generate the same program
                    chk.broken_correspondence("generated numpy source of the folded form vs of the unfolded form", s_)
                stats["numpy_code_comparisons"] += n
                chk.count(None, n)
        # ---- substitution keys that are TERMS (ArraySymbol four-momenta, applied functions, indexed symbols, c**2), on an
        # instance of every table class and on that instance inside the array/sum helper classes
        n_wrap = 2 if self.n_compound <= 8 else 10
        for entry in entries:
            try:
                r = corr.keyed_instance_of(pools, entry, rng, 1)
            except Exception:  # noqa: BLE001
                stats["keyed_instance_failed"] = stats.get("keyed_instance_failed", 0) + 1
                continue
            ws = corr.wrapped(pools, entry, r, rng)
            # PoolSum wrappers always, the other helpers in rotation
            first = [w for w in ws if w[0].startswith("PoolSum(index")]
            rest = [w for w in ws if w not in first]
            for label, obj in [("instance", r), *first, *rng.sample(rest, min(n_wrap, len(rest)))]:
                chk.count(("oracle-term-key", entry.key, label))
                try:
                    fails += corr.with_cap(CAP_S, oracle.check_term_keys, entry.key, label, obj, pools, rng, ctx, stats)
                except corr._Timeout:  # noqa: SLF001
                    stats["timeouts"].append(f"term keys: {entry.key} / {label}")
        for name, obj in pools.helper_instances(rng).items():
            try:
                fails += corr.with_cap(CAP_S, oracle.check_instance, None, obj, pools, rng, ctx, stats)
            except corr._Timeout:  # noqa: SLF001
                stats["timeouts"].append(name)
        fails += oracle.complex_sqrt_code_agrees()
        fails += oracle.complex_sqrt_numbers()
        try:
            fails += oracle.decorator_options(entries)
        except Exception as e:  # noqa: BLE001
            fails.append({"class": "decorator option not honoured", "what": "constructing/using a run-time class with every decorator option raised",
                          "error": "".join(traceback.format_exception(e))[-900:],
                          "python": "tools.corr.C14.harness_classes(); tools.search.C14.decorator_options(entries)"})
        chk.info("oracle", stats)
        chk.info("oracle_excluded_points_met", {"count": len(notes), "examples": notes[:2]})
        return fails


def replay(data: dict) -> int:
    """Re-run the recorded failing input on the real code."""
    import sympy as sp

    common.use_repo_source()
    from tools.search import C14 as oracle

    print(json.dumps(data, indent=1)[:3000])
    inp = data.get("input", {})
    wit = oracle.witness_astuple()
    for w in wit:
        print("VIOLATION (replayed witness): " + json.dumps(w)[:600])
    if wit:
        return 1
    if "expr" in inp and "map" in inp:
        import ampform.dynamics as d
        import ampform.dynamics.form_factor as ff
        import ampform.dynamics.phasespace as ps
        import ampform.kinematics.angles as an
        import ampform.kinematics.lorentz as lo
        import ampform.kinematics.phasespace as kp
        import ampform.sympy._array_expressions as ae
        from ampform.sympy import PoolSum
        from ampform.sympy.math import ComplexSqrt

        ns = {"PoolSum": PoolSum, "ComplexSqrt": ComplexSqrt}
        for mod in (d, ff, ps, an, lo, kp, ae):
            ns.update({k: v for k, v in vars(mod).items() if isinstance(v, type)})
        try:
            expr = sp.sympify(inp["expr"], locals=ns)
            sigma = {s: sp.sympify(v, locals=ns) for s in expr.free_symbols for k, v in inp["map"].items() if s.name == k}
            lhs, rhs = expr.xreplace(sigma).doit(), expr.doit().xreplace(sigma)
            print("xreplace then doit:", lhs)
            print("doit then xreplace:", rhs)
            ok = oracle.same_value(lhs, rhs, __import__("tools.corr.C18m1", fromlist=["Ctx"]).Ctx())
            print("replay: equal" if ok is not False else "VIOLATION (replayed): the two orders differ")
            return 0 if ok is not False else 1
        except Exception as e:  # noqa: BLE001
            print(f"replay: could not rebuild the recorded expression ({e!r}); running the full check")
    return PROP.run("quick", 0)


PROP = C14Property()

MANIFEST = {
    "technique": "Lean 4 generic theorems over well-formed class tables + table regenerated from the package on every run (wfTable re-proved by decide) + differential correspondence of the decorator's generated methods with the model + oracle on real objects (incl. lambdified numpy code)",
    "design_ref": "DESIGN.md §3 C14, §2.2 T3/T2, §2.3 M1",
    "text": (
        "Proof. The class table (every class produced by @unevaluated found by walking all modules of the ampform package: ordered fields, sympify "
        "flags, defaults, implement_doit, evaluate() templates on placeholders per attribute value) is regenerated into Lean on every run and "
        "`wfTable classTable` is re-proved by the kernel. Generic theorems for EVERY well-formed table and the shallow _get_arguments variant: "
        "unfold(xreplace σ t) = xreplace σ (unfold t) and the same for subs, for arbitrary arguments incl. nested unevaluated instances and "
        "non-SymPy attributes (substitution lemma for templates; one unfolding step = evaluate()); a == b iff hash content equal; a == b iff "
        "(class, args, attrs) equal under injectivity of _get_hashable_object on the occurring attributes (excluded point None vs "
        "'builtins.NoneType': witness theorem, probed on the real code: the two instances do compare equal); func(*args) reproduces instances "
        "of all-SymPy-field classes; decide-witness for the recursive (astuple) variant. Substitution KEYS that are terms (substT/xreplaceT = "
        "Basic._subs/_xreplace keyed by an arbitrary sub-term, through PoolSum — summand and pool values — and the decorator's methods): with "
        "symbol keys they coincide with the symbol-keyed subs/xreplace (theorems), and unfold(subs(old,new) t) = subs(old,new)(unfold t) for every key "
        "that is an uninterpreted node (ArraySymbol four-momentum, applied function, indexed symbol, folded instance of another class) whose head occurs "
        "in no template of the class — for the regenerated table the heads of ArraySymbol, H(...) and B[...] are re-proved fresh on every run. The laws hold with "
        "MULTIPLICITY: the model never merges arguments or pool entries that a substitution makes equal, and that PoolSum.__new__ (through which subs/xreplace rebuild "
        "a pool sum) stores the given values unchanged is a theorem of C18 (Props.C18: new_stores_given_values, subs_through_constructor) tied to the source by C18's "
        "constructor stream. Partial: classes whose evaluate() inspects its "
        "arguments (today BlattWeisskopfSquared, PhaseSpaceFactorSWave) have no template in the model, their commutation law is checked on "
        "the real code only; deep doit() (iterated unfolding incl. SymPy's own doit on Sum/Piecewise) and the clause 'numpy code of folded "
        "= of unfolded' are not theorems. The code-generation clause is checked on the real code only, for every table class carrying a "
        "_numpycode (hand-written printers bypass the template mechanism of the model) and ComplexSqrt, cse off and on: (a) structurally — "
        "the lambdified SOURCE of the folded instance must be the same Python program (equal ast) as the source generated from doit(); "
        "(b) numerically on real-valued and complex-valued inputs (four-momentum arrays and scalars; also with the instance inside "
        "arithmetic), tolerance 1e-9 relative to the unfolded value, skipping only points where the unfolded code is not finite or not defined."
    ),
    "level_note": (
        "Trusted: Lean kernel + Mathlib (axioms propext, Classical.choice, Quot.sound); the class-table extractor and the SymPy<->S-expression "
        "converter (a wrong table makes the correspondence disagree: every table class is instantiated with random nested arguments and "
        "attributes and run through the real __new__/xreplace/subs/evaluate/==/hash/func(*args)/pickle and the model, results compared with == "
        "after rebuilding with the real constructors; the same for subs/xreplace keyed by TERMS — an ArraySymbol (replaced by another one / by an "
        "ArraySum), an applied function, an indexed symbol, a folded sub-instance, compound sub-expressions (xreplace) — on an instance of every table "
        "class and on that instance inside PoolSum (summand, symbolic pool, nested), ArraySum, ArrayAxisSum, ArraySlice, ArrayMultiplication, "
        "— plus, on the instance of every class inside a PoolSum whose pool is (pa, pb, 1) / (pa, pb) with literal duplicates (pb, pb), substitutions that IDENTIFY "
        "two pool entries ({pa: c, pb: c}, {pa: pb}, {pa: 1}) or two arguments of an instance; results of the model are rebuilt WITHOUT PoolSum.__new__ "
        "(Expr.__new__), so a normalisation inside the constructor cannot cancel out of the comparison — "
        "MatrixMultiplication, ComplexSqrt; the oracle checks subs/xreplace-then-doit against doit-then-subs/xreplace for these keys structurally, by "
        "the atoms left, by value and through lambdify on random four-momenta; non-SymPy attribute values include None, strings, classes and FUNCTIONS (closures of one "
        "factory = distinct objects with one qualified name, lambdas, a module-level function; a function is an opaque token with the identity "
        "of the Python object), with one instance per function value of every callable attribute in every run and the substitution laws "
        "re-checked on the second of two instances that differ only in such an attribute (SymPy caches subs by equality); unfold results modulo SymPy's non-confluent arithmetic canonicalisation: expand, then "
        "numeric evaluation). SymPy's behaviour on built-in nodes, lambdify, numpy and pickle are executed, not modelled. Four classes are defined at run time with every decorator option (implement_doit=False, commutative=False, "
        "defaults, ClassVar, attributes in the middle of the field list, own _numpycode) and go through the table, the correspondence and the "
        "oracles like the package classes; the generated __new__ is compared with the model on every positional prefix and through the other CALLING CONVENTIONS of every table class "
        "(all keywords in declaration / reversed / rotated / random written order, random positional prefix + shuffled keywords, a defaulted field skipped with "
        "later fields given by keyword): the model's constructor maps declared fields to values, the real class called that way must build that same instance "
        "(.args in field-declaration order); the oracle repeats this on the real code alone (.args, attributes by name, _hashable_content, ==/hash, doit()). New classes appear "
        "in the table automatically (introspection); new helper classes are listed but only the known ones are instantiated."
    ),
}
