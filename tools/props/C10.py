"""C10 — production vectors solve the K-matrix equation and honour their arguments."""

from __future__ import annotations

import json
import subprocess
import tempfile
import time
from pathlib import Path

from tools.corr import C10_history as hist
from tools.corr.C09_runner import KProperty, RealEvaluator, is_sub_threshold, physical_point
from tools.corr.C10_defs import (
    MARKER_D,
    MARKER_L,
    PBuilder,
    marker_phsp,
    occurrences,
    phsp_registry,
)
from tools.lib import common

SOURCES = [
    "src/ampform/dynamics/kmatrix.py",
    "src/ampform/dynamics/__init__.py",
    "src/ampform/dynamics/phasespace.py",
    "src/ampform/dynamics/form_factor.py",
]
CLASSES = ["NonRelativisticKMatrix", "RelativisticKMatrix", "NonRelativisticPVector", "RelativisticPVector"]


def _formulate(cls_name: str, nc: int, np_: int, hat: bool, phsp, L, d):
    from ampform.dynamics import kmatrix as km

    cls = getattr(km, cls_name)
    kw = {"phsp_factor": phsp, "angular_momentum": L, "meson_radius": d}
    if cls_name == "RelativisticKMatrix":
        kw["return_t_hat"] = hat
    elif cls_name == "RelativisticPVector":
        kw["return_f_hat"] = hat
    elif hat:
        return None
    return cls.formulate(n_channels=nc, n_poles=np_, **kw)


def occurrence_table(phsp, L, d, combos=((1, 1), (1, 2), (2, 1), (2, 2))):
    reg = phsp_registry()
    rows = []
    for cls_name in CLASSES:
        for nc, np_ in combos:
            for hat in (False, True):
                m = _formulate(cls_name, nc, np_, hat, phsp, L, d)
                if m is None:
                    continue
                occ = occurrences(m, reg, extra_classes=[phsp] if isinstance(phsp, type) else [])
                rows.append({"cls": cls_name, "n_channels": nc, "n_poles": np_, "hat": hat,
                             "relativistic": cls_name.startswith("Relativistic"), **occ})
    return rows


def _lean_list(xs):
    return "[" + ", ".join('"' + x.replace('"', "'") + '"' for x in xs) + "]"


def occurrence_lean(rows) -> str:
    out = [
        "/-- One occurrence inside a formulated matrix: `W` = energy-dependent width of pole `pole` in channel",
        "`channel`, `F` = form factor of the channel at `s` (`pole = 0`) or at `m_R²`, `R` = phase-space node. -/",
        "structure OccItem where",
        "  kind : String",
        "  pole : Nat",
        "  channel : Nat",
        "  phsp : String",
        "  angMom : String",
        "  radius : String",
        "",
        "/-- What occurs in the result of `formulate(..., phsp_factor=MarkerPhsp, angular_momentum=L_marker,",
        "meson_radius=d_marker)`: the phase-space implementations (node classes and the `phsp_factor` of every",
        "energy-dependent width), angular momenta and meson radii, as sets and itemised per pole × channel.",
        "Regenerated from the real objects. -/",
        "structure Occ where",
        "  cls : String",
        "  nChannels : Nat",
        "  nPoles : Nat",
        "  hat : Bool",
        "  relativistic : Bool",
        "  phsp : List String",
        "  angMom : List String",
        "  radius : List String",
        "  items : List OccItem",
        "",
        "def occTable : List Occ := [",
    ]
    body = []
    for r in rows:
        items = ", ".join(f'⟨"{k}", {R}, {i}, "{ph}", "{L}", "{d}"⟩' for (k, R, i, ph, L, d) in r["items"])
        body.append(f'  ⟨"{r["cls"]}", {r["n_channels"]}, {r["n_poles"]}, {str(r["hat"]).lower()}, '
                    f'{str(r["relativistic"]).lower()}, {_lean_list(r["phsp"])}, {_lean_list(r["L"])}, {_lean_list(r["d"])},\n'
                    f'    [{items}]⟩')
    out.append(",\n".join(body))
    out.append("]")
    return "\n".join(out) + "\n"


def items_ok(r: dict, phsp_names: set, L: str, d: str) -> bool:
    """The itemised form of the honouring statement (mirrors `honours` in Props/C10.lean)."""
    its = r["items"]
    if not r["relativistic"]:
        return its == []
    for (k, R, i, ph, l_, d_) in its:
        if R == 99 or i == 99:
            return False
        if k == "W" and not (ph in phsp_names and l_ == L and d_ == d):
            return False
        if k == "F" and not (l_ == L and d_ == d):
            return False
        if k == "R" and ph not in phsp_names:
            return False
    have = {(k, R, i) for (k, R, i, *_rest) in its}
    for i in range(r["n_channels"]):
        if not any(k == "R" and R == 0 and c == i for (k, R, c) in have):
            return False
        for R in range(1, r["n_poles"] + 1):
            if ("W", R, i) not in have:
                return False
        if r["cls"] == "RelativisticPVector" and ("F", 0, i) not in have:
            return False
    return True


def build():
    b = PBuilder()
    b.matrix_level_pvector()
    b.parametrisations_pvector()
    b.formulated_pvector()
    b.breit_wigner()
    rows = occurrence_table(marker_phsp(), MARKER_L, MARKER_D)
    info = {
        "gen_extra": occurrence_lean(rows),
        "occurrence_rows": len(rows),
        "n3_relativistic_pvector_entries": "not_extracted (the library's own RelativisticPVector._create_matrices(3) does not return: sympy's default symbolic inverse does not finish, see notes/findings_C10.md); covered by the all-n theorem, and in the thorough tier numerically with sympy's inversion method replaced",
        "observation": "_create_matrices returns functools.cache'd mutable matrices when parametrize=False (a caller MUTATING them changes later results: outside this property); call histories without mutation are covered by tools/corr/C10_history.py",
    }
    return b.out, {}, info


# --------------------------------------------------------------------------- oracle


_CACHE: dict = {}


def _pvector_evaluator(kind: str, nc: int, np_: int, L: int, phsp_name: str):
    """Real code, numerically: [F (nc), F̂ (nc, rel only), K (nc²), P (nc), ρ (nc, rel only)]."""
    import sympy as sp

    import ampform.dynamics as dyn
    from ampform.dynamics import kmatrix as km
    from tools.corr.C09_defs import base_symbols

    key = (kind, nc, np_, L, phsp_name)
    if key in _CACHE:
        return _CACHE[key]
    B = base_symbols()
    d = sp.Symbol("d", positive=True)
    exprs = []
    if kind == "nr":
        F = km.NonRelativisticPVector.formulate(n_channels=nc, n_poles=np_)
        exprs += [F[i, 0] for i in range(nc)]
        for i in range(nc):
            for j in range(nc):
                exprs.append(km.NonRelativisticKMatrix.parametrization(
                    i=i, j=j, s=B["s"], pole_position=B["m"], pole_width=B["Gamma"],
                    residue_constant=B["gamma"], n_poles=np_, pole_id=B["R"]))
        for i in range(nc):
            exprs.append(km.NonRelativisticPVector.parametrization(
                i=i, s=B["s"], pole_position=B["m"], pole_width=B["Gamma"], residue_constant=B["gamma"],
                beta_constant=B["beta"], n_poles=np_, pole_id=B["R"]))
    else:
        phsp = marker_phsp() if phsp_name == "MarkerPhsp" else getattr(dyn, phsp_name)
        kw = {"phsp_factor": phsp, "angular_momentum": L, "meson_radius": d}
        F = km.RelativisticPVector.formulate(n_channels=nc, n_poles=np_, **kw)
        Fh = km.RelativisticPVector.formulate(n_channels=nc, n_poles=np_, return_f_hat=True, **kw)
        exprs += [F[i, 0] for i in range(nc)] + [Fh[i, 0] for i in range(nc)]
        for i in range(nc):
            for j in range(nc):
                exprs.append(km.RelativisticKMatrix.parametrization(
                    i=i, j=j, s=B["s"], pole_position=B["m"], pole_width=B["Gamma"], m_a=B["m_a"], m_b=B["m_b"],
                    residue_constant=B["gamma"], n_poles=np_, pole_id=B["R"], angular_momentum=L,
                    meson_radius=d, phsp_factor=phsp))
        for i in range(nc):
            exprs.append(km.RelativisticPVector.parametrization(
                i=i, s=B["s"], pole_position=B["m"], pole_width=B["Gamma"], m_a=B["m_a"], m_b=B["m_b"],
                beta_constant=B["beta"], residue_constant=B["gamma"], n_poles=np_, pole_id=B["R"],
                angular_momentum=L, meson_radius=d))
        for i in range(nc):
            exprs.append(phsp(B["s"], B["m_a"][i], B["m_b"][i]))
    _CACHE[key] = RealEvaluator(exprs)
    return _CACHE[key]


def evaluate_case(case: dict) -> dict:
    import numpy as np

    nc, np_, kind = case["n_channels"], case["n_poles"], case["kind"]
    ev = _pvector_evaluator(kind, nc, np_, case["L"], case["phsp"])
    vals = dict(case["values"])
    vals.setdefault("d", case.get("d", 1.0))
    out = np.array(ev({n: vals[n] for n in ev.names}), dtype=complex)
    one = np.eye(nc)
    if kind == "nr":
        F, K, P = out[:nc], out[nc:nc + nc * nc].reshape(nc, nc), out[nc + nc * nc:]
        res = (one - 1j * K) @ F - P
        scale = 1 + np.linalg.norm(P) + np.linalg.norm(K) * np.linalg.norm(F)
        return {"residual": float(np.linalg.norm(res) / scale), "residual_F_sqrt_rho": 0.0,
                "finite": bool(np.all(np.isfinite(out)))}
    F, Fh = out[:nc], out[nc:2 * nc]
    K = out[2 * nc:2 * nc + nc * nc].reshape(nc, nc)
    P = out[2 * nc + nc * nc:3 * nc + nc * nc]
    rho = out[3 * nc + nc * nc:]
    sq = np.sqrt(rho.astype(complex))
    Kh = K / np.outer(np.conj(sq), sq)
    res = (one - 1j * Kh @ np.diag(rho)) @ Fh - P
    scale = 1 + np.linalg.norm(P) + np.linalg.norm(Kh @ np.diag(rho)) * np.linalg.norm(Fh)
    res2 = F - sq * Fh
    return {"residual": float(np.linalg.norm(res) / scale),
            "residual_F_sqrt_rho": float(np.linalg.norm(res2) / (1 + np.linalg.norm(F))),
            "finite": bool(np.all(np.isfinite(out)))}


def bw_cases(rng, n: int):
    """n = n_R = 1: the documented Breit-Wigner reductions, on the real objects (following the
    notebook's recipe for the relativistic P-vector: sqrt(rho) and its conjugate are replaced by 1)."""
    import sympy as sp

    import ampform.dynamics as dyn
    from ampform.dynamics import kmatrix as km
    from tools.corr.C09_defs import base_symbols

    B = base_symbols()
    s, m, G, be = B["s"], B["m"][1], B["Gamma"][1, 0], B["beta"][1]
    ma, mb = B["m_a"][0], B["m_b"][0]
    d = sp.Symbol("d", positive=True)
    bad = []
    for L in sorted({0, rng.randint(1, 4)}):
        for phsp_name in ["PhaseSpaceFactor", rng.choice(["PhaseSpaceFactorAbs", "PhaseSpaceFactorComplex", "MarkerPhsp"])]:
            phsp = marker_phsp() if phsp_name == "MarkerPhsp" else getattr(dyn, phsp_name)
            rho = phsp(s, ma, mb)
            kw = {"phsp_factor": phsp, "angular_momentum": L, "meson_radius": d}
            t_nr = km.NonRelativisticKMatrix.formulate(n_channels=1, n_poles=1)[0, 0]
            f_nr = km.NonRelativisticPVector.formulate(n_channels=1, n_poles=1)[0, 0]
            f_rel = km.RelativisticPVector.formulate(n_channels=1, n_poles=1, **kw)[0, 0]
            f_rel = f_rel.xreplace({sp.sqrt(rho): 1, sp.conjugate(sp.sqrt(rho)): 1})
            bw = dyn.relativistic_breit_wigner(s, m, G)
            bwff = dyn.relativistic_breit_wigner_with_ff(s, m, G, ma, mb, L, d, phsp)
            ev = RealEvaluator([t_nr, bw, f_nr, be * bw, f_rel, be * bwff])
            for _ in range(n):
                vals = physical_point(rng, 1, 1, sub_threshold=False)
                vals["gamma_1_0"] = 1.0
                vals["d"] = rng.uniform(0.5, 3.0)
                o = ev({k: vals[k] for k in ev.names})
                for name, a, b in (("NonRelativisticKMatrix(1,1) vs relativistic_breit_wigner", o[0], o[1]),
                                   ("NonRelativisticPVector(1,1) vs beta*relativistic_breit_wigner", o[2], o[3]),
                                   ("RelativisticPVector(1,1), sqrt(rho)->1, vs beta*relativistic_breit_wigner_with_ff", o[4], o[5])):
                    if not abs(a - b) <= 1e-9 * (1 + abs(b)):
                        bad.append({"what": "Breit-Wigner reduction fails: " + name, "L": L, "phsp": phsp_name,
                                    "values": vals, "library": [a.real, a.imag], "breit_wigner": [b.real, b.imag]})
    return bad


def p_formula_cases(rng, n: int):
    """The library's P-vector parametrisations against the documented formula, written out
    independently in numpy: P_i = Σ_R β_R γ_Ri m_R Γ_Ri [· FormFactor_i(s)] / (m_R² − s)."""
    import sympy as sp

    from ampform.dynamics import kmatrix as km
    from ampform.dynamics.form_factor import FormFactor
    from tools.corr.C09_defs import base_symbols

    B = base_symbols()
    d = sp.Symbol("d", positive=True)
    bad = []
    count = 0
    for nc, np_ in ((2, 2), (2, rng.randint(1, 3)), (rng.randint(1, 3), 1)):
        L = rng.randint(0, 4)
        exprs = []
        for i in range(nc):
            exprs.append(km.NonRelativisticPVector.parametrization(
                i=i, s=B["s"], pole_position=B["m"], pole_width=B["Gamma"], residue_constant=B["gamma"],
                beta_constant=B["beta"], n_poles=np_, pole_id=B["R"]))
        for i in range(nc):
            exprs.append(km.RelativisticPVector.parametrization(
                i=i, s=B["s"], pole_position=B["m"], pole_width=B["Gamma"], m_a=B["m_a"], m_b=B["m_b"],
                beta_constant=B["beta"], residue_constant=B["gamma"], n_poles=np_, pole_id=B["R"],
                angular_momentum=L, meson_radius=d))
        for i in range(nc):
            exprs.append(FormFactor(B["s"], B["m_a"][i], B["m_b"][i], L, d))
        ev = RealEvaluator(exprs)
        for _ in range(n):
            v = physical_point(rng, nc, np_)
            v["d"] = rng.uniform(0.5, 3.0)
            out = ev({k: v[k] for k in ev.names})
            count += 1
            for i in range(nc):
                doc = sum(v[f"beta_{r}"] * v[f"gamma_{r}_{i}"] * v[f"m_{r}"] * v[f"Gamma_{r}_{i}"] / (v[f"m_{r}"] ** 2 - v["s"])
                          for r in range(1, np_ + 1))
                for cls, got, want in (("NonRelativisticPVector", out[i], doc),
                                       ("RelativisticPVector", out[nc + i], doc * out[2 * nc + i])):
                    if not abs(got - want) <= 1e-10 * (1 + abs(want)):
                        bad.append({"what": "P-vector parametrisation differs from the documented formula",
                                    "class": cls, "channel": i, "n_channels": nc, "n_poles": np_, "L": L, "values": v,
                                    "library": [complex(got).real, complex(got).imag],
                                    "documented": [complex(want).real, complex(want).imag]})
    return bad, count


def honour_cases(rng, tier: str):
    """Occurrence sets on the real objects for EVERY phase-space implementation of the library
    (and the marker), random angular momentum / radius symbols."""
    import sympy as sp

    reg = dict(phsp_registry())
    reg["MarkerPhsp"] = marker_phsp()
    bad = []
    n = 0
    combos = ((1, 1), (2, 1), (2, 2)) if tier == "quick" else ((1, 1), (1, 2), (2, 1), (2, 2), (1, 3), (2, 3))
    for name, impl in reg.items():
        L = sp.Symbol(f"L_{rng.randrange(1000)}", integer=True, nonnegative=True)
        d = sp.Symbol(f"d_{rng.randrange(1000)}", positive=True)
        rows = occurrence_table(impl, L, d, combos=combos)
        expected = {name}
        if not isinstance(impl, type):
            # a protocol-compliant FUNCTION is expanded on call: the phase-space classes inside its own
            # value are expected as well (e.g. BreakupMomentumSquared inside chew_mandelstam_s_wave)
            x, y, z = sp.symbols("x_probe y_probe z_probe", positive=True)
            classes = {c for c in reg.values() if isinstance(c, type)}
            expected |= {type(nd).__name__ for nd in sp.preorder_traversal(impl(x, y, z)) if type(nd) in classes}
        for r in rows:
            n += 1
            if r["relativistic"]:
                ok = (r["phsp"] == sorted(expected) and r["L"] == [str(L)] and r["d"] == [str(d)]
                      and items_ok(r, expected, str(L), str(d)))
            else:
                ok = r["phsp"] == [] and r["L"] == [] and r["d"] == []
            if not ok:
                bad.append({"what": "an argument passed to formulate() is not the only one that occurs in the result",
                            "class": r["cls"], "n_channels": r["n_channels"], "n_poles": r["n_poles"], "hat": r["hat"],
                            "passed": {"phsp_factor": name, "angular_momentum": str(L), "meson_radius": str(d)},
                            "found": {"phsp": r["phsp"], "L": r["L"], "d": r["d"], "items": [list(x) for x in r["items"]]}})
    return bad, n, sorted(reg)


_HISTORY: dict = {"bad": []}


def _history_tie(chk, ctx):
    """Call histories in one process: correspondence with Model/C10History.lean + history oracle
    (occurrences by identity, residual with the passed objects, purity vs reversed history / fresh process)."""
    _HISTORY["bad"] = []
    try:
        _HISTORY["bad"] = hist.run(chk, common.rng_for("C10", ctx["seed"], "history"), ctx["tier"], ctx["seed"])
    except common.InfraError:
        raise
    except Exception as e:  # noqa: BLE001
        import traceback

        chk.broken_correspondence("history", "".join(traceback.format_exception(type(e), e, e.__traceback__))[-900:])


def search(chk, rng, n_cases: int, tier: str):
    t0 = time.time()
    bad, n_occ, impls = honour_cases(rng, tier)
    bad = [*_HISTORY["bad"], *bad]
    chk.count(("honour", tuple(impls)), n_occ)
    chk.info("phase_space_implementations_checked", impls)
    # residuals
    max_p = 2 if tier == "quick" else 3
    n_cfg = 8 if tier == "quick" else 30
    per_cfg = max(4, n_cases // n_cfg)
    dist: dict = {}
    phsps = ["PhaseSpaceFactor", "PhaseSpaceFactorAbs", "PhaseSpaceFactorComplex", "PhaseSpaceFactorSWave",
             "EqualMassPhaseSpaceFactor", "MarkerPhsp"]
    for c in range(n_cfg):
        kind = "nr" if c % 3 == 0 else "rel"
        nc, np_ = rng.randint(1, 2), rng.randint(1, max_p)
        L = rng.randint(0, 4) if kind == "rel" else 0
        phsp = rng.choice(phsps) if kind == "rel" else "-"
        for j in range(per_cfg):
            vals = physical_point(rng, nc, np_, sub_threshold=(j % 4 == 3))
            vals["d"] = rng.uniform(0.5, 3.0)
            case = {"kind": kind, "n_channels": nc, "n_poles": np_, "L": L, "phsp": phsp, "d": vals["d"],
                    "values": vals, "sub_threshold_pole": is_sub_threshold(vals, nc, np_)}
            r = evaluate_case(case)
            dist[str((kind, nc, np_, L, phsp))] = dist.get(str((kind, nc, np_, L, phsp)), 0) + 1
            if not r["finite"]:
                chk.count(None)
                continue
            chk.count(("residual", c, j))
            if len(chk.coverage["samples"]) < 4:
                chk.sample({"oracle_case": {k: case[k] for k in ("kind", "n_channels", "n_poles", "L", "phsp")}, **r})
            if r["residual"] > 1e-9 or r["residual_F_sqrt_rho"] > 1e-9:
                bad.append({"what": "(1 - iK)F != P for the library's own K and P" if r["residual"] > 1e-9 else "F != sqrt(rho) F-hat",
                            **case, **r})
    pbad, pcount = p_formula_cases(rng, 6 if tier == "quick" else 40)
    chk.count(("p-formula", pcount), pcount)
    bad += pbad
    bwbad = bw_cases(rng, 6 if tier == "quick" else 40)
    chk.count(("bw", len(bwbad)), 3 * 4 * (6 if tier == "quick" else 40))
    bad += bwbad
    chk.info("oracle_input_distribution", dist)
    if tier == "thorough":
        bad += three_channel(chk, rng)
    chk.info("oracle_seconds", round(time.time() - t0, 1))
    return bad


_N3_SCRIPT = r"""
import json, sys
sys.path.insert(0, sys.argv[1]); sys.path.insert(0, sys.argv[2])
from tools.lib import common
common.use_repo_source()
spec = json.load(open(sys.argv[3]))
if spec.get("probe"):
    # the library's own call, unmodified
    from ampform.dynamics import kmatrix as km
    km.RelativisticPVector.formulate(3, 1, parametrize=False)
    print(json.dumps({"probe": "returned"}))
    sys.exit(0)
if spec.get("patch_inv"):
    # sympy's DEFAULT inversion (Gaussian elimination) does not terminate in reasonable time on the
    # 3x3 matrix of RelativisticPVector._create_matrices(3); the library's own code is run with the
    # default replaced by the adjugate method. Only sympy's algorithm changes, not ampform's source.
    from sympy.matrices.matrixbase import MatrixBase
    _orig = MatrixBase.inv
    def _inv(self, method=None, **kw):
        if method is None and self.is_diagonal():
            return _orig(self, **kw)
        return _orig(self, method=method or "ADJ", **kw)
    MatrixBase.inv = _inv
from tools.props.C10 import evaluate_case
print(json.dumps([evaluate_case(c) for c in spec["cases"]]))
"""


def _n3_run(tmp, spec: dict, cap_s: int):
    (Path(tmp) / "n3.py").write_text(_N3_SCRIPT)
    (Path(tmp) / "spec.json").write_text(json.dumps(spec))
    return subprocess.run([common.PY, str(Path(tmp) / "n3.py"), str(common.ROOT), str(common.REPO / "src"),
                           str(Path(tmp) / "spec.json")], capture_output=True, text=True, timeout=cap_s,
                          cwd=str(common.ROOT))


def three_channel(chk, rng, cap_s: int = 900, probe_cap_s: int = 120):
    """n = 3 (thorough): residuals of the real formulate(3, n_poles) in capped subprocesses.
    Non-relativistic: the library as it is. Relativistic: the library's own call is probed with a cap
    (it does not return: sympy's default Gaussian-elimination inverse explodes on the √ρ / conjugate
    entries, see notes/findings_C10.md); the residuals are then evaluated with the library's code
    unchanged but sympy's default inversion method replaced by the adjugate method."""
    tmp = tempfile.mkdtemp(prefix="c10n3_")
    bad = []
    try:
        # --- non-relativistic
        cases = []
        np_ = rng.randint(1, 3)
        for j in range(24):
            vals = physical_point(rng, 3, np_)
            cases.append({"kind": "nr", "n_channels": 3, "n_poles": np_, "L": 0, "phsp": "-", "values": vals,
                          "sub_threshold_pole": False})
        try:
            p = _n3_run(tmp, {"cases": cases}, cap_s)
        except subprocess.TimeoutExpired:
            p = None
            chk.info("n3_nonrelativistic_pvector", f"not_extracted (time cap {cap_s}s)")
        if p is not None and p.returncode != 0:
            chk.info("n3_nonrelativistic_pvector", "failed: " + p.stderr[-300:])
            bad.append({"what": "the real code raised for n_channels = 3", "error": p.stderr[-800:]})
        elif p is not None:
            res = json.loads(p.stdout.strip().split("\n")[-1])
            chk.info("n3_nonrelativistic_pvector", {"cases": len(res), "worst_residual": max(r["residual"] for r in res)})
            for case, r in zip(cases, res):
                chk.count(("n3", round(case["values"]["s"], 9)))
                if r["finite"] and r["residual"] > 1e-8:
                    bad.append({"what": "(1 - iK)F != P for the library's own K and P", **case, **r})
        # --- relativistic: probe the library's own call
        try:
            p = _n3_run(tmp, {"probe": True}, probe_cap_s)
            probe = "returned" if p.returncode == 0 else "failed: " + p.stderr[-200:]
        except subprocess.TimeoutExpired:
            probe = f"RelativisticPVector.formulate(3, 1, parametrize=False) did not return within {probe_cap_s}s"
        chk.info("n3_relativistic_pvector_library_call", probe)
        # --- relativistic with sympy's inversion method replaced
        cases = []
        np_ = rng.randint(1, 2)
        L = rng.randint(0, 3)
        phsp = rng.choice(["PhaseSpaceFactor", "PhaseSpaceFactorAbs", "MarkerPhsp"])
        for j in range(16):
            vals = physical_point(rng, 3, np_, sub_threshold=(j % 4 == 3))
            vals["d"] = rng.uniform(0.5, 3.0)
            cases.append({"kind": "rel", "n_channels": 3, "n_poles": np_, "L": L, "phsp": phsp, "d": vals["d"],
                          "values": vals, "sub_threshold_pole": is_sub_threshold(vals, 3, np_)})
        try:
            p = _n3_run(tmp, {"cases": cases, "patch_inv": True}, cap_s)
        except subprocess.TimeoutExpired:
            chk.info("n3_relativistic_pvector", f"not evaluated even with the adjugate inverse (time cap {cap_s}s); all-n theorem only")
            return bad
        if p.returncode != 0:
            chk.info("n3_relativistic_pvector", "failed: " + p.stderr[-300:])
            return [*bad, {"what": "the real code raised for n_channels = 3 (relativistic P-vector)", "error": p.stderr[-800:]}]
        res = json.loads(p.stdout.strip().split("\n")[-1])
        chk.info("n3_relativistic_pvector", {
            "how": "library code unchanged, sympy default inverse replaced by method='ADJ' (the default does not terminate)",
            "cases": len(res), "n_poles": np_, "L": L, "phsp": phsp,
            "worst_residual": max(r["residual"] for r in res),
            "worst_residual_F_sqrt_rho": max(r["residual_F_sqrt_rho"] for r in res)})
        for case, r in zip(cases, res):
            chk.count(("n3-rel", round(case["values"]["s"], 9)))
            if r["finite"] and (r["residual"] > 1e-8 or r["residual_F_sqrt_rho"] > 1e-8):
                bad.append({"what": "(1 - iK)F != P for the library's own K and P" if r["residual"] > 1e-8 else "F != sqrt(rho) F-hat",
                            **case, **r})
    finally:
        import shutil

        shutil.rmtree(tmp, ignore_errors=True)
    return bad


def signature_of(f: dict) -> dict:
    return {"what": f.get("what"), "class": f.get("class", f.get("kind"))}


def replay(data: dict) -> int:
    common.use_repo_source()
    case = data.get("input", data)
    print(json.dumps({k: v for k, v in case.items() if k not in ("values", "history_payload")}, indent=1, default=str))
    if "history_payload" in case:
        return hist.replay_history(case)
    if "passed" in case:
        import sympy as sp

        reg = dict(phsp_registry())
        reg["MarkerPhsp"] = marker_phsp()
        impl = reg[case["passed"]["phsp_factor"]]
        L = sp.Symbol(case["passed"]["angular_momentum"], integer=True, nonnegative=True)
        d = sp.Symbol(case["passed"]["meson_radius"], positive=True)
        m = _formulate(case["class"], case["n_channels"], case["n_poles"], case["hat"], impl, L, d)
        occ = occurrences(m, reg, extra_classes=[impl] if isinstance(impl, type) else [])
        print(json.dumps({"found_now": occ}))
        ok = occ["phsp"] == [case["passed"]["phsp_factor"]] and occ["L"] == [str(L)] and occ["d"] == [str(d)]
        if not ok:
            print("VIOLATION property=C10 replay=<given file>")
        return 0 if ok else 1
    if "values" in case and "kind" in case:
        r = evaluate_case(case)
        print(json.dumps(r))
        if r["residual"] > 1e-9 or r["residual_F_sqrt_rho"] > 1e-9:
            print("VIOLATION property=C10 replay=<given file>")
            return 1
        return 0
    return PROP.run("quick", 0)


PROP = KProperty(
    prop_id="C10",
    sources=SOURCES,
    namespace="C10",
    build=build,
    search=search,
    prop_modules=["Ampverif.Props.C10", "Ampverif.Props.C10History"],
    signature_of=signature_of,
    post=_history_tie,
    n_points={"quick": 5, "thorough": 30},
    n_search={"quick": 48, "thorough": 600},
    ld_symbols=(MARKER_L, MARKER_D),
    trusted=(
        "phase-space factors and form factors are leaves of the Lean model; the marker phase-space class is defined by the harness with ampform's public @unevaluated decorator",
        "occurrence sets are collected by a preorder traversal of the real sympy objects (tools/corr/C10_defs.py occurrences)",
        "history tie: the skeleton canonicaliser of tools/corr/C10_history.py (identity of EnergyDependentWidth.phsp_factor, "
        "equality of L / radius, class identity of phase-space nodes) and its independent numpy solution of the K-matrix equation",
    ),
)

MANIFEST = {
    "technique": "Lean 4 theorems over definitions and an occurrence table regenerated from kmatrix.py (translator with marker arguments), Float-twin validation, numeric residual/occurrence oracle on formulate(); call histories: Lean state machine with a process-global cache + history correspondence + history oracle",
    "design_ref": "DESIGN.md §3 C10",
    "text": (
        "Proof. The F-vector entries of formulate(parametrize=False) for n = 1, 2 (NonRelativisticPVector, RelativisticPVector with and "
        "without return_f_hat), the library's K and P parametrisations, the full formulate(n, n_R) results for n, n_R ∈ {1,2}, the "
        "Breit-Wigner functions and an occurrence table are re-translated from the working tree on every run (formulate is called with a "
        "marker phase-space class, marker angular momentum and marker radius). 57 theorems (Props/C10.lean) re-checked by the kernel: (1−iK)F = P and "
        "(1−iK̂ρ)F̂ = P with K̂ = (√ρ*)⁻¹K(√ρ)⁻¹, F = √ρF̂ for the regenerated entries wherever the denominators of the symbolic inverse do "
        "not vanish, and unconditionally for real symmetric K and positive ρ (denominators are proved non-zero); formulate = vector "
        "expression ∘ (library's K, P parametrisations), hence the equation holds for formulate(n, n_R) with real parameters (relativistic: "
        "phase-space factors positive at s and at the pole masses); for every matrix size, F = (1−iK)⁻¹P solves the equation for Hermitian "
        "K (abstract, all n); the P parametrisations are the documented ones (P_i = Σ_R β⁰_Ri g_Ri/(m_R²−s) with the K-matrix's own residue "
        "functions g_Ri and β⁰ = β√(mΓ); relativistic: Σ_R β_R γ_Ri m_R Γ_Ri B_i(s)/(m_R²−s) — the documentation's Γ⁰_R is read as the "
        "partial width Γ_Ri, as the code does and as the documented n = 1 reduction requires); the occurrence table (all four classes, "
        "n, n_R ∈ {1,2}, hat on/off; itemised per pole × channel: every energy-dependent width, form factor and phase-space node) contains "
        "exactly the marker phase-space class / L / radius for the relativistic classes, with every pole × channel covered, and nothing for "
        "the non-relativistic ones (decide); n = n_R = 1: NonRelativisticKMatrix = relativistic_breit_wigner with width γ²Γ (the BW itself "
        "at γ = 1), γ·F_nonrel = β·relativistic_breit_wigner(γ²Γ), and RelativisticPVector with the √ρ factors of the matrix expression set "
        "to 1 equals β·relativistic_breit_wigner_with_ff at γ = 1, as the documentation states. Bounded: entry-level theorems for n ≤ 2, "
        "n_R ≤ 2; n = 3 numerically in the thorough tier — non-relativistic as the library returns it; relativistic P-vector: the library's "
        "own call does not return (sympy's default symbolic inverse does not finish, notes/findings_C10.md; probed with a cap every "
        "thorough run), so its residuals are evaluated with the library's code unchanged but sympy's inversion method replaced by the "
        "adjugate method, and the Lean cover is the all-n theorem only; the argument-honouring fact is checked for the translated "
        "configurations by the kernel and for every phase-space implementation of dynamics/phasespace.py by the oracle. "
        "Histories (Props/C10History.lean, Model/C10History.lean): formulate is modelled as a call that consults a process-global "
        "expression cache keyed on (L, radius, key(factor object)); 9 theorems (+3 lemmas in Lemmas/C10History.lean): for EVERY key function that is injective on factor "
        "objects and every history of calls in one process, each call returns what a fresh process returns for its arguments "
        "(history_pure, history_call_k), hence every width / form factor / phase-space node of every call carries exactly the factor "
        "OBJECT, L and radius passed to that call (history_honours, fresh_covers: non-vacuous), and kernel-checked witnesses that "
        "the key 'qualified name' (two closures of one factory) breaks both (qualname_key_witness, qualname_key_dishonours). Tie: on "
        "every run seeded histories (2 fixed + 2/10 random, 50 / about 170 calls: all four classes, parametrize on/off, hat on/off, "
        "n, n_R in {1,2}(,3); factors = library classes, marker class, closures of one factory, lambdas of one scope, named functions, "
        "functools.partial, callable instances, bound methods, chew_mandelstam_s_wave; L / radius as numbers and as marker symbols incl. "
        "equal names with different assumptions) run in worker processes on the real code and on the Lean driver; skeletons compared "
        "call by call; for every call (a) occurrences by object identity, (b) the entries against an independent numpy solution of "
        "the K-matrix equation with the passed object called directly, (c) a canonical digest against the same call in the reversed "
        "history (all calls) and in a fresh process (10/40 calls). Bounded: the model's skeleton abstracts the algebra of the entries "
        "(that is Props/C10.lean); fresh-process purity for a subset of the calls per run. Two CLASSES with one qualified name are "
        "confused by the unchanged library (notes/findings_C10.md): recorded as `observations`, outside the verdict."
    ),
    "level_note": (
        "Trusted: Lean kernel + Mathlib (axioms propext, Classical.choice, Quot.sound); the translator incl. leaf abstraction of "
        "FormFactor / phase-space nodes (validated each run against the real lambdified code); the occurrence collector (preorder "
        "traversal + EnergyDependentWidth.phsp_factor attribute); sympy's symbolic inverse, xreplace/doit and numpy are executed, not "
        "modelled. `_create_matrices` returns cached mutable matrices for parametrize=False: a caller MUTATING a returned template is "
        "outside this property (histories without mutation are covered). History tie trusts the canonicaliser / digest of "
        "tools/corr/C10_history.py and numpy's linear solver."
    ),
}
