"""C01 — every symbol of a model is defined: parameter xor kinematic variable.

Proof (Lean, Props/C01.lean) about the executable builder model Model/C01Builder.lean, tied to the
working tree by a T2 correspondence: the same (reaction, configuration) pairs go through the real
`HelicityAmplitudeBuilder.formulate()` and through the Lean model (Drivers/C01.lean); the five
symbol sets (amplitude definitions incl. the zero definitions, amplitude symbols of the unfolded
intensity, parameter keys, kinematic-variable keys with their non-momentum dependencies, free
symbols of `model.expression`) are compared.  The statement of C01 itself is evaluated on every
real model that is built (independent oracle).
"""

from __future__ import annotations

import json
import random
import time
import traceback

from tools.lib import common

PROP_ID = "C01"
DRIVER = "Ampverif/Drivers/C01.lean"
SOURCES = [
    "src/ampform/helicity/__init__.py", "src/ampform/helicity/naming.py", "src/ampform/helicity/decay.py",
    "src/ampform/helicity/align/__init__.py", "src/ampform/helicity/align/axisangle.py",
    "src/ampform/helicity/align/dpd.py", "src/ampform/kinematics/__init__.py",
    "src/ampform/kinematics/angles.py", "src/ampform/kinematics/lorentz.py", "src/ampform/dynamics/builder.py",
]
SOUND = {"zeroDefs": "r", "regCombTopos": True, "selCoversComb": True, "perChainSyms": True}
N_CASES = {"quick": {"corpus_cfgs": 4, "synthetic": 90, "malformed": 12, "four_axis": 8, "cost_cap": 400, "time_cap": 60, "oracle_extra": 60,
                     "histories": 10, "roundtrip_every": 5, "collide": 8, "hash_seeds": [1, 2], "hash_cases": 4},
           "thorough": {"corpus_cfgs": 25, "synthetic": 950, "malformed": 100, "four_axis": 50, "cost_cap": 800, "time_cap": 120, "oracle_extra": 400,
                        "histories": 80, "roundtrip_every": 4, "collide": 60, "hash_seeds": [1, 2, 3, 4, 5], "hash_cases": 12}}


# --------------------------------------------------------------------------- cases


def make_case(R, corpus, kind: str, case_seed: int, cost_cap: int, corpus_name: str | None = None) -> dict:
    """Deterministically build one (reaction, cfg) case from its seed (also used by --replay)."""
    rng = random.Random(case_seed)
    restriction = None
    if kind == "corpus":
        reaction = corpus[corpus_name]
        if rng.random() < 0.4:  # partial helicity set of one outer state
            first = reaction.transitions[0]
            outer = [next(iter(first.topology.incoming_edge_ids)), *sorted(first.topology.outgoing_edge_ids)]
            cands = []
            for i in outer:
                obs = sorted({t.states[i].spin_projection for t in reaction.transitions})
                if len(obs) >= 2:
                    cands.append((i, obs))
            if cands:
                i, obs = rng.choice(cands)
                keep = sorted(rng.sample(obs, rng.randint(1, len(obs) - 1)))
                restriction = (i, [str(x) for x in keep])
                reaction = R.restrict(reaction, i, set(keep))
    elif kind == "corpus_axis":  # every corpus reaction with AxisAngleAlignment (massless / spinful states below a resonance)
        reaction = corpus[corpus_name]
    elif kind == "synthetic4axis":  # four-body x axis-angle (Wigner rotations, comma suffixes) made affordable
        reaction = R.synthetic_reaction(rng, max_transitions=6, nfs=4, max_spin2=1)
    else:
        for _ in range(6):  # spins 3/2 and 2 on every outer state make even the unaligned model large: redraw
            reaction = R.synthetic_reaction(rng)
            if R.unfold_cost(reaction, "n") <= 2 * cost_cap:
                break
    aligns = ["n", "n", "a", "a", "d1", "d2", "d3"]
    align = "a" if kind in {"synthetic4axis", "corpus_axis"} else rng.choice(aligns)
    malformed = kind == "malformed"
    if align.startswith("d") and len(reaction.final_state) != 3:
        align = "n"
    if R.unfold_cost(reaction, align) > (3 * cost_cap if kind == "corpus_axis" else cost_cap):
        align = "n"
    if align.startswith("d"):
        reaction = R.relabel_for_dpd(reaction)
    cfg = R.random_config(rng, reaction, align, malformed=malformed)
    if malformed and cfg["align"].startswith("d") and R.unfold_cost(reaction, "n") ** 2 > 4 * cost_cap:
        cfg["align"] = "n"
    return {"kind": kind, "case_seed": case_seed, "corpus": corpus_name, "restriction": restriction,
            "reaction": reaction, "cfg": cfg}


def case_id(case: dict) -> dict:
    return {k: case[k] for k in ("kind", "case_seed", "corpus", "restriction", "cfg")}


# --------------------------------------------------------------------------- variant probes


def infer_variant(R, corpus, chk) -> tuple[dict, list[dict]]:
    """Distinguishing probes on the real code; returns (variant, oracle failures seen on the probes)."""
    failures = []
    v = dict(SOUND)
    # zero definitions: eta_c -> Lambda Lambda~ (gaps in the product), then axis-angle with a partial helicity set
    r = corpus["etac_LLbar_hel"]
    cfg = R.default_cfg(r)
    ans, model = R.real_answer(r, cfg)
    probes = {}
    if model is None:
        probes["etac"] = ans
    else:
        has_zero = len(ans["zero"]) > 0
        probes["etac_zero_definitions"] = has_zero
        if not has_zero:
            v["zeroDefs"] = "n"
        for f in R.oracle(model):
            failures.append({"probe": "eta_c(1S) -> Lambda Lambda~ (corpus etac_LLbar_hel), default configuration",
                             "class": "amplitude symbol without definition: helicity combination without transition", **f})
    r2 = R.restrict(corpus["jpsi_gpi0pi0_hel"], 0, {-1})
    cfg2 = {**R.default_cfg(r2), "align": "a"}
    ans2, model2 = R.real_answer(r2, cfg2)
    if model2 is not None:
        probes["axis_partial_undefined"] = len(ans2["undefined"])
        if ans2["undefined"] and v["zeroDefs"] == "r":
            v["zeroDefs"] = "p"
        for f in R.oracle(model2):
            failures.append({"probe": "J/psi -> gamma pi0 pi0 (corpus jpsi_gpi0pi0_hel) restricted to gamma helicity -1, AxisAngleAlignment",
                             "class": "axis-angle alignment with an observed final-state helicity pool smaller than its spin range", **f})
    # combinatorics topologies / selector coverage: J/psi -> pi0 pi0 gamma via omega
    r3 = corpus["jpsi_pi0pi0g_omega_hel"]
    cfg3 = {**R.default_cfg(r3), "dyn": [("omega(782)", "bw")]}
    ans3, model3 = R.real_answer(r3, cfg3)
    if model3 is not None:
        v["regCombTopos"] = "phi_02" in ans3["kin"]
        v["selCoversComb"] = "m_02" in ans3["free"]
        probes["phi_02_registered"] = v["regCombTopos"]
        probes["m_02_in_expression"] = v["selCoversComb"]
        for f in R.oracle(model3):
            failures.append({"probe": "J/psi -> pi0 pi0 gamma via omega(782) (corpus jpsi_pi0pi0g_omega_hel), Breit-Wigner on omega",
                             "class": "identical final-state particles: swapped-topology kinematic variables not registered", **f})
    # per-chain amplitude symbols (fix f1f7ff8): two identical photons with unequal helicities
    r4 = corpus["psi2s_ggjpsi_hel"]
    ans4, model4 = R.real_answer(r4, R.default_cfg(r4))
    if model4 is not None:
        nonzero = set(map(tuple, ans4["defs"])) - set(map(tuple, ans4["zero"]))
        mixed = [k for k in nonzero if k[1][1] * k[1][2] < 0]  # photon helicities (-1,+1) / (+1,-1)
        mirrored = [k for k in mixed if (k[0], (k[1][0], k[1][2], k[1][1], *k[1][3:])) in nonzero]
        v["perChainSyms"] = bool(mirrored) or not mixed
        probes["photon_pairs_both_nonzero"] = v["perChainSyms"]
        for f in R.oracle(model4):
            failures.append({"probe": "psi(2S) -> gamma gamma J/psi via chi_c1 (corpus psi2s_ggjpsi_hel)",
                             "class": f.get("what", "?"), **f})
    chk.info("variant_probes", probes)
    return v, failures


# --------------------------------------------------------------------------- the property


def diff_answers(real: dict, lean: dict) -> dict:
    out = {}
    for k in sorted(set(real) | set(lean)):
        a, b = real.get(k), lean.get(k)
        if a == b:
            continue
        if isinstance(a, dict) and isinstance(b, dict):
            out[k] = {"real_only": {x: a[x] for x in a if b.get(x) != a[x]} and dict(list({x: a[x] for x in a if b.get(x) != a[x]}.items())[:6]),
                      "lean_only": dict(list({x: b[x] for x in b if a.get(x) != b[x]}.items())[:6])}
        elif isinstance(a, list) and isinstance(b, list):
            sa, sb = {json.dumps(x) for x in a}, {json.dumps(x) for x in b}
            out[k] = {"real_only": sorted(sa - sb)[:6], "lean_only": sorted(sb - sa)[:6]}
        else:
            out[k] = {"real": a, "lean": b}
    return out


def make_history(R, corpus, hist_seed: int, cost_cap: int) -> dict:
    """reaction + three configurations for ONE builder: A, B, A-again (alignments that the reaction admits without
    relabelling; `permutate_registered_topologies` at most once; dynamics accumulate)."""
    rng = random.Random(hist_seed)
    name = None
    if rng.random() < 0.5:
        name = rng.choice(sorted(corpus))
        reaction = corpus[name]
    else:
        for _ in range(6):
            reaction = R.synthetic_reaction(rng, max_transitions=8)
            if R.unfold_cost(reaction, "n") <= cost_cap:
                break
    if R.unfold_cost(reaction, "n") > 2 * cost_cap:
        reaction = corpus["jpsi_gpi0pi0_hel"]
        name = "jpsi_gpi0pi0_hel"
    aligns = ["n"] + (["a"] if R.unfold_cost(reaction, "a") <= cost_cap else [])
    a = R.random_config(rng, reaction, rng.choice(aligns))
    b = R.random_config(rng, reaction, rng.choice(aligns))
    again = {**a, "dyn": [], "perm": False}
    return {"reaction": reaction, "corpus": name, "cfgs": [a, b, again]}


def collide_oracle(R, c: dict) -> list[dict]:
    import logging

    r = c["reaction"]
    cfg = {**c["cfg"], "dyn": []}
    names = sorted({s.particle.name for t in r.transitions for e, s in t.states.items() if e not in t.topology.outgoing_edge_ids})
    lvl = logging.root.manager.disable
    logging.disable(logging.WARNING)
    try:
        b = R.apply_config(R.new_builder(r), r, cfg)
        for nm in names:
            b.dynamics.assign(nm, R.colliding_builder)
        try:
            with R.time_limit(60):
                model = b.formulate()
                return R.oracle(model)
        except (R.CaseTimeout, *R.ERRS):
            return []
    finally:
        logging.disable(lvl)


def hash_sweep(R, chk, corpus, n: dict, seed: int, failures: list) -> None:
    import os
    import subprocess

    rng = common.rng_for(PROP_ID, seed, "hashseed")
    items, refs = [], []
    names = ["jpsi_pi0pi0g_omega_hel", "jpsi_pi0pippim_hel", "d0_kskpkm_hel", "lc_pKpi_hel", "psi2s_ggjpsi_hel", "jpsi_gpi0pi0_can"]
    for k in range(n["hash_cases"]):
        name = names[k % len(names)]
        r = corpus[name]
        align = rng.choice(["n", "a", "d1", "d2"])
        if R.unfold_cost(r, align) > n["cost_cap"]:
            align = "n"
        rr = R.relabel_for_dpd(r) if align.startswith("d") else r
        cfg = R.random_config(rng, rr, align)
        items.append({"corpus": name, "cfg": cfg})
        ans, model = R.real_answer(rr, cfg)
        refs.append(ans)
    orders = [set() for _ in items]
    disagreements = 0
    for hs in n["hash_seeds"]:
        env = {**os.environ, "PYTHONHASHSEED": str(hs)}
        try:
            p = subprocess.run([common.PY, str(common.ROOT / "tools" / "corr" / "C01_hashseed.py")], input=json.dumps(items),
                               capture_output=True, text=True, timeout=600, env=env, cwd=str(common.ROOT))
        except subprocess.TimeoutExpired as e:
            raise common.InfraError("hash-seed worker timed out") from e
        if p.returncode != 0:
            chk.broken_correspondence("hash-seed worker", p.stderr[-400:])
            return
        res = json.loads(p.stdout)
        for k, (item, ref, got) in enumerate(zip(items, refs, res)):
            orders[k].add(tuple(got["order"]))
            chk.count(("hashseed", hs, k))
            canon = json.loads(json.dumps(ref, default=str))
            if got["answer"] != canon:
                disagreements += 1
                failures.append({"input": {**item, "PYTHONHASHSEED": hs}, "failure": {"what": "symbol sets of the model depend on PYTHONHASHSEED"},
                                 "class": "symbol sets of the model depend on PYTHONHASHSEED"})
            for f in got["oracle"]:
                failures.append({"input": {**item, "PYTHONHASHSEED": hs}, "failure": f, "class": f.get("what", "") + " (fresh process, other hash seed)"})
    chk.info("hash_seed_sweep", {"seeds": n["hash_seeds"], "cases": len(items), "disagreements": disagreements,
                                 "distinct_iteration_orders_observed": [len(o) for o in orders]})


def reconcile_free(real: dict, lean: dict) -> tuple[dict, bool]:
    """SymPy cancels chains that are exactly opposite (identical-particle swap x parity partner with prefactor -1 in
    synthetic reactions): the model's free-symbol set is then a SUPERSET of the real one. Accepted iff every extra symbol
    is a key of the real parameter_defaults / kinematic_variables (so C01 is not affected); counted in the evidence.
    Symbols that the real expression has and the model has not are never accepted."""
    if "free" not in real or "free" not in lean:
        return lean, False
    cancelled = False
    out = dict(lean)
    # a whole amplitude cancels to 0: it is a zero definition in the real model, a registered one in the model
    rz, lz = {json.dumps(x) for x in real["zero"]}, {json.dumps(x) for x in lean["zero"]}
    if rz != lz and lz <= rz and (rz - lz) <= {json.dumps(x) for x in lean["defs"]}:
        out["zero"] = real["zero"]
        cancelled = True
    rs, ls = set(real["free"]), set(lean["free"])
    if rs != ls and rs <= ls and (ls - rs) <= set(real["params"]) | set(real["kin"]):
        out["free"] = real["free"]
        cancelled = True
    return out, cancelled


class C01Property:
    prop_id = PROP_ID
    prop_modules = ["Ampverif.Props.C01"]

    def run(self, tier: str, seed: int) -> int:
        common.use_repo_source()
        from tools.corr import C01_real as R

        chk = common.Check(PROP_ID, tier, seed)
        n = N_CASES[tier]
        chk.info("source_blobs", common.source_blob_hashes(SOURCES))

        # ---- 1. proofs
        res = common.prove(PROP_ID, self.prop_modules)
        chk.record_proof(res, "cd lean && lake build Ampverif.Props.C01 && lake env lean Ampverif/Audit/C01.lean (#print axioms)")
        if tier == "thorough" and res["build_ok"]:
            import subprocess

            try:
                p = subprocess.run(["lake", "env", "leanchecker", *self.prop_modules], cwd=common.LEAN, capture_output=True,
                                   text=True, timeout=900)
                chk.info("leanchecker", "ok" if p.returncode == 0 else (p.stdout + p.stderr)[-400:])
                if p.returncode != 0:
                    chk.broken.append({"kind": "proof", "theorem": "<leanchecker>", "detail": (p.stdout + p.stderr)[-400:]})
            except subprocess.TimeoutExpired as e:
                raise common.InfraError("leanchecker timed out") from e

        ok_drv, log_drv = common.lake_build(["Ampverif.Drivers.C01Parse"])
        if not ok_drv:
            chk.broken_correspondence("lean driver modules do not build", log_drv[-600:])

        # ---- 2. which variant does the code implement?
        corpus = R.load_corpus()
        failures: list[dict] = []
        try:
            variant, probe_failures = infer_variant(R, corpus, chk)
        except Exception as e:  # noqa: BLE001
            chk.broken_correspondence("variant probes", "".join(traceback.format_exception_only(type(e), e))[-600:])
            variant, probe_failures = dict(SOUND), []
        chk.info("inferred_variant", variant)
        sound = variant["zeroDefs"] == "r" and variant["regCombTopos"]
        chk.info("variant_is_sound", sound)
        for f in probe_failures:
            failures.append({"input": {"probe": f["probe"]}, "failure": f, "class": f["class"]})
        if not sound:
            chk.note(f"inferred variant {variant} is not the sound one: the Lean witness theorems apply "
                     "(C01_witness_missing / C01_witness_axis_partial / C01_witness_unregistered)")

        # ---- 3. cases from ONE seeded PRNG
        rng = common.rng_for(PROP_ID, seed, "cases")
        plan = []
        for name in corpus:
            for _ in range(n["corpus_cfgs"]):
                plan.append(("corpus", rng.getrandbits(48), name))
        for _ in range(n["synthetic"]):
            plan.append(("synthetic", rng.getrandbits(48), None))
        for _ in range(n["malformed"]):
            plan.append(("malformed", rng.getrandbits(48), None))
        for _ in range(n["four_axis"]):
            plan.append(("synthetic4axis", rng.getrandbits(48), None))
        for name in corpus:
            plan.append(("corpus_axis", rng.getrandbits(48), name))
        cases = []
        gen_errors = 0
        for kind, cs, name in plan:
            try:
                cases.append(make_case(R, corpus, kind, cs, n["cost_cap"], name))
            except Exception:  # noqa: BLE001  (qrules refuses some synthetic objects)
                gen_errors += 1
        chk.info("generator_rejections", gen_errors)

        # ---- 4. Lean side (one driver run)
        lines, tables = [], []
        for c in cases:
            tb = R.Tables(c["reaction"])
            tables.append(tb)
            lines.append(R.encode_case(variant, c["reaction"], c["cfg"], tb))
        lean_out: list[str] = []
        try:
            t0 = time.time()
            lean_out = common.lean_run(DRIVER, "\n".join(lines) + "\n", timeout=1800).strip().split("\n")
            chk.info("lean_driver_seconds", round(time.time() - t0, 1))
        except common.LeanRunError as e:
            chk.broken_correspondence("lean driver", str(e)[-800:])
        if lean_out and len(lean_out) != len(cases):
            chk.broken_correspondence("lean driver", f"{len(lean_out)} replies for {len(cases)} requests")
            lean_out = []

        # ---- 5. real side, comparison, oracle
        dist = {"kind": {}, "align": {}, "formalism": {}, "n_final": {}, "outcome": {}, "identical_final": 0,
                "partial_helicity_corpus": 0, "perm": 0, "with_dynamics": 0}
        mismatches = 0
        timeouts = 0
        for idx, c in enumerate(cases):
            r, cfg = c["reaction"], c["cfg"]
            try:
                with R.time_limit(n["time_cap"]):
                    real, model = R.real_answer(r, cfg)
                    orc = R.oracle(model) if model is not None else []
            except R.CaseTimeout:
                timeouts += 1
                continue
            except Exception as e:  # noqa: BLE001
                real, model, orc = {"error": "Other:" + type(e).__name__}, None, []
            d = R.describe(r)
            for key, val in (("kind", c["kind"]), ("align", cfg["align"]), ("formalism", d["formalism"]),
                             ("n_final", str(d["n_final"])), ("outcome", real.get("error", "ok"))):
                dist[key][val] = dist[key].get(val, 0) + 1
            dist["identical_final"] += int(d["identical_final"])
            dist["partial_helicity_corpus"] += int(c["restriction"] is not None)
            dist["perm"] += int(cfg["perm"])
            dist["with_dynamics"] += int(bool(cfg["dyn"]))
            nontrivial = model is not None and d["n_transitions"] >= 2
            chk.count((lines[idx],) if nontrivial else None)
            if idx % 37 == 0:
                chk.sample({"case": case_id(c), "reaction": d,
                            "real": {k: (len(v) if isinstance(v, (list, dict)) else v) for k, v in real.items()}})
            if model is not None and idx % n["roundtrip_every"] == 0:
                try:
                    with R.time_limit(n["time_cap"]):
                        orc = orc + R.roundtrip_checks(model)
                    dist["roundtrips"] = dist.get("roundtrips", 0) + 1
                except R.CaseTimeout:
                    timeouts += 1
            for f in orc:
                failures.append({"input": case_id(c), "reaction": d, "failure": f,
                                 "class": classify(f, cfg, d)})
            if lean_out:
                lean = R.parse_reply(lean_out[idx])
                lean, cancelled = reconcile_free(real, lean)
                dist["exact_cancellations"] = dist.get("exact_cancellations", 0) + int(cancelled)
                if lean != real:
                    mismatches += 1
                    if mismatches <= 3:
                        chk.broken_correspondence("builder model vs real formulate()", {
                            "case": case_id(c), "reaction": d, "diff": diff_answers(real, lean) if "error" not in real and "error" not in lean and "bad" not in lean else {"real": str(real)[:300], "lean": str(lean)[:300]}})
        chk.info("input_distribution", dist)
        chk.info("correspondence_mismatches", mismatches)
        chk.info("case_timeouts_skipped", timeouts)
        if cases and timeouts > len(cases) // 3:
            raise common.InfraError(f"{timeouts} of {len(cases)} cases hit the per-case time cap")

        # ---- 5b. histories on ONE builder (rule 3): every formulate() of the sequence == the Lean model of the
        #          effective configuration, == a fresh builder, and the oracle holds for the second / third model too
        hrng = common.rng_for(PROP_ID, seed, "histories")
        hist_lines, hist_meta = [], []
        for _ in range(n["histories"]):
            hs = hrng.getrandbits(48)
            try:
                hc = make_history(R, corpus, hs, n["cost_cap"])
                with R.time_limit(n["time_cap"]):
                    steps = R.real_history(hc["reaction"], hc["cfgs"])
            except R.CaseTimeout:
                timeouts += 1
                continue
            except Exception:  # noqa: BLE001
                continue
            tb = R.Tables(hc["reaction"])
            for k, (eff, ans, orc) in enumerate(steps):
                hist_lines.append(R.encode_case(variant, hc["reaction"], eff, tb))
                hist_meta.append(({"history_seed": hs, "step": k, "cfgs": hc["cfgs"], "corpus": hc["corpus"]}, ans, R.describe(hc["reaction"])))
                chk.count(("history", hs, k) if k >= 1 and "error" not in ans else None)
                for f in orc:
                    failures.append({"input": hist_meta[-1][0], "reaction": hist_meta[-1][2], "failure": f,
                                     "class": f"formulate() number {k + 1} on one builder: " + classify(f, eff, hist_meta[-1][2])})
        if hist_lines:
            try:
                h_out = common.lean_run(DRIVER, "\n".join(hist_lines) + "\n", timeout=1800).strip().split("\n")
            except common.LeanRunError as e:
                h_out = []
                chk.broken_correspondence("lean driver (histories)", str(e)[-600:])
            h_mism = 0
            for (meta, ans, d), o in zip(hist_meta, h_out):
                lean = R.parse_reply(o)
                lean, _ = reconcile_free(ans, lean)
                if lean != ans:
                    h_mism += 1
                    if h_mism <= 2:
                        chk.broken_correspondence("history on one builder vs model of the effective configuration", {
                            "case": meta, "reaction": d,
                            "diff": diff_answers(ans, lean) if "error" not in ans and "error" not in lean and "bad" not in lean else {"real": str(ans)[:300], "lean": str(lean)[:300]}})
            dist["history_steps"] = len(hist_meta)
            dist["history_mismatches"] = h_mism

        # ---- 5c. user builders whose parameter is NAMED like a kinematic variable (oracle only, symbol by symbol)
        crng = common.rng_for(PROP_ID, seed, "collide")
        n_coll = 0
        for _ in range(n["collide"]):
            cs = crng.getrandbits(48)
            try:
                c = make_case(R, corpus, crng.choice(["synthetic", "corpus"]), cs, n["cost_cap"], crng.choice(sorted(corpus)))
                bad = collide_oracle(R, c)
            except Exception:  # noqa: BLE001
                continue
            n_coll += 1
            chk.count(("collide", cs))
            for f in bad:
                failures.append({"input": {**case_id(c), "builder": "colliding_builder on every decaying particle"},
                                 "reaction": R.describe(c["reaction"]), "failure": f,
                                 "class": "custom builder with a parameter named like a kinematic variable: " + f.get("what", "")})
        dist["colliding_builder_cases"] = n_coll

        # ---- 5d. fresh processes with different PYTHONHASHSEED (rule 6)
        try:
            hash_sweep(R, chk, corpus, n, seed, failures)
        except common.InfraError:
            raise
        except Exception as e:  # noqa: BLE001
            chk.broken_correspondence("hash-seed sweep", "".join(traceback.format_exception_only(type(e), e))[-400:])
        chk.info("input_distribution", dist)

        # ---- 6. deeper oracle search when something is broken and no failing input is known yet
        if chk.broken and not failures:
            srng = common.rng_for(PROP_ID, seed, "search")
            for _ in range(n["oracle_extra"] * 4):
                cs = srng.getrandbits(48)
                try:
                    c = make_case(R, corpus, srng.choice(["synthetic", "synthetic", "corpus"]), cs, n["cost_cap"],
                                  srng.choice(sorted(corpus)))
                    with R.time_limit(n["time_cap"]):
                        real, model = R.real_answer(c["reaction"], c["cfg"])
                        orc = R.oracle(model) if model is not None else []
                except Exception:  # noqa: BLE001
                    continue
                chk.count(None)
                for f in orc:
                    failures.append({"input": case_id(c), "reaction": R.describe(c["reaction"]), "failure": f,
                                     "class": classify(f, c["cfg"], R.describe(c["reaction"]))})
                if failures:
                    break

        # ---- 7. verdict
        seen = set()
        for f in failures:
            if f["class"] in seen:
                continue
            seen.add(f["class"])
            if len(seen) > 4:
                break
            chk.failing_input({"class": f["class"]}, {"input": f["input"], "reaction": f.get("reaction"),
                                                      "observed": f["failure"],
                                                      "expected": "every free symbol of model.expression is a key of exactly one of parameter_defaults / kinematic_variables; every amplitude symbol of the unfolded intensity is a key of model.amplitudes; kinematic variables depend on four-momenta and parameters only",
                                                      "inferred_variant": variant, "broken": chk.broken})
        if chk.broken and not failures:
            for b in chk.broken:
                chk.unexplained(b.get("theorem") or b.get("what"), b)
        chk.coverage["rule"] = (
            "evaluations = (reaction, configuration) cases sent through the real HelicityAmplitudeBuilder AND the Lean "
            "model and compared (+ oracle-only cases of the deeper search); a case is non-trivial when formulate() "
            "succeeded and the reaction has >= 2 transitions; distinct = distinct protocol lines (reaction + "
            "configuration + variant) among those")
        chk.coverage["trusted_base"] = [
            "Lean 4.33 kernel (axioms: see axioms_reported); Model/C01Builder.lean is import-free",
            "tools/corr/C01_real.py (encoding of qrules objects, extraction of the symbol sets from the real HelicityModel)",
            "executed, not modelled: qrules (topologies, identical-particle combinatorics, ReactionInfo sorting), "
            "SymPy free_symbols/xreplace, PoolSum.evaluate, iteration order of small-int sets",
        ]
        chk.assumptions += [
            "topologies are isobar trees with final-state ids 0..n-1 (or 1..3 after DPD relabelling) and node ids as qrules assigns them",
            "distinct particles have distinct names (the wire format identifies particles by name)",
            "dynamics are assigned by particle name (the selector itself is C13)",
        ]
        return chk.finish()


def classify(f: dict, cfg: dict, d: dict) -> str:
    what = f.get("what", "")
    if "without definition" in what or f.get("kind") == "Indexed" or str(f.get("symbol", "")).startswith("A^"):
        if cfg["align"] == "a":
            return "axis-angle alignment with an observed final-state helicity pool smaller than its spin range"
        return "amplitude symbol without definition: helicity combination without transition"
    if "neither" in what and d.get("identical_final"):
        return "identical final-state particles: swapped-topology kinematic variables not registered"
    return what + f" (alignment {cfg['align']})"


def _find_case(obj):
    if isinstance(obj, dict):
        if "case_seed" in obj and "kind" in obj:
            return obj
        for v in obj.values():
            r = _find_case(v)
            if r is not None:
                return r
    elif isinstance(obj, list):
        for v in obj:
            r = _find_case(v)
            if r is not None:
                return r
    return None


def replay(rep: dict) -> int:
    """./check C01 --replay FILE : rebuild the stored case; show what the real code and the model do on it."""
    common.use_repo_source()
    from tools.corr import C01_real as R

    corpus = R.load_corpus()
    print(json.dumps(rep, indent=1, default=str)[:3000])
    inp = _find_case(rep)
    if inp is None:
        return PROP.run("quick", int(rep.get("seed", 0)))
    cap = 10**9 if inp["kind"] == "corpus" else N_CASES["thorough" if rep.get("tier") == "thorough" else "quick"]["cost_cap"]
    c = make_case(R, corpus, inp["kind"], inp["case_seed"], cap, inp.get("corpus"))
    if c["cfg"] != {**inp.get("cfg", c["cfg"]), "dyn": [tuple(x) for x in inp.get("cfg", c["cfg"])["dyn"]]}:
        # the case was generated with the other tier's cost cap: try that one
        other = N_CASES["thorough" if cap == N_CASES["quick"]["cost_cap"] else "quick"]["cost_cap"]
        c = make_case(R, corpus, inp["kind"], inp["case_seed"], other, inp.get("corpus"))
    variant = rep.get("inferred_variant") or dict(SOUND)
    real, model = R.real_answer(c["reaction"], c["cfg"])
    bad = R.oracle(model) if model is not None else []
    lean = R.parse_reply(common.lean_run(DRIVER, R.encode_case(variant, c["reaction"], c["cfg"]) + "\n").strip().split("\n")[0])
    lean, cancelled = reconcile_free(real, lean)
    if cancelled:
        print("note: the real expression has fewer free symbols than the model (exact cancellation of chains); accepted")
    print("replayed:", json.dumps({"cfg": c["cfg"], "reaction": R.describe(c["reaction"]), "oracle_failures": bad[:6],
                                   "model_vs_real": "agree" if lean == real else diff_answers(real, lean) if "error" not in real and "error" not in lean and "bad" not in lean else {"real": str(real)[:200], "lean": str(lean)[:200]}},
                                  indent=1, default=str))
    return 1 if bad or lean != real else 0


PROP = C01Property()

MANIFEST = {
    "technique": "Lean 4 theorems about an executable builder model (symbol sets), T2 correspondence with the real formulate() on corpus + synthetic reactions x random configurations and on configuration HISTORIES driven through one builder, independent oracle = the property statement on every real model (also after pickle / rename_symbols round trips, with name-colliding custom builders, and in fresh processes with other PYTHONHASHSEED values)",
    "design_ref": "DESIGN.md §3 C01",
    "text": (
        "Proof. Model/C01Builder.lean follows formulate()/__register_amplitudes/__formulate_topology_amplitude/"
        "__define_missing_amplitudes, the name generators (incl. the parity-partner registration loop), the three alignments' "
        "index wiring, the adapter's key set (incl. permuted and combinatorics topologies) and the stable-mass / scalar-initial-mass "
        "moves and the DPD back-substitution loop line by line on symbol sets; the identical-particle combinatorics are an input. "
        "Proved for ALL reactions and configurations (induction over trees / lists, no bounds): C01_refs_defined + C01_no_undefined "
        "(with the zero definitions of fix e6c0bd9 every amplitude symbol of the unfolded intensity has a definition, all three "
        "alignments), C01_refs_defined_product (fix 5659807 alone suffices for NoAlignment/DPD), C01_xor (sound variant, well-formed "
        "isobar trees, formulate() succeeds: every free symbol of the expression is in exactly one of parameter_defaults / "
        "kinematic_variables — NoAlignment, AxisAngleAlignment and DalitzPlotDecomposition, any stable ids / scalar mass / couplings "
        "/ naming flags / dynamics by name / permuted topologies; the name classes C_{ H_{ m_{ \\Gamma_{ d_{ c_{ vs phi_ theta_ "
        "m_<digit> alpha_ beta_ gamma_ \\zeta^ are disjoint for ANY particle names, so the hypothesis 'names are not digit strings' "
        "is not needed), C01_xor_partial (NoAlignment without the zero-definition and error hypotheses), C01_kin_closed (non-momentum "
        "symbols in kinematic-variable definitions are parameters, all alignments), C01_builder_contract, C01_classes_disjoint. "
        "Witness theorems (decide) for the unsound variants: C01_witness_missing(_which) (eta_c -> Lambda Lambda~ without zero "
        "definitions), C01_witness_axis_partial, C01_witness_unregistered; the check infers the variant the code implements by "
        "probes and replays the witness on the real code. Not modelled: the VALUES of parameter defaults (C13) and the expressions "
        "of kinematic variables beyond their symbol dependencies (C07)."
    ),
    "level_note": (
        "Trusted: Lean kernel (axioms propext, Quot.sound at most); the harness tools/corr/C01_real.py; the model is tied to "
        "the source only through the sampled correspondence (8 corpus reactions incl. partial helicity sets + synthetic "
        "ReactionInfo objects x random configurations per run), not by translation. Executed, not modelled: qrules "
        "(combinatorics, topologies), SymPy free_symbols, PoolSum.evaluate. Dynamics are assigned by name only; custom "
        "builders must honour the stated contract (parameters named c_{...}). The model's free-symbol set is an upper bound: "
        "when SymPy cancels exactly opposite chains (synthetic identical-particle x parity-partner reactions) the real "
        "expression has fewer symbols; such cases are accepted only if every extra symbol is a key of the real "
        "parameter_defaults / kinematic_variables and are counted (exact_cancellations) in the evidence."
    ),
}
