"""C06 — formulate() is a pure function of (reaction, configuration).

Proof (Lean, `Ampverif.Props.C06`) about the state-machine model `Ampverif.Model.C06Purity`,
tied to the working tree by a T2 correspondence on histories with the REAL builders.
"""

from __future__ import annotations

import itertools
import json
import time
import traceback

from tools.lib import common
from tools.search import C06 as S

PROP_ID = "C06"
PROP_MODULES = ["Ampverif.Props.C06"]
DRIVER = "Ampverif/Drivers/C06.lean"
SOURCES = [
    "src/ampform/helicity/__init__.py",
    "src/ampform/helicity/align/__init__.py",
    "src/ampform/helicity/align/dpd.py",
    "src/ampform/helicity/align/axisangle.py",
    "src/ampform/helicity/decay.py",
    "src/ampform/helicity/naming.py",
    "src/ampform/kinematics/__init__.py",
]
PAIR_REACTIONS = ["jpsi_k0_sigma_p", "lc_pkpi", "jpsi_k0_sigma_p_raw", "jpsi_gamma_pi0_pi0"]
GAP_REACTIONS = ["chic0_omega_phi", "etac_LLbar"]  # several outer helicity combinations without transition
FOUR_BODY = ["jpsi_k0_sigma_p_pi0"]  # 2 topologies, 12 permuted ones without name collisions; DPD raises, axis-angle works
# the SAME decay (topologies, particles) with different helicity sets of the initial state: a memo keyed on
# everything but the helicities (round-6 seed against the DPD alignment cache) shows up only in such a pair
RELATED_PAIRS = [("jpsi_k0_sigma_p", "jpsi_k0_sigma_p_full"), ("jpsi_k0_sigma_p_full", "jpsi_k0_sigma_p")]
RELATED_ONLY = ["jpsi_k0_sigma_p_full"]
REACTIONS = PAIR_REACTIONS + GAP_REACTIONS + FOUR_BODY + RELATED_ONLY
HIST_DYNAMICS = ["create_non_dynamic", "create_relativistic_breit_wigner"]
# every object with cache_clear reachable from the package on the unchanged tree (found by introspection on every run)
EXPECTED_MEMOISED = [
    "ampform._qrules.get_qrules_version", "ampform.dynamics.form_factor._get_indices",
    "ampform.dynamics.form_factor._get_polynomial_blatt_weisskopf",
    "ampform.dynamics.kmatrix.NonRelativisticKMatrix._create_matrices",
    "ampform.dynamics.kmatrix.NonRelativisticPVector._create_matrices",
    "ampform.dynamics.kmatrix.RelativisticKMatrix._create_matrices",
    "ampform.dynamics.kmatrix.RelativisticPVector._create_matrices",
    "ampform.helicity.align.dpd._formulate_aligned_amplitude", "ampform.helicity.decay.assert_three_body_decay",
    "ampform.helicity.decay.get_decay_product_ids", "ampform.helicity.decay.get_spectator_id",
    "ampform.helicity.decay.is_opposite_helicity_state", "ampform.helicity.naming.get_boost_chain_suffix",
    "ampform.sympy._cache._warn_about_unsafe_hash",
]
SIZES = {
    "quick": {"histories": 5, "ops": 55, "interleavings": 0, "hashseeds": ["prng"], "scan_seeds": 12, "cover_seeds": 3, "own_process": 2,
              "shrink_budget": 5, "perm_samples": 6},
    "thorough": {"histories": 20, "ops": 120, "interleavings": 8, "hashseeds": ["unset", "0", "1", "4242"], "scan_seeds": 32, "cover_seeds": 4,
                 "own_process": 10, "shrink_budget": 16, "perm_samples": 24},
}
ERR_CODE = {"ValueError": "1", "KeyError": "2"}

# Every hash-ordered container the six attributes are built from (grep of the formulate() call tree),
# with the fingerprint key under which the hash-seed scan records its iteration orders.
ITERATION_SOURCES = [
    {"attribute": "kinematic_variables", "container": "HelicityAdapter.__topologies (set of Topology)", "where": "kinematics/__init__.py create_expressions / permutate_registered_topologies",
     "fingerprint": ["topologies:*", "permuted:*"], "neutralised_by": "sorting converter with tie-break by name (043d8fb); C06_order"},
    {"attribute": "intensity", "container": "collect_spin_projections -> dict[Symbol, set[sp.Rational]]", "where": "helicity/naming.py; helicity/__init__.py PoolSum pools",
     "fingerprint": ["half-integers", "half-integers-3/2", "integers"], "neutralised_by": "sorted(values) per pool (9c38e66)"},
    {"attribute": "amplitudes", "container": "_unfold_poolsums(intensity).atoms(sp.Indexed) (set)", "where": "helicity/__init__.py __define_missing_amplitudes",
     "fingerprint": ["indexed-atoms:*"], "neutralised_by": "sorted(atoms, key=str) (e6c0bd9); C06_missing_order"},
    {"attribute": "kinematic_variables, parameter_defaults", "container": "angle_expr.free_symbols (set of Symbol)", "where": "helicity/__init__.py formulate, alignment loop",
     "fingerprint": ["symbols"], "neutralised_by": "sorted(free_symbols, key=str)"},
    {"attribute": "parameter_defaults", "container": "config.stable_final_state_ids (set of int)", "where": "helicity/__init__.py formulate",
     "fingerprint": ["stable-ids-set"], "neutralised_by": "int hashing is not seed dependent (1 order observed); modelled as sorted"},
    {"attribute": "kinematic_variables", "container": "wigner_rotation_ids / outgoing_edge_ids (sets / frozensets of int)", "where": "helicity/align/axisangle.py define_symbols; qrules Topology",
     "fingerprint": ["state-id-frozenset"], "neutralised_by": "int hashing is not seed dependent; sorting converter"},
    {"attribute": "amplitudes, components, parameter_defaults", "container": "group_by_spin_projection / group_by_topology / DynamicsSelector (dicts filled from the LIST reaction.transitions)",
     "where": "helicity/decay.py, helicity/__init__.py", "fingerprint": [], "neutralised_by": "insertion-ordered dicts over a list: no set involved"},
]
MAX_PROCS = 12


def csv(ids) -> str:
    ids = list(ids)
    return ",".join(map(str, ids)) if ids else "-"


def hexname(s: str) -> str:
    return "".join(f"{ord(c):04x}" for c in s)


# ---------------------------------------------------------------------------- configurations


class Tracked:
    """What the USER configured on one builder (the oracle's notion of 'configuration')."""

    def __init__(self, rname: str, own: list[int]):
        self.rname = rname
        self.cfg = {"align": "none", "scalar": False, "stable": None, "hel": False, "dyn": {}, "naming": 2,
                    "topos": sorted(own)}

    def apply(self, op: dict, info: dict):
        if op["op"] == "set":
            f, v = op["field"], op["value"]
            if f == "stable":
                self.cfg["stable"] = None if v is None else sorted(set(v))
            elif f in ("dyn", "dyn_decay"):
                # effective selection: decay index -> dynamics builder (assignment by name covers every
                # decay of that parent and overrides earlier per-decay assignments)
                idxs = [i for i, parent in enumerate(info["decays"]) if parent == v[0]] if f == "dyn" else [v[0]]
                for i in idxs:
                    if v[1] == "create_non_dynamic":
                        self.cfg["dyn"].pop(i, None)
                    else:
                        self.cfg["dyn"][i] = v[1]
            else:
                self.cfg[f] = v
        elif op["op"] == "reg":
            self.cfg["topos"] = sorted(set(self.cfg["topos"]) | {op["topo"]})
        elif op["op"] == "permutate":
            self.cfg["topos"] = list(range(info["pool"]))

    def key(self) -> str:
        c = dict(self.cfg)
        c["dyn"] = sorted(c["dyn"].items())
        return json.dumps(c, sort_keys=True)


def ops_to_reach(target: dict, current: dict, b: int) -> list[dict] | None:
    """set/reg operations that turn configuration `current` into `target` (None if impossible)."""
    if not set(current["topos"]) <= set(target["topos"]):
        return None
    ops = []
    for f in ("align", "scalar", "stable", "hel", "naming"):
        if current[f] != target[f]:
            ops.append({"op": "set", "b": b, "field": f, "value": target[f]})
    for p in sorted(set(current["dyn"]) | set(target["dyn"])):
        if current["dyn"].get(p) != target["dyn"].get(p):
            ops.append({"op": "set", "b": b, "field": "dyn_decay", "value": [p, target["dyn"].get(p, "create_non_dynamic")]})
    for t in sorted(set(target["topos"]) - set(current["topos"])):
        ops.append({"op": "reg", "b": b, "topo": t})
    return ops


# ---------------------------------------------------------------------------- history generator


def random_set_op(rng, b: int, info: dict) -> dict:
    finals = [i - 1 for i in info["final"]]
    f = rng.choice(["align", "align", "stable", "stable", "scalar", "hel", "dyn", "dyn_decay", "naming"])
    if f == "dyn_decay" and not info["decays"]:
        f = "hel"
    if f == "align":
        v = rng.choice(["none", "axis", "dpd:1", "dpd:1", "dpd:2", "dpd:3"])
    elif f == "stable":
        u = rng.random()
        if u < 0.3:
            v = None
        elif u < 0.6:
            v = list(finals)
            rng.shuffle(v)
        else:
            v = [i for i in finals if rng.random() < 0.6]
            rng.shuffle(v)
            if v and rng.random() < 0.2:
                v.append(v[0])
    elif f in ("scalar", "hel"):
        v = rng.random() < 0.5
    elif f == "dyn":
        names = [*info["particles"], "nonexistent(1234)"]
        v = [rng.choice(names), rng.choice(HIST_DYNAMICS)]
    elif f == "dyn_decay":
        v = [rng.randrange(len(info["decays"])), rng.choice(HIST_DYNAMICS)]
    else:
        v = rng.randrange(4)
    return {"op": "set", "b": b, "field": f, "value": v}


def gen_segment(rng, infos: dict, n_ops: int, first_builder: int, malformed: bool, stats: dict):
    """One history segment: two builders sharing a reaction object (+ sometimes a third builder on
    another reaction).  Returns (ops, builder reaction names)."""
    def pick():
        u = rng.random()
        return rng.choice(PAIR_REACTIONS) if u < 0.72 else rng.choice(GAP_REACTIONS) if u < 0.9 else rng.choice(FOUR_BODY)

    r0 = pick()
    names = [r0, r0]
    if rng.random() < 0.5:
        names.append(pick())
    ops = [{"op": "new", "r": r} for r in names]
    if rng.random() < 0.4:
        # the second builder gets an EQUAL but not identical reaction object (qrules.io round trip)
        ops[1]["fresh"] = True
        stats["equal_not_identical_reaction"] = stats.get("equal_not_identical_reaction", 0) + 1
    tracked = [Tracked(r, infos[r]["own"]) for r in names]
    visited: list[tuple[str, dict]] = []
    for _ in range(n_ops):
        lb = rng.randrange(len(names))
        b = first_builder + lb
        info = infos[names[lb]]
        u = rng.random()
        if u < 0.28:
            new = [{"op": "formulate", "b": b}]
        elif u < 0.46 and visited:
            cands = [c for r, c in visited if r == names[lb]]
            target = rng.choice(cands) if cands else None
            reach = ops_to_reach(target, tracked[lb].cfg, b) if target else None
            if reach is None:
                new = [{"op": "formulate", "b": b}]
            else:
                stats["revisits"] = stats.get("revisits", 0) + 1
                new = [*reach, {"op": "formulate", "b": b}]
        elif u < 0.88:
            new = [random_set_op(rng, b, info)]
        elif u < 0.93:
            new = [{"op": "permutate", "b": b}] if rng.random() < 0.3 else \
                  [{"op": "reg", "b": b, "topo": rng.randrange(info["pool"])}]
        elif u < 0.95:
            new = [{"op": "evict"}]
        elif malformed:
            from tools.corr.C06_real import BAD_ASSIGNMENTS

            new = [{"op": "bad", "b": b, "what": rng.choice(sorted(BAD_ASSIGNMENTS))}]
        else:
            new = [random_set_op(rng, b, info)]
        for op in new:
            if "b" in op:
                tracked[op["b"] - first_builder].apply(op, infos[names[op["b"] - first_builder]])
            if op["op"] == "formulate":
                t = tracked[op["b"] - first_builder]
                visited.append((t.rname, {**json.loads(json.dumps(t.cfg)), "dyn": dict(t.cfg["dyn"])}))
            stats[op["op"]] = stats.get(op["op"], 0) + 1
            if op["op"] == "set":
                stats["set:" + op["field"]] = stats.get("set:" + op["field"], 0) + 1
        ops += new
    return ops, names


def scripted_segments(rng, infos: dict, first_builder: int, stats: dict):
    """Systematic part of the histories: every pair of reactions under the same (memoised) alignment
    in one process, A-B-A, so that state keyed too coarsely (not on the reaction) shows up."""
    segments = []
    fb = first_builder
    pairs = [(a, b) for a in PAIR_REACTIONS for b in PAIR_REACTIONS if a < b] + RELATED_PAIRS
    for r1, r2 in pairs:
        both_dpd = all(isinstance(infos[r]["dpd"].get(1), int) or isinstance(infos[r]["dpd"].get("1"), int) for r in (r1, r2))
        both_axis = all(isinstance(infos[r]["axis"], int) for r in (r1, r2))
        aligns = ([f"dpd:{rng.choice([1, 2, 3])}"] if both_dpd else []) + (["axis"] if both_axis else [])
        if (r1, r2) in RELATED_PAIRS:
            stats["scripted_related_pairs"] = stats.get("scripted_related_pairs", 0) + 1
        if not aligns:
            aligns = ["none"]
        for al in aligns:
            ops = [{"op": "new", "r": r1}, {"op": "new", "r": r2}]
            for lb in (0, 1):
                ops.append({"op": "set", "b": fb + lb, "field": "align", "value": al})
            hel = rng.random() < 0.5
            for lb in (0, 1):
                ops.append({"op": "set", "b": fb + lb, "field": "hel", "value": hel})
            ops += [{"op": "formulate", "b": fb}, {"op": "formulate", "b": fb + 1}, {"op": "formulate", "b": fb}]
            segments.append((ops, [r1, r2]))
            fb += 2
            stats["scripted_pairs"] = stats.get("scripted_pairs", 0) + 1
    # a 4-body reaction under axis-angle alignment, two builders on equal-but-not-identical reaction
    # objects, permuted topologies registered mid-history, dynamics by decay re-assigned after a formulate
    for r in FOUR_BODY:
        ops = [{"op": "new", "r": r}, {"op": "new", "r": r, "fresh": True},
               {"op": "set", "b": fb, "field": "align", "value": "axis"},
               {"op": "set", "b": fb, "field": "dyn_decay", "value": [0, HIST_DYNAMICS[1]]},
               {"op": "formulate", "b": fb}, {"op": "formulate", "b": fb + 1},
               {"op": "set", "b": fb, "field": "dyn_decay", "value": [0, HIST_DYNAMICS[0]]},
               {"op": "set", "b": fb + 1, "field": "align", "value": "axis"},
               {"op": "permutate", "b": fb + 1}, {"op": "formulate", "b": fb + 1},
               {"op": "formulate", "b": fb}, {"op": "permutate", "b": fb}, {"op": "formulate", "b": fb}]
        segments.append((ops, [r, r]))
        fb += 2
        stats["scripted_four_body"] = stats.get("scripted_four_body", 0) + 1
    # reactions with zero-defined ("missing") amplitudes: always formulated, so that they take part
    # in the fresh-process / hash-seed comparison
    for r in GAP_REACTIONS:
        ops = [{"op": "new", "r": r}, {"op": "new", "r": r}, {"op": "formulate", "b": fb},
               {"op": "set", "b": fb + 1, "field": "hel", "value": True}, {"op": "formulate", "b": fb + 1},
               {"op": "set", "b": fb, "field": "align", "value": "axis"}, {"op": "formulate", "b": fb},
               {"op": "formulate", "b": fb + 1}]
        segments.append((ops, [r, r]))
        fb += 2
        stats["scripted_gap_reactions"] = stats.get("scripted_gap_reactions", 0) + 1
    return segments


def gen_interleavings(rng, infos: dict, n: int, first_builder: int, stats: dict):
    """Two per-builder scripts on builders sharing one reaction, merged in `n` random schedules."""
    r0 = rng.choice(REACTIONS[:2])
    info = infos[r0]
    scripts = []
    for lb in range(2):
        sc = []
        for _ in range(10):
            sc.append(random_set_op(rng, lb, info) if rng.random() < 0.65 else {"op": "formulate", "b": lb})
        sc.append({"op": "formulate", "b": lb})
        scripts.append(sc)
    segments = []
    fb = first_builder
    for _ in range(n):
        order = [0] * len(scripts[0]) + [1] * len(scripts[1])
        rng.shuffle(order)
        pos = [0, 0]
        ops = [{"op": "new", "r": r0}, {"op": "new", "r": r0}]
        for lb in order:
            op = dict(scripts[lb][pos[lb]])
            pos[lb] += 1
            op["b"] = fb + lb
            ops.append(op)
        segments.append((ops, [r0, r0]))
        fb += 2
        stats["interleavings"] = stats.get("interleavings", 0) + 1
    return segments


# ---------------------------------------------------------------------------- Lean protocol


def lean_lines_for(ops: list[dict], results: list[dict], builder_names: dict[int, str], infos: dict,
                   rids: dict[str, int]) -> list[str]:
    lines = []
    for op, res in zip(ops, results):
        k = op["op"]
        if k == "new":
            lines.append(f"new {rids[op['r']]} {csv(res['order'])}")
            continue
        if k == "evict":
            lines.append("evictall")
            continue
        b = op["b"]
        info = infos[builder_names[b]]
        if k == "set":
            f, v = op["field"], op["value"]
            if f == "align":
                lines.append(f"set {b} align {v}")
            elif f in ("scalar", "hel"):
                lines.append(f"set {b} {f} {1 if v else 0}")
            elif f == "stable":
                lines.append(f"set {b} stable " + ("-" if v is None else (csv(i + 1 for i in v) if v else "-empty")))
            elif f == "dyn":
                idxs = [i for i, parent in enumerate(info["decays"]) if parent == v[0]]
                for i in idxs:
                    lines.append(f"set {b} dyn {i} {HIST_DYNAMICS.index(v[1])}")
                if not idxs:
                    lines.append(f"bad {b} 0")
            elif f == "dyn_decay":
                lines.append(f"set {b} dyn {v[0]} {HIST_DYNAMICS.index(v[1])}")
            elif f == "naming":
                lines.append(f"set {b} naming {v}")
        elif k == "bad":
            lines.append(f"bad {b} 1")
        elif k == "reg":
            lines.append(f"reg {b} {op['topo']} {csv(res['order'])}")
        elif k == "permutate":
            for t in res["added"]:
                lines.append(f"reg {b} {t} {csv(res['order'])}")
        elif k == "formulate":
            lines.append(f"formulate {b} {csv(res['order'])}")
    return lines


def parse_f(line: str) -> dict:
    d = {}
    for tok in line.split()[1:]:
        k, _, v = tok.partition("=")
        d[k] = v
    return d


def mass_keys_real(names: list[str]) -> str:
    from tools.corr.C06_real import mass_ids

    groups = []
    for n in names:
        ids = mass_ids(n, 1)
        if ids is not None:
            groups.append(ids)
    return "|".join(csv(g) for g in sorted(groups))


def mass_keys_model(s: str) -> str:
    groups = [[int(x) for x in g.split(",")] for g in s.split("|") if g]
    return "|".join(csv(g) for g in sorted(groups))


# ---------------------------------------------------------------------------- the property


class C06Property:
    def regenerate(self):
        return None

    # ---- natural sorting + merge correspondences -------------------------------------------
    def sort_and_merge_tie(self, chk: common.Check, rng, size: dict, sort_cases: list[dict], tb: int):  # noqa: C901, PLR0912, PLR0915
        import re

        import sympy as sp

        from ampform.helicity import _order_symbol_mapping
        from ampform.helicity.naming import natural_sorting
        from tools.corr import C06_real as R

        lines, plan = [], []
        # (1) token level
        all_names = sorted({n for c in sort_cases for n in c["input"]})
        castable = []
        for n in all_names:
            pieces = re.split(r"[+-]?([0-9]+(?:[.][0-9]*)?|[.][0-9]+)", n)
            toks = []
            for i, p in enumerate(pieces):
                if i % 2 == 0:
                    toks.append("T" + ",".join(str(ord(c)) for c in p))
                    try:
                        float(p)
                        castable.append(n)
                    except ValueError:
                        pass
                else:
                    ip, _, fr = p.partition(".")
                    toks.append(f"N{int(ip or 0)}." + fr.rstrip("0"))
            lines.append("key " + hexname(n))
            plan.append(("key", n, " ".join(toks)))
        if castable:
            chk.note(f"names with a text piece that float() accepts (outside the sort model): {castable[:3]}")
        # (2) sorted(..., key=natural_sorting) with ties keeping the insertion order
        for c in sort_cases:
            if any(n in castable for n in c["input"]) or not c["input"]:
                continue
            c["tb"] = tb if c["what"] == "kinematic_variables" else 0
            lines.append(f"sort {c['tb']} " + " ".join(hexname(n) for n in c["input"]))
            plan.append(("sort", c, None))
        # (3) merge of per-topology maps in every iteration order, then the sorting converter
        merge_cases = []
        for rname in PAIR_REACTIONS[:3]:
            maps = R.topology_maps(rname)
            merge_cases.append((rname, maps))
        try:
            from qrules.topology import create_isobar_topologies

            from ampform.kinematics.angles import compute_helicity_angles
            from ampform.kinematics.lorentz import compute_invariant_masses, create_four_momentum_symbols

            maps4 = []
            tops4 = list(create_isobar_topologies(4))
            if size["perm_samples"] > 6:
                # thorough: add outgoing-edge permutations (C07's known collisions live here: the
                # consistency premise of C06_order may fail, which both sides must report alike)
                import attrs

                extra = []
                for topology in tops4:
                    ids = sorted(topology.outgoing_edge_ids)
                    for perm in itertools.permutations(ids):
                        mapping = dict(zip(ids, perm))
                        t2 = attrs.evolve(topology, edges={mapping.get(i, i): e for i, e in topology.edges.items()})
                        if t2 not in tops4 and t2 not in extra:
                            extra.append(t2)
                rng.shuffle(extra)
                tops4 += extra
            for topology in tops4:
                mom = create_four_momentum_symbols(topology)
                d = {}
                d.update(compute_helicity_angles(mom, topology))
                d.update(compute_invariant_masses(mom, topology))
                maps4.append({s.name: sp.srepr(e) for s, e in d.items()})
            merge_cases.append(("isobar-topologies-4-body", maps4[:2]))
            if len(maps4) > 2:
                merge_cases.append(("isobar-topologies-4-body-permuted-sample", [maps4[0], *maps4[2:4]]))
                clash = [(i, j) for i, a in enumerate(maps4) for j, b in enumerate(maps4) if i < j
                         and any(k in b and a[k] != b[k] for k in a)]
                if clash:
                    i, j = clash[0]
                    merge_cases.append(("isobar-topologies-4-body-with-name-collision(C07)", [maps4[i], maps4[j], maps4[0]]))
        except Exception as e:  # noqa: BLE001
            chk.note(f"4-body topology maps not available: {type(e).__name__}")
        for rname, maps in merge_cases:
            vids: dict[str, int] = {}
            enc = [" ".join(f"{hexname(k)}={vids.setdefault(v, len(vids))}" for k, v in m.items()) for m in maps]
            perms = list(itertools.permutations(range(len(maps))))
            rng.shuffle(perms)
            for perm in perms[: size["perm_samples"]]:
                lines.append(f"merge {tb} {csv(perm)} | " + " | ".join(enc))
                plan.append(("merge", (rname, maps, perm, vids), None))
        out = common.lean_run(DRIVER, "\n".join(lines) + "\n").strip().split("\n")
        if len(out) != len(plan):
            chk.broken_correspondence("natural-sort driver", f"{len(out)} replies for {len(plan)} requests")
            return
        n_key = n_sort = n_merge = n_ties = 0
        reference: dict[str, str] = {}
        for (kind, a, b), reply in zip(plan, out):
            if kind == "key":
                n_key += 1
                chk.count(("sortkey", a))
                if reply != b:
                    chk.broken_correspondence("natural_sorting tokens", {"name": a, "python": b, "lean": reply})
            elif kind == "sort":
                n_sort += 1
                exp_sorted = sorted(a["input"], key=(lambda n: (natural_sorting(n), n)) if a["tb"] else natural_sorting)
                got = reply.split()
                idx = [int(i) for i in got[1].split(",")] if got[1] != "" else []
                lean_sorted = [a["input"][i] for i in idx]
                n_ties += got[-1] == "ties=1"
                chk.count(("sort", a["what"], tuple(a["input"])))
                if lean_sorted != exp_sorted:
                    chk.broken_correspondence("natural sort order", {"what": a["what"], "python": exp_sorted[:8], "lean": lean_sorted[:8]})
                if a.get("real_output") is not None and a["real_output"] != exp_sorted:
                    # the model attribute is not `sorted(insertion order, key=natural_sorting)`
                    chk.broken_correspondence("HelicityModel converter", {"what": a["what"], "expected": exp_sorted[:8], "real": a["real_output"][:8]})
                if a["what"] == "kinematic_variables" and got[-1] == "ties=1" and not a["tb"]:
                    chk.broken_correspondence("premise of C06_order", {"what": "tie between kinematic variable names", "names": a["input"][:12]})
            else:
                rname, maps, perm, vids = a
                n_merge += 1
                toks = reply.split()
                cons_lean = toks[1] == "consistent=1"
                merged_py: dict[str, str] = {}
                for i in perm:
                    merged_py.update(maps[i])
                # the REAL converter on the real symbols
                real_sorted = list(_order_symbol_mapping({sp.Symbol(k): sp.Symbol(f"v{vids[v]}") for k, v in merged_py.items()}).items())
                real_enc = " ".join(f"{hexname(k.name)}={v.name[1:]}" for k, v in real_sorted)
                lean_enc = " ".join(toks[3:])
                cons_py = all(m1[k] == m2[k] for m1 in maps for m2 in maps for k in m1 if k in m2)
                chk.count(("merge", rname, perm))
                if cons_lean != cons_py:
                    chk.broken_correspondence("merge consistency flag", {"reaction": rname, "lean": cons_lean, "python": cons_py})
                if lean_enc != real_enc:
                    chk.broken_correspondence("merge+sort", {"reaction": rname, "perm": perm, "lean": lean_enc[:200], "real": real_enc[:200]})
                if cons_py and (toks[2] == "ties=0" or tb):
                    if rname in reference and reference[rname] != real_enc:
                        chk.broken_correspondence("C06_order on the real maps", {"reaction": rname, "perm": perm})
                    reference.setdefault(rname, real_enc)
                elif not cons_py:
                    chk.coverage.setdefault("merge_premise_fails_for", [])
                    if rname not in chk.coverage["merge_premise_fails_for"]:
                        chk.coverage["merge_premise_fails_for"].append(rname)
        chk.info("natural_sort_tie", {"token_comparisons": n_key, "sort_comparisons": n_sort, "with_ties": n_ties,
                                      "merge_comparisons": n_merge})

    # ---- main -------------------------------------------------------------------------------
    def run(self, tier: str, seed: int) -> int:  # noqa: C901, PLR0912, PLR0914, PLR0915
        import os
        import sys

        if os.environ.get("PYTHONHASHSEED") is None and os.environ.get("C06_REEXEC") is None:
            # the hash seed of the checking process is an input of the in-process histories: fix it
            # from VERIF_SEED so that a run (and its replays) is reproducible
            env = dict(os.environ, PYTHONHASHSEED=str(common.rng_for(PROP_ID, seed, "hashseed").randrange(1, 2**31)),
                       C06_REEXEC="1", VERIF_TIER=tier, VERIF_SEED=str(seed))
            sys.stdout.flush()
            os.execve(sys.executable, [sys.executable, *sys.argv], env)  # noqa: S606
        self.main_hashseed = os.environ.get("PYTHONHASHSEED", "unset")
        chk = common.Check(PROP_ID, tier, seed)
        chk.info("hash_seed_of_checking_process", self.main_hashseed)
        common.use_repo_source()
        size = SIZES[tier]
        rng = common.rng_for(PROP_ID, seed, "histories")
        chk.info("source_blobs", common.source_blob_hashes(SOURCES))
        checker_cmd = ("cd lean && lake build " + " ".join(PROP_MODULES)
                       + f" && lake env lean Ampverif/Audit/{PROP_ID}.lean")
        t0 = time.time()

        # --- 1. proofs --------------------------------------------------------------------
        res = common.prove(PROP_ID, PROP_MODULES)
        chk.record_proof(res, checker_cmd)
        if res["failed"]:
            chk.note("proof obligations not discharged: " + "; ".join(f"{k}: {v[:160]}" for k, v in list(res["failed"].items())[:5]))
        t_proof = time.time() - t0

        # --- 2. probes in a fresh process (variant inference; the Lean witnesses replayed) ---
        from tools.corr import C06_real as R

        obs = S.Observations()
        evaluations = 0
        failing: list[tuple[dict, dict]] = []
        variant = {"aliased": 0, "reset": 1, "shared": 0, "tiebreak": 1, "missing_sorted": 1}
        probe_reaction = "jpsi_k0_sigma_p"
        finals = [1, 2, 3]
        probes = S.probe_histories(probe_reaction, finals, "N(1650)+")
        order = ["alias", "noreset", "shared"]
        pres = S.run_worker([{"ops": probes[k]["ops"]} for k in order], hashseed="0")
        if "crash" in pres:
            chk.broken_correspondence("probe worker", pres["crash"])
            failing.append(({"class": "the library cannot be imported / crashes outside an operation"},
                            {"input": "import ampform; run probe histories", "observed": pres["crash"]}))
        else:
            for k, hres in zip(order, pres["histories"]):
                i, j = probes[k]["compare"]
                di, dj = hres[i]["digest"], hres[j]["digest"]
                evaluations += sum(1 for o in probes[k]["ops"] if o["op"] == "formulate")
                positive = di["all"] != dj["all"]
                if positive:
                    sig = {"alias": S.SIG_ALIAS, "noreset": S.SIG_NORESET, "shared": S.SIG_SHARED}[k]
                    if k == "alias":
                        variant["aliased"] = 1
                    elif k == "noreset":
                        variant["reset"] = 0
                    else:
                        variant["shared"] = 1
                    failing.append(({"class": sig}, {
                        "histories": [{"hashseed": "0", "ops": probes[k]["ops"]}],
                        "compare": [[0, i], [0, j]], "expected": "equal models (same reaction, same configuration)",
                        "observed": {"differing_attributes": S.differing_attributes(di, dj), "first": di, "second": dj},
                        "lean_witness": {"alias": "C06_witness_alias", "noreset": "C06_witness_noreset", "shared": "C06_witness_shared"}[k]}))
        t_probe = time.time() - t0 - t_proof
        # the sorting converter of kinematic_variables: are ties of natural_sorting broken by the name?
        try:
            import sympy as sp

            from ampform.helicity import _order_symbol_mapping

            m1, m01 = sp.Symbol("m_1", nonnegative=True), sp.Symbol("m_01", nonnegative=True)
            if list(_order_symbol_mapping({m1: sp.S.One, m01: sp.S.Zero})) != list(_order_symbol_mapping({m01: sp.S.Zero, m1: sp.S.One})):
                variant["tiebreak"] = 0
        except Exception as e:  # noqa: BLE001
            chk.note(f"converter probe not possible: {type(e).__name__}")
        chk.info("inferred_variant", variant)
        if variant != {"aliased": 0, "reset": 1, "shared": 0, "tiebreak": 1, "missing_sorted": 1}:
            chk.broken_correspondence("variant", {"inferred": variant, "note": "C06_pure needs the sound variant; the witness history replays on the real code"})

        # --- 3. histories on the real builders, in this process ------------------------------
        infos: dict[str, dict] = {}
        world_lines: list[str] = []
        rids = {r: i for i, r in enumerate(REACTIONS)}
        ex = R.Executor()
        stats: dict = {}
        nb = 0
        # world description (pure functions of the library, `__wrapped__` bypasses the cache)
        try:
            shared: dict = {}
            for r in REACTIONS:
                lines, info = R.extract_world(r, rids[r], shared)
                world_lines += lines
                infos[r] = info
        except Exception as e:  # noqa: BLE001
            chk.broken_correspondence("world extraction", "".join(traceback.format_exception_only(type(e), e))[-600:])
            return self.finish(chk, failing, evaluations, obs)
        t_world = time.time() - t0 - t_proof - t_probe
        for f in dict(R.memoised_functions()).values():
            f.cache_clear()  # the histories start from empty caches, like the model
        memo_names = [n for n, _ in R.memoised_functions()]
        containers = [m for m in R.module_level_mutables()
                      if not any(x in m for x in ("_explicit_class_assumptions", "_prop_handler", "default_assumptions", "PRECEDENCE"))]
        chk.info("memoised_functions", memo_names)
        chk.info("module_level_containers", containers)
        # CHECKED FACT: the process-global state of the package is exactly the set the model covers (the
        # functools caches listed as CacheId in Model/C06Purity.lean, no module-/class-level dict, list or set).
        # A new or replaced cache (e.g. a hand-written module-level memo) is state the model does not know about:
        # broken correspondence, and every reference formulation then runs in its OWN fresh process so that a
        # memo keyed too coarsely cannot contaminate the references the histories are compared with.
        chk.coverage["obligations"] += 1
        state_changed = memo_names != EXPECTED_MEMOISED or bool(containers)
        if state_changed:
            chk.broken_correspondence("process-global state set", {
                "memoised_functions_missing": sorted(set(EXPECTED_MEMOISED) - set(memo_names)),
                "memoised_functions_new": sorted(set(memo_names) - set(EXPECTED_MEMOISED)),
                "module_level_containers": containers,
                "meaning": "the state machine model (CacheId) no longer lists the package's process-global state"})
            size = {**size, "own_process": 10 ** 6}
        else:
            chk.coverage["discharged"] += 1
        chk.info("reactions", {r: {k: v for k, v in infos[r].items()} for r in REACTIONS})
        segments = []
        for h in range(size["histories"]):
            ops, names = gen_segment(rng, infos, size["ops"], nb, malformed=(h % 3 == 2), stats=stats)
            segments.append((ops, names))
            nb += len(names)
        scripted = scripted_segments(rng, infos, nb, stats)
        segments += scripted
        nb += sum(len(n) for _, n in scripted)
        if size["interleavings"]:
            inter = gen_interleavings(rng, infos, size["interleavings"], nb, stats)
            segments += inter
            nb += 2 * len(inter)
        builder_names: dict[int, str] = {}
        tracked: dict[int, Tracked] = {}
        all_ops: list[dict] = []
        all_res: list[dict] = []
        formulates: list[dict] = []
        sort_cases: list[dict] = []
        missing_cases: list[dict] = []
        nbuilders = 0
        t1 = time.time()
        for si, (ops, names) in enumerate(segments):
            for op in ops:
                try:
                    r = ex.run_op(op)
                except Exception as e:  # noqa: BLE001  a configure operation of the valid stream failed
                    r = {"exception": R.error_digest(e)}
                    chk.broken_correspondence("history execution", {"op": op, "error": r["exception"]})
                all_ops.append(op)
                all_res.append(r)
                if op["op"] == "new":
                    builder_names[nbuilders] = op["r"]
                    tracked[nbuilders] = Tracked(op["r"], infos[op["r"]]["own"])
                    nbuilders += 1
                elif "b" in op:
                    tracked[op["b"]].apply(op, infos[builder_names[op["b"]]])
                if op["op"] == "bad" and r.get("error") is None:
                    chk.broken_correspondence("validator", {"op": op, "note": "malformed assignment was accepted"})
                if op["op"] == "formulate" and "digest" in r:
                    t = tracked[op["b"]]
                    rec = {"index": len(all_ops) - 1, "segment": si, "b": op["b"], "rname": t.rname, "cfg": t.key(),
                           "digest": r["digest"]}
                    formulates.append(rec)
                    evaluations += 1
                    obs.add(t.rname, t.key(), r["digest"], {"process": "main", "op": rec["index"]})
                    if "error" not in r["digest"] and len(sort_cases) < 40 and rng.random() < 0.5:
                        self.collect_sort_cases(ex.builders[op["b"]], ex.last_model, rng, sort_cases)
                    n_gap = sum(1 for c in missing_cases if c["reaction"] in GAP_REACTIONS)
                    if "error" not in r["digest"] and (
                            (t.rname in GAP_REACTIONS and n_gap < 10)
                            or (t.rname not in GAP_REACTIONS and len(missing_cases) - n_gap < 5 and rng.random() < 0.08)):
                        self.collect_missing_case(ex.builders[op["b"]], ex.last_model, t.rname, missing_cases)
        chk.info("history_time_s", round(time.time() - t1, 1))
        # `__define_missing_amplitudes`: are the zero definitions inserted in sorted(str) order?
        unsorted = [c for c in missing_cases if c["zero_inserted"] != sorted(c["zero_inserted"])]
        chk.info("missing_amplitude_cases", {"cases": len(missing_cases), "with_two_or_more_missing": sum(1 for c in missing_cases if len(c["zero_inserted"]) >= 2),
                                             "inserted_unsorted": len(unsorted)})
        if unsorted:
            variant["missing_sorted"] = 0
            chk.info("inferred_variant", variant)
            chk.broken_correspondence("variant", {"inferred": variant, "note": "zero definitions are not inserted in sorted(str) order; C06_witness_missing applies",
                                                  "example": {k: unsorted[0][k] for k in ("reaction", "zero_inserted")}})
        chk.info("input_distribution", {"segments": len(segments), "operations": len(all_ops), "builders": nbuilders,
                                        "formulate": len(formulates), "by_kind": stats,
                                        "errors": sum(1 for f in formulates if "error" in f["digest"]),
                                        "alignments": {a: sum(1 for f in formulates if json.loads(f["cfg"])["align"] == a)
                                                       for a in ["none", "axis", "dpd:1", "dpd:2", "dpd:3"]}})
        for f in formulates[:3]:
            chk.sample({"reaction": f["rname"], "configuration": json.loads(f["cfg"]), "digest": f["digest"]["all"]})

        # --- 4. the same history through the Lean model ---------------------------------------
        lean_in = world_lines + [f"begin {variant['aliased']} {variant['reset']} {variant['shared']} {variant['tiebreak']} {variant['missing_sorted']}"] + \
            lean_lines_for(all_ops, all_res, builder_names, infos, rids)
        lean_f: list[dict] = []
        t_lean0 = time.time()
        try:
            out = common.lean_run(DRIVER, "\n".join(lean_in) + "\n")
            lean_f = [parse_f(l) for l in out.split("\n") if l.startswith("f ")]
            bad = [l for l in out.split("\n") if l and not l.startswith("f ") and l != "ok"]
            if bad:
                chk.broken_correspondence("driver", {"replies": bad[:5]})
        except common.LeanRunError as e:
            chk.broken_correspondence("driver", str(e)[:800])
        t_lean = time.time() - t_lean0
        if lean_f and len(lean_f) != len(formulates):
            chk.broken_correspondence("driver", f"{len(lean_f)} formulate replies for {len(formulates)} formulate operations")
            lean_f = []

        # --- 5. reference digests: fresh processes, several hash seeds ------------------------
        t_ref0 = time.time()
        distinct = {}
        for f in formulates:
            distinct.setdefault((f["rname"], f["cfg"]), f)
        ref_hist = []
        ref_keys = []
        for (rname, cfgkey) in distinct:
            cfg = json.loads(cfgkey)
            cfg["dyn"] = {int(k): v for k, v in cfg["dyn"]}
            base = Tracked(rname, infos[rname]["own"]).cfg
            ops = [{"op": "new", "r": rname}, *ops_to_reach(cfg, base, 0), {"op": "formulate", "b": 0}]
            ref_hist.append({"ops": ops, "reset_after": True, "share": False})
            ref_keys.append((rname, cfgkey))
        seeds = [str(rng.randrange(1, 2**31)) if s == "prng" else s for s in size["hashseeds"]]
        cover, scan_info = S.covering_seeds([str(i) for i in range(size["scan_seeds"])], REACTIONS, size["cover_seeds"])
        chk.info("hash_seed_scan", scan_info)
        src = []
        for it in ITERATION_SOURCES:
            keys = [k for k in scan_info["orders_observed_in_scan"] if any(
                k == f or (f.endswith("*") and k.startswith(f[:-1])) for f in it["fingerprint"])]
            src.append({**it, "distinct_orders_observed_in_scan": {k: scan_info["orders_observed_in_scan"][k] for k in keys},
                        "distinct_orders_among_picked_seeds": {k: scan_info["orders_covered_by_picked_seeds"][k] for k in keys}})
        chk.info("iteration_order_sources", src)
        gap_orders = {r: scan_info["orders_covered_by_picked_seeds"].get("indexed-atoms:" + r, 0) for r in GAP_REACTIONS}
        chk.info("atom_set_orders_covered_for_gap_reactions", gap_orders)
        if any(v < 2 for v in gap_orders.values()):
            chk.note(f"hash-seed comparison of the zero-defined amplitudes is VACUOUS for some reaction (fewer than 2 set orders among the picked seeds): {gap_orders}")
        seeds += [s for s in cover if s not in seeds]
        chunk = max(4, -(-len(ref_hist) // 4))
        jobs = [(s, lo) for s in seeds for lo in range(0, len(ref_hist), chunk)]
        own_keys = list(range(len(ref_hist)))
        rng.shuffle(own_keys)
        own_keys = own_keys[: size["own_process"]]
        ref_digest: dict[tuple[str, str], dict] = {}
        running: list = []
        pending = [("chunk", j) for j in jobs] + [("own", k) for k in own_keys]
        own_results = []

        def harvest(item):
            nonlocal evaluations
            kind, arg, proc = item
            wres = S.collect_worker(proc)
            if "crash" in wres:
                chk.broken_correspondence("reference worker", wres["crash"])
                return
            if kind == "chunk":
                s_, lo = arg
                for key, hres, hist in zip(ref_keys[lo:lo + chunk], wres["histories"], ref_hist[lo:lo + chunk]):
                    d = hres[-1]["digest"]
                    evaluations += 1
                    obs.add(key[0], key[1], d, {"process": f"fresh, PYTHONHASHSEED={s_}, caches cleared before", "history": hist["ops"], "hashseed": s_})
                    ref_digest.setdefault(key, d)
            else:
                own_results.append((arg, wres))

        while pending or running:
            while pending and len(running) < MAX_PROCS:
                kind, arg = pending.pop(0)
                if kind == "chunk":
                    s_, lo = arg
                    running.append((kind, arg, S.spawn_worker(ref_hist[lo:lo + chunk], s_)))
                else:
                    running.append((kind, arg, S.spawn_worker([ref_hist[arg]], "unset")))
            harvest(running.pop(0))
        own_workers = []
        for k, wres in own_results:
            d = wres["histories"][0][-1]["digest"]
            evaluations += 1
            obs.add(ref_keys[k][0], ref_keys[k][1], d, {"process": f"own fresh process #{k}", "history": ref_hist[k]["ops"], "hashseed": "unset"})
        t_ref = time.time() - t_ref0
        chk.info("hash_seeds", seeds)
        chk.info("distinct_configurations", len(distinct))

        # --- 6. correspondence: model prediction vs real digests ------------------------------
        mism = {"err": 0, "kin": 0, "mass_keys": 0, "class": 0, "pure": 0}
        coincidences = 0
        if lean_f:
            for f, m in zip(formulates, lean_f):
                d = f["digest"]
                real_err = ERR_CODE.get(d.get("error"), "?") if "error" in d else "-"
                if real_err != m["err"]:
                    mism["err"] += 1
                    if mism["err"] <= 2:
                        chk.broken_correspondence("error outcome", {"op": f["index"], "reaction": f["rname"], "cfg": f["cfg"], "real": d.get("error"), "model": m["err"], "message": d.get("message")})
                    continue
                if "error" in d:
                    continue
                if str(d["n_kin"]) != m["kin"]:
                    mism["kin"] += 1
                    if mism["kin"] <= 2:
                        chk.broken_correspondence("number of kinematic variables", {"op": f["index"], "reaction": f["rname"], "cfg": f["cfg"], "real": d["n_kin"], "model": m["kin"]})
                model_keys = [shared["table"].get(k, "?" + k) for k in m.get("mk", "").split("|") if k]
                if model_keys != d["kin_keys"]:
                    mism["mass_keys"] += 1
                    if mism["mass_keys"] <= 2:
                        chk.broken_correspondence("ordered keys of kinematic_variables", {"op": f["index"], "reaction": f["rname"], "cfg": f["cfg"], "real": d["kin_keys"], "model": model_keys})
                ref = ref_digest.get((f["rname"], f["cfg"]))
                if ref is not None:
                    real_pure = ref["all"] == d["all"]
                    if m["pure"] == "1" and not real_pure:
                        mism["pure"] += 1
                        if mism["pure"] <= 2:
                            chk.broken_correspondence("model says pure, real model differs from the fresh-process model", {"op": f["index"], "reaction": f["rname"], "cfg": f["cfg"], "attributes": S.differing_attributes(ref, d)})
                    if m["pure"] == "0" and real_pure and variant["aliased"] and variant["reset"] and not variant["shared"]:
                        mism["pure"] += 1
                        if mism["pure"] <= 2:
                            chk.broken_correspondence("aliased model says impure, real model equals the fresh-process model", {"op": f["index"], "reaction": f["rname"], "cfg": f["cfg"]})
            by_class: dict[str, dict] = {}
            for f, m in zip(formulates, lean_f):
                first = by_class.setdefault(m["class"], f)
                if first["digest"]["all"] != f["digest"]["all"]:
                    mism["class"] += 1
                    if mism["class"] <= 2:
                        chk.broken_correspondence("model says equal outputs, real digests differ", {"ops": [first["index"], f["index"]], "reaction": f["rname"], "cfg": f["cfg"], "attributes": S.differing_attributes(first["digest"], f["digest"])})
            by_digest: dict[str, set] = {}
            for f, m in zip(formulates, lean_f):
                by_digest.setdefault(f["digest"]["all"], set()).add(m["class"])
            coincidences = sum(1 for v in by_digest.values() if len(v) > 1)
        chk.info("correspondence", {"formulate_ops_compared": len(lean_f), "mismatches": mism,
                                    "model_classes": len({m["class"] for m in lean_f}),
                                    "real_digests": len({f["digest"]["all"] for f in formulates}),
                                    "real_equal_but_model_distinct": coincidences,
                                    "model_impure": sum(1 for m in lean_f if m["pure"] == "0")})

        # --- 7. natural sorting / merge order -------------------------------------------------
        t_sort0 = time.time()
        try:
            self.sort_and_merge_tie(chk, common.rng_for(PROP_ID, seed, "sort"), size, sort_cases, variant["tiebreak"])
            self.missing_tie(chk, common.rng_for(PROP_ID, seed, "missing"), missing_cases, variant["missing_sorted"])
            if variant["missing_sorted"]:
                self.transition_order_observation(chk)
        except common.LeanRunError as e:
            chk.broken_correspondence("natural-sort driver", str(e)[:800])
        except Exception as e:  # noqa: BLE001
            chk.broken_correspondence("natural-sort tie", "".join(traceback.format_exception_only(type(e), e))[-600:])

        t_sort = time.time() - t_sort0
        # --- 8. oracle: the property statement itself -----------------------------------------
        viol = obs.violations()
        chk.info("configurations_with_more_than_one_model", len(viol))
        seen_sig = {json.dumps(sig, sort_keys=True) for sig, _ in failing}
        for v in viol:
            key = json.dumps(v["signature"], sort_keys=True)
            if key in seen_sig or len(seen_sig) >= 4:
                continue
            seen_sig.add(key)
            replay = self.make_replay(v, all_ops, segments, size, chk)
            failing.append((v["signature"], replay))
        chk.info("timing_s", {"proof": round(t_proof, 1), "lean_model_run": round(t_lean, 1), "reference_workers": round(t_ref, 1),
                              "probes": round(t_probe, 1), "world_extraction": round(t_world, 1), "sort_merge_tie": round(t_sort, 1),
                              "total": round(time.time() - t0, 1)})
        return self.finish(chk, failing, evaluations, obs)

    # ------------------------------------------------------------------------------------------
    def collect_sort_cases(self, builder, model, rng, sort_cases: list[dict]):
        """Inputs (insertion order) and outputs of the three sorting converters of HelicityModel."""
        ing = getattr(builder, "_HelicityAmplitudeBuilder__ingredients", None)
        if model is None:
            return
        if ing is not None:
            sort_cases.append({"what": "amplitudes", "input": [str(k) for k in ing.amplitudes],
                               "real_output": [str(k) for k in model.amplitudes]})
            sort_cases.append({"what": "components", "input": list(ing.components),
                               "real_output": list(model.components)})
        names = [s.name for s in model.kinematic_variables]
        shuffled = list(names)
        rng.shuffle(shuffled)
        sort_cases.append({"what": "kinematic_variables", "input": shuffled, "real_output": names})

    def collect_missing_case(self, builder, model, rname: str, cases: list[dict]):
        from tools.corr import C06_real as R

        ing = getattr(builder, "_HelicityAmplitudeBuilder__ingredients", None)
        if ing is None or model is None:
            return
        try:
            atoms = [str(a) for a in R.intensity_atoms(model)]
        except Exception:  # noqa: BLE001
            return
        cases.append({"reaction": rname,
                      "registered": [str(k) for k, v in ing.amplitudes.items() if v != 0],
                      "zero_inserted": [str(k) for k, v in ing.amplitudes.items() if v == 0],
                      "atoms": atoms, "real_output": [str(k) for k in model.amplitudes]})

    def missing_tie(self, chk: common.Check, rng, cases: list[dict], ms: int):
        """Lean: define the missing amplitudes (inner sort by str iff `ms`), then the stable natural sort
        of the converter; must reproduce the real key order of model.amplitudes."""
        lines, plan = [], []
        for c in cases:
            if set(c["atoms"]) != set(c["registered"]) | set(c["zero_inserted"]):
                chk.note(f"atoms of the intensity and defined amplitudes differ for {c['reaction']} (C01's subject)")
                continue
            if ms:
                atoms = list(c["atoms"])
                rng.shuffle(atoms)
            else:
                atoms = list(c["zero_inserted"])
            lines.append(f"missing {ms} " + " ".join(hexname(n) for n in c["registered"]) + " | " + " ".join(hexname(n) for n in atoms))
            plan.append(c)
        if not lines:
            return
        out = common.lean_run(DRIVER, "\n".join(lines) + "\n").strip().split("\n")
        if len(out) != len(plan):
            chk.broken_correspondence("missing-amplitude driver", f"{len(out)} replies for {len(plan)} requests")
            return
        inv = {}
        for c in plan:
            for n in c["registered"] + c["zero_inserted"]:
                inv[hexname(n)] = n
        n_ok = 0
        for c, reply in zip(plan, out):
            toks = reply.split()[1:]
            lean_order = [inv.get(t.split("=")[0], "?") for t in toks]
            lean_zero = [inv.get(t.split("=")[0], "?") for t in toks if t.endswith("=0")]
            chk.count(("missing", c["reaction"], tuple(c["real_output"])))
            if lean_order != c["real_output"] or sorted(lean_zero) != sorted(c["zero_inserted"]):
                chk.broken_correspondence("order of model.amplitudes after defining the missing amplitudes",
                                          {"reaction": c["reaction"], "real": c["real_output"], "lean": lean_order})
            else:
                n_ok += 1
        mc = chk.coverage.setdefault("missing_amplitude_cases", {})
        mc["compared_with_lean"] = mc.get("compared_with_lean", 0) + len(plan)
        mc["agree"] = mc.get("agree", 0) + n_ok

    def transition_order_observation(self, chk: common.Check):
        """Observation outside C06's statement: does the model depend on the ORDER of
        reaction.transitions?  (a) through the public constructor (qrules sorts), (b) with the order
        forced; in both cases the Lean model must reproduce the key order of model.amplitudes from the
        registration order (C06_amplitudes_order_only_registration / _depend_on_registration_order)."""
        import ampform
        from qrules.transition import ReactionInfo

        from tools.corr import C06_real as R

        obs = {}
        cases = []
        for rname in ("chic0_omega_phi", "lc_pkpi"):
            r = R.fresh_reaction(rname)
            variants = {"as stored": r}
            try:
                variants["public constructor, reversed list"] = ReactionInfo(transitions=list(reversed(r.transitions)), formalism=r.formalism)
            except Exception as e:  # noqa: BLE001
                obs[rname + ": public constructor"] = "error " + type(e).__name__
            forced = R.fresh_reaction(rname)
            try:
                object.__setattr__(forced, "transitions", type(r.transitions)(reversed(r.transitions)))
                variants["order forced (bypassing ReactionInfo)"] = forced
            except Exception as e:  # noqa: BLE001
                obs[rname + ": forced"] = "error " + type(e).__name__
            digests = {}
            for label, reaction in variants.items():
                b = ampform.get_builder(reaction)
                model = b.formulate()
                digests[label] = R.digest_model(model, reaction)
                case = {"reaction": f"{rname} ({label})"}
                self.collect_missing_case(b, model, case["reaction"], cases)
                chk.count(("transition-order", rname, label))
            base = digests["as stored"]
            for label, d in digests.items():
                if label != "as stored":
                    obs[f"{rname}: {label}"] = {
                        "same_transition_order_as_stored": d["reaction_info"] == base["reaction_info"],
                        "attributes_that_differ": [k for k in ("intensity", "amplitudes", "parameter_defaults", "kinematic_variables", "components") if d[k] != base[k]],
                        "amplitudes_equal_as_unordered_mapping": d["amp_unordered"] == base["amp_unordered"]}
        forced_diff = any(v.get("attributes_that_differ") for k, v in obs.items() if isinstance(v, dict) and "forced" in k)
        public_diff = any(v.get("attributes_that_differ") for k, v in obs.items() if isinstance(v, dict) and "public" in k)
        chk.info("reaction_transitions_order_observation", {
            "model_depends_on_order_given_to_public_constructor": public_diff,
            "model_depends_on_forced_transition_order": forced_diff,
            "note": "observation only (outside C06's statement: a reaction with another transition order is another ReactionInfo value)",
            "details": obs})
        before = len(chk.broken)
        self.missing_tie(chk, common.rng_for(PROP_ID, chk.seed, "missing-order"), cases, 1)
        chk.coverage["reaction_transitions_order_observation"]["lean_reproduces_amplitude_order_for_every_order"] = len(chk.broken) == before

    def make_replay(self, v: dict, all_ops: list[dict], segments, size: dict, chk) -> dict:
        """Replay = histories (each run in a fresh process with its hash seed) + the two formulate
        operations whose models must be equal."""
        hists, compare = [], []
        if v["a"]["where"].get("process") == "main" and v["b"]["where"].get("process") == "main":
            i, j = v["a"]["where"]["op"], v["b"]["where"]["op"]
            hists.append({"hashseed": self.main_hashseed, "ops": all_ops[: max(i, j) + 1]})
            compare = [[0, i], [0, j]]
        for side in (v["a"], v["b"]) if not hists else ():
            w = side["where"]
            if w.get("process") == "main":
                ops = all_ops[: w["op"] + 1]
                hists.append({"hashseed": self.main_hashseed, "ops": ops})
                compare.append([len(hists) - 1, w["op"]])
            else:
                hists.append({"hashseed": w.get("hashseed", "unset"), "ops": w["history"]})
                compare.append([len(hists) - 1, len(w["history"]) - 1])
        replay = {"histories": hists, "compare": compare, "reaction": v["reaction"], "configuration": json.loads(v["cfg"]),
                  "expected": "equal models (same reaction, same configuration)",
                  "observed": {"differing_attributes": S.differing_attributes(v["a"]["digest"], v["b"]["digest"]),
                               "first": {k: v["a"]["digest"].get(k) for k in ("all", "intensity", "amplitudes", "parameter_defaults", "kinematic_variables", "components", "error")},
                               "second": {k: v["b"]["digest"].get(k) for k in ("all", "intensity", "amplitudes", "parameter_defaults", "kinematic_variables", "components", "error")}}}
        try:
            replay = shrink_replay(replay, size["shrink_budget"])
        except common.InfraError:
            pass
        return replay

    def finish(self, chk: common.Check, failing, evaluations: int, obs) -> int:
        seen = set()
        for sig, replay in failing:
            key = json.dumps(sig, sort_keys=True)
            if key in seen:
                continue
            seen.add(key)
            chk.failing_input(sig, {"input": replay, "broken": chk.broken})
        if chk.broken and not failing:
            for b in chk.broken:
                chk.unexplained(b.get("theorem") or b.get("what"), b)
        chk.coverage["evaluations"] += evaluations
        for key, group in obs.groups.items():
            if len(group) >= 2:
                chk._distinct.add(key)  # noqa: SLF001
        chk.coverage["rule"] = (
            "evaluations = formulate() executions on the real code (in-process histories, probe histories, fresh-process "
            "references under each hash seed) + natural-sort / merge comparisons; distinct_nontrivial = distinct (reaction, "
            "configuration) pairs whose model was produced at least twice in different histories / builders / processes "
            "(a class with one member tests nothing) + distinct sort/merge inputs")
        chk.coverage["trusted_base"] = [
            "Lean 4.33 kernel (axioms: see axioms_reported); Model/C06Purity.lean is import-free",
            "the hand-written state-machine model of formulate()/caches/ingredients/adapter (tools/props/C06.py compares it with the real code on every run: error outcomes, number and mass symbols of the kinematic variables, output classes, purity against fresh processes)",
            "World fields (amplitude generation, angle formulas, …) are executed, not modelled: qrules, sympy, CPython dict/set/hash",
            "srepr digests (sha1, 64 bit) stand for equality of the six HelicityModel attributes",
        ]
        chk.assumptions += [
            "natural_sorting model: text pieces are never float literals (inf/nan), numbers have <= 15 significant digits",
            "set-of-int iteration (stable_final_state_ids) modelled as sorted order (state ids < 8)",
        ]
        return chk.finish()


def shrink_replay(replay: dict, budget: int) -> dict:
    """Greedy shrinking of the in-process history of a replay (each attempt = one fresh process)."""
    def fails(r) -> bool:
        res = []
        for h in r["histories"]:
            w = S.run_worker([{"ops": h["ops"]}], h["hashseed"])
            if "crash" in w:
                return False
            res.append(w["histories"][0])
        (h1, o1), (h2, o2) = r["compare"]
        return res[h1][o1]["digest"]["all"] != res[h2][o2]["digest"]["all"]

    long = [i for i, h in enumerate(replay["histories"]) if len(h["ops"]) > 12]
    if not long or budget <= 0:
        return replay
    if not fails(replay):
        replay["note"] = "not reproduced in fresh processes (depends on state of the checking process); full history kept"
        return replay
    budget -= 1
    for hi in long:
        ops = replay["histories"][hi]["ops"]
        target = [c for c in replay["compare"] if c[0] == hi][0][1]
        bsel = ops[target]["b"]
        chunk = max(1, len(ops) // 4)
        while budget > 0 and chunk >= 1:
            i = 0
            progressed = False
            while i < target and budget > 0:
                cand_ops = ops[:i] + ops[i + chunk:]
                removed = [o for o in ops[i:i + chunk]]
                if i + chunk > target or any(o["op"] == "new" for o in removed):
                    i += chunk
                    continue
                cand = json.loads(json.dumps(replay))
                cand["histories"][hi]["ops"] = cand_ops
                for c in cand["compare"]:
                    if c[0] == hi:
                        c[1] = target - chunk
                budget -= 1
                if fails(cand):
                    replay, ops, target = cand, cand_ops, target - chunk
                    progressed = True
                else:
                    i += chunk
            if not progressed:
                chunk //= 2
        _ = bsel
    return replay


def replay(data: dict) -> int:
    """./check C06 --replay FILE : run the stored histories in fresh processes and compare."""
    common.use_repo_source()
    inp = data.get("input", data)
    if "histories" not in inp:
        print(json.dumps(data, indent=1)[:3000])
        return 2
    res = []
    for h in inp["histories"]:
        w = S.run_worker([{"ops": h["ops"]}], h["hashseed"])
        if "crash" in w:
            print("worker crashed:", w["crash"])
            return 1
        res.append(w["histories"][0])
    (h1, o1), (h2, o2) = inp["compare"]
    d1, d2 = res[h1][o1]["digest"], res[h2][o2]["digest"]
    print(f"model of operation {o1} of history {h1} (PYTHONHASHSEED={inp['histories'][h1]['hashseed']}): {d1['all']}")
    print(f"model of operation {o2} of history {h2} (PYTHONHASHSEED={inp['histories'][h2]['hashseed']}): {d2['all']}")
    if d1["all"] != d2["all"]:
        print("differing attributes:", S.differing_attributes(d1, d2))
        print(f"VIOLATION property={PROP_ID} replay reproduced")
        return 1
    print("equal: not reproduced on this tree")
    return 0


PROP = C06Property()

MANIFEST = {
    "technique": "Lean 4 proof about a hand-written executable state-machine model (heap of memoised results held by reference, "
                 "builder ingredients/configuration/adapter set, formulate()), T2 correspondence on random histories with the real builders, "
                 "fresh-process / PYTHONHASHSEED sweep as independent oracle",
    "design_ref": "DESIGN.md §3 C06",
    "text": (
        "Proof (16 theorems, all unbounded in the history; none partial). Model/C06Purity.lean is a state machine over a process-global heap: "
        "every functools.cache / lru_cache of the package (10, listed as CacheId; found by grep and re-found by introspection on every run) holds its "
        "result by reference, builders carry ingredients, their own and the user-intended configuration, and the adapter's topology SET with an explicit "
        "iteration order; formulate() is modelled line by line where it touches shared state (reset, registration of combinatorics topologies, stable / "
        "scalar masses, the zero definitions of __define_missing_amplitudes over the atoms SET of the intensity with its inner sorted(key=str), the "
        "in-place update of the dict returned by define_symbols, update, the sorting converters with the modelled natural_sorting). "
        "C06_pure: in the sound variant, for every world with pairwise-consistent topology maps (C07's no-collision premise) and distinct symbol names, "
        "and for every history (any builders, reactions, interleavings of configure / register_topology / formulate / rejected assignments / cache "
        "evictions, ANY iteration order of the topology set after every change and ANY iteration order of the intensity's atoms set at every formulate = "
        "any hash seed or registration order) every formulate returns "
        "F(reaction, user configuration), F mentioning neither heap nor history; proof by the invariant 'every cache entry is the pure value of its key' "
        "(C06_cache_entries_stay_pure) by induction over the history. C06_same_configuration_same_model: equal (reaction, configuration) give equal models "
        "from any two reachable states (other history, other process). C06_order / C06_order_linear: merging pairwise-consistent maps and sorting with the "
        "key (natural_sorting(name), name) is independent of the merge order, with no 'no ties' premise (nameLe is proved to be a linear order); "
        "C06_order_needs_tie_break shows the statement is false for the plain natural sort (m_1 / m_01). C06_missing_order: defining the missing amplitudes "
        "in sorted(str) order makes the key order of model.amplitudes independent of the atoms-set iteration order for ANY converter order, ties included; "
        "C06_missing_order_needs_inner_sort: false without the inner sort when two keys tie under the converter's key (A[0, -1] / A[0, 1]). "
        "C06_amplitudes_order_only_registration / C06_amplitudes_depend_on_registration_order: with the modelled converter the key order of "
        "model.amplitudes is a function of the registration order (reaction.transitions, configuration) and of the atoms as a set, and it does depend on "
        "the registration order (ties) — an observation outside C06's statement, reproduced on the real code each run (qrules' ReactionInfo sorts its "
        "transitions, so only a forced order shows it). "
        "Every unsound switch has a kernel-checked, "
        "replayable witness: C06_witness_alias(+_not_pure) (memoised DPD dict aliased, before b218b43), C06_witness_noreset, C06_witness_shared, "
        "C06_witness_ties (before 043d8fb), C06_witness_missing (zero definitions in set order). Tie on every run: the variant is inferred by replaying the witness histories on the real code in a fresh "
        "process; seeded random + scripted histories (two builders sharing a reaction object, third builder on another reaction, revisits of earlier "
        "configurations, malformed assignments, cache_clear, register/permutate) run on the real builders in the checking process and, operation by "
        "operation, through the Lean model whose world tables (alignment symbols and the mass symbols they contain, per-topology maps, names, "
        "combinatorics topologies) are re-extracted from the working tree: error outcomes, the ORDERED key list of kinematic_variables, the partition into "
        "equal outputs and purity w.r.t. fresh-process models must agree; natural_sorting tokens / sorted orders / merge results are compared with the "
        "real functions. Independent oracle: all srepr digests (six attributes, key order included) observed for one (reaction, configuration) in the "
        "checking process, in fresh processes and under several PYTHONHASHSEEDs (chosen to cover every observed iteration order of the hash-ordered "
        "containers, incl. the atoms set of the two reactions with zero-defined amplitudes, for which >= 2 distinct set orders among the picked seeds are "
        "recorded in the evidence; thorough adds unset/0/1/4242, own processes, schedules of two interleaved builders) must be equal. The order of "
        "model.amplitudes is also recomputed by the Lean model (define missing + stable natural sort) from the real registered keys and atoms. "
        "Histories also use builders on equal-but-not-identical reaction objects (qrules.io round trip), dynamics assigned by name and by single decay and "
        "re-assigned after a formulate, naming flags, permutate_registered_topologies mid-history; digests cover srepr, the module-qualified class and "
        "the non-SymPy attributes of every node, container / key / value types and reaction_info; every hash-ordered container feeding the six "
        "attributes is listed in the evidence (iteration_order_sources) with the number of distinct orders observed; every formulate has a wall-clock "
        "cap. Bounded: the histories use four 3-body reactions (DPD, axis-angle, identical particles, half-integer spins), two 2-body reactions with "
        "missing helicity combinations (chi_c0 -> omega phi, eta_c -> Lambda Lambda~) and one 4-body reaction (2 topologies, 12 permuted ones, axis-angle)."
    ),
    "level_note": (
        "Trusted: Lean 4.33 kernel (axioms propext, Classical.choice, Quot.sound; thorough re-checks with leanchecker); the hand-written model "
        "(import-free; compared with the real code on every run as described). Executed, not modelled (World fields of the theorems): amplitude / "
        "Wigner-D / angle-formula generation, qrules, sympy (incl. its own global cache), CPython dict/set/hash semantics; the premise "
        "'topology maps pairwise consistent' is C07's claim (known finding for permuted 4-body topologies); 'distinct symbols have distinct names' and "
        "'distinct amplitude symbols print differently' are assumed. Digests are 64-bit sha1 prefixes of srepr strings. natural_sorting model assumes text pieces are not float literals (inf/nan) and "
        "numbers have <= 15 significant digits; set-of-int iteration (stable ids) is modelled as sorted. The checking process re-executes itself "
        "once with a PYTHONHASHSEED derived from VERIF_SEED so that runs and replays are reproducible."
    ),
}
