"""C09 — K-matrix amplitudes are unitary and symmetric for real parameters."""

from __future__ import annotations

import json
import math
import subprocess
import sys
import tempfile
import time
from pathlib import Path

from tools.corr.C09_defs import COMBOS, Builder
from tools.corr.C09_runner import KProperty, is_sub_threshold, physical_point
from tools.lib import common

SOURCES = [
    "src/ampform/dynamics/kmatrix.py",
    "src/ampform/dynamics/__init__.py",
    "src/ampform/dynamics/phasespace.py",
    "src/ampform/dynamics/form_factor.py",
]
KNOWN_CLASS = "relativistic K-matrix with a pole mass below a channel threshold"


def build():
    from ampform.dynamics import PhaseSpaceFactor

    b = Builder(PhaseSpaceFactor)
    b.matrix_level_kmatrix()
    b.parametrisations_kmatrix(combos=[*COMBOS, (2, 3), (2, 4)])  # 3 and 4 poles: parametrisation only
    b.formulated_kmatrix()
    return b.out, {}, {"translated_families": sorted({k.family for k in b.out})}


# --------------------------------------------------------------------------- oracle on the real code


_PHSP = ["PhaseSpaceFactor", "PhaseSpaceFactorAbs", "PhaseSpaceFactorComplex"]  # real above threshold
_FORM_CACHE: dict = {}


def _formulated(kind: str, nc: int, np_: int, L: int, phsp_name: str):
    """Lambdified T-matrix of the real `formulate` (cached per configuration)."""
    import sympy as sp

    import ampform.dynamics as dyn
    from ampform.dynamics import kmatrix as km
    from tools.corr.C09_runner import RealEvaluator

    key = (kind, nc, np_, L, phsp_name)
    if key not in _FORM_CACHE:
        d = sp.Symbol("d", positive=True)
        if kind == "nr":
            t = km.NonRelativisticKMatrix.formulate(n_channels=nc, n_poles=np_)
        else:
            t = km.RelativisticKMatrix.formulate(
                n_channels=nc, n_poles=np_, angular_momentum=L, meson_radius=d,
                phsp_factor=getattr(dyn, phsp_name))
        _FORM_CACHE[key] = RealEvaluator([t[i, j] for i in range(nc) for j in range(nc)])
    return _FORM_CACHE[key]


def evaluate_case(case: dict) -> dict:
    """Evaluate ‖S†S − 1‖ and ‖T − Tᵀ‖ of the real formulate() at one real parameter point."""
    import numpy as np

    nc, np_ = case["n_channels"], case["n_poles"]
    ev = _formulated(case["kind"], nc, np_, case["L"], case["phsp"])
    vals = dict(case["values"])
    vals.setdefault("d", case.get("d", 1.0))
    T = np.array(ev({n: vals[n] for n in ev.names}), dtype=complex).reshape(nc, nc)
    S = np.eye(nc) + 2j * T
    unit = float(np.linalg.norm(S.conj().T @ S - np.eye(nc)))
    symm = float(np.linalg.norm(T - T.T))
    return {"unitarity_defect": unit, "symmetry_defect": symm, "T_norm": float(np.linalg.norm(T)),
            "finite": bool(np.all(np.isfinite(T)))}


def search(chk, rng, n_cases: int, tier: str):
    """Independent oracle: the statement of C09 on the real code. Random real parameters, s above
    all thresholds and away from the poles, poles on both sides of the thresholds."""
    # quick: ≤ 2 poles; thorough, or quick after a broken obligation/correspondence: ≤ 4 poles
    max_c, max_p = (2, 2) if (tier == "quick" and not chk.broken) else (2, 4)
    n_cfg = 10 if tier == "quick" else 36
    per_cfg = max(4, n_cases // n_cfg)
    bad = []
    dist: dict = {}
    t0 = time.time()
    for c in range(n_cfg):
        kind = "nr" if c % 3 == 0 else "rel"
        nc = rng.randint(1, max_c)
        np_ = rng.randint(1, max_p)
        L = rng.randint(0, 4) if kind == "rel" else 0
        phsp = rng.choice(_PHSP) if kind == "rel" else "-"
        for j in range(per_cfg):
            sub = (j % 3 == 2)
            vals = physical_point(rng, nc, np_, sub_threshold=sub)
            vals["d"] = rng.uniform(0.5, 3.0)
            case = {"kind": kind, "n_channels": nc, "n_poles": np_, "L": L, "phsp": phsp,
                    "d": vals["d"], "values": vals,
                    "sub_threshold_pole": is_sub_threshold(vals, nc, np_)}
            r = evaluate_case(case)
            key = (kind, nc, np_, L, phsp, case["sub_threshold_pole"])
            dist[str(key)] = dist.get(str(key), 0) + 1
            if not r["finite"] or r["T_norm"] > 1e5:
                chk.count(None)
                continue
            chk.count(("oracle", c, j))
            if len(chk.coverage["samples"]) < 4:
                chk.sample({"oracle_case": {k: case[k] for k in ("kind", "n_channels", "n_poles", "L", "phsp", "sub_threshold_pole")}, **r})
            tol = 1e-9 * (1 + r["T_norm"]) ** 2
            if r["unitarity_defect"] > tol or r["symmetry_defect"] > tol:
                what = "S†S ≠ 1" if r["unitarity_defect"] > tol else "T ≠ Tᵀ"
                bad.append({"what": what, **case, **r, "tolerance": tol})
    chk.info("oracle_input_distribution", dist)
    chk.info("oracle_seconds", round(time.time() - t0, 1))
    if tier == "thorough":
        bad += three_channel_oracle(chk, rng)
    return bad


# --------------------------------------------------------------------------- n = 3 (thorough, capped)

_N3_SCRIPT = r"""
import json, random, sys
sys.path.insert(0, sys.argv[1]); sys.path.insert(0, sys.argv[2])
from tools.lib import common
common.use_repo_source()
import sympy as sp
import numpy as np
from ampform.dynamics import kmatrix as km
from tools.props.C09 import evaluate_case
spec = json.load(open(sys.argv[3]))
rng = random.Random(spec["seed"])
out = {"matrix_level": {}, "cases": []}
n = 3
for kind in ("nr", "rel"):
    if kind == "nr":
        t = km.NonRelativisticKMatrix.formulate(n, 1, parametrize=False)
    else:
        t = km.RelativisticKMatrix.formulate(n, 1, parametrize=False)
    syms = sorted(t.free_symbols | t.atoms(sp.Indexed), key=str)
    syms = [x for x in syms if not (isinstance(x, sp.Symbol) and x.name == "K")]
    f = sp.lambdify(syms, t, "numpy")
    worst_u = worst_s = 0.0
    cases = 0
    for _ in range(60):
        A = np.array([[rng.uniform(-2, 2) for _ in range(n)] for _ in range(n)])
        K = (A + A.T) / 2
        rho = [rng.uniform(0.2, 1.5) for _ in range(n)]
        vals = {}
        for x in syms:
            if isinstance(x, sp.Indexed):
                vals[x] = complex(K[int(x.indices[0]), int(x.indices[1])])
            else:
                vals[x] = complex(rho[int(x.name[3:])])
        T = np.array(f(*[vals[x] for x in syms]), dtype=complex)
        S = np.eye(n) + 2j * T
        cond = np.linalg.cond(np.eye(n) - 1j * (np.diag(rho) @ K if kind == "rel" else K))
        if cond > 1e6:
            continue
        cases += 1
        scale = 1e-10 * cond * (1 + np.linalg.norm(T)) ** 2
        worst_u = max(worst_u, float(np.linalg.norm(S.conj().T @ S - np.eye(n)) / scale))
        worst_s = max(worst_s, float(np.linalg.norm(T - T.T) / scale))
    out["matrix_level"][kind] = {"cases": cases, "worst_unitarity_over_tol": worst_u, "worst_symmetry_over_tol": worst_s}
    print("progress " + kind, file=sys.stderr, flush=True)
for case in spec["cases"]:
    out["cases"].append(evaluate_case(case))
print(json.dumps(out))
"""


def three_channel_oracle(chk, rng, cap_s: int = 1200):
    """n = 3: the symbolic 3×3 inverse of the real `_create_matrices(3)` is built in a subprocess
    with a time cap; it is evaluated (a) on random real symmetric K / positive ρ and (b) through
    the full `formulate(3, n_poles)` on real parameter points (both sides of the thresholds)."""
    tmp = tempfile.mkdtemp(prefix="c09n3_")
    bad = []
    try:
        cases = []
        for kind, np_, L, phsp in [("nr", 2, 0, "-"), ("rel", rng.randint(1, 2), rng.randint(0, 4), rng.choice(_PHSP))]:
            for j in range(24):
                vals = physical_point(rng, 3, np_, sub_threshold=(j % 3 == 2))
                vals["d"] = rng.uniform(0.5, 3.0)
                cases.append({"kind": kind, "n_channels": 3, "n_poles": np_, "L": L, "phsp": phsp, "d": vals["d"],
                              "values": vals, "sub_threshold_pole": is_sub_threshold(vals, 3, np_)})
        (Path(tmp) / "n3.py").write_text(_N3_SCRIPT)
        (Path(tmp) / "spec.json").write_text(json.dumps({"seed": rng.randrange(10**6), "cases": cases}))
        try:
            p = subprocess.run([common.PY, str(Path(tmp) / "n3.py"), str(common.ROOT), str(common.REPO / "src"),
                                str(Path(tmp) / "spec.json")], capture_output=True, text=True, timeout=cap_s,
                               cwd=str(common.ROOT))
        except subprocess.TimeoutExpired:
            chk.info("n3_kmatrix", "not_extracted (time cap %ds)" % cap_s)
            return bad
        if p.returncode != 0:
            chk.info("n3_kmatrix", "failed: " + p.stderr[-300:])
            return [{"what": "the real code raised for n_channels = 3", "error": p.stderr[-800:]}]
        res = json.loads(p.stdout.strip().split("\n")[-1])
        chk.info("n3_kmatrix", {"matrix_level": res["matrix_level"], "formulate_cases": len(res["cases"])})
        for kind, r in res["matrix_level"].items():
            chk.count(("n3", kind), r["cases"])
            if r["worst_unitarity_over_tol"] > 1 or r["worst_symmetry_over_tol"] > 1:
                bad.append({"what": "n = 3 symbolic matrices: S†S ≠ 1 or T ≠ Tᵀ for real symmetric K",
                            "kind": kind, "n_channels": 3, **r, "sub_threshold_pole": False})
        for case, r in zip(cases, res["cases"]):
            if not r["finite"] or r["T_norm"] > 1e5:
                chk.count(None)
                continue
            chk.count(("n3-formulate", case["kind"], round(case["values"]["s"], 9)))
            tol = 1e-8 * (1 + r["T_norm"]) ** 2
            if r["unitarity_defect"] > tol or r["symmetry_defect"] > tol:
                bad.append({"what": "S†S ≠ 1" if r["unitarity_defect"] > tol else "T ≠ Tᵀ", **case, **r, "tolerance": tol})
    finally:
        import shutil

        shutil.rmtree(tmp, ignore_errors=True)
    return bad


def _run_n3(args: list[str], cap_s: int):
    import os

    env = dict(os.environ)
    env["PYTHONPATH"] = str(common.ROOT) + os.pathsep + env.get("PYTHONPATH", "")
    return subprocess.run([common.PY, "-m", "tools.corr.C09_n3", *args], capture_output=True, text=True,
                          timeout=cap_s, cwd=str(common.ROOT), env=env)


def n3_module(chk, tier: str, seed: int, cap_s: int = 900) -> list[str]:
    """Thorough tier: regenerate Gen/C09N3.lean (+ Float twin) from formulate(3, ·, parametrize=False)
    in a capped subprocess, validate it, and have Props/C09N3.lean re-checked."""
    if tier != "thorough":
        chk.info("n3_entries", "not regenerated in the quick tier (Props/C09N3 is a thorough-tier module)")
        return []
    try:
        p = _run_n3([str(seed), "20"], cap_s)
    except subprocess.TimeoutExpired:
        chk.info("n3_entries", f"not_extracted (time cap {cap_s}s); covered by the all-n theorems and the numeric oracle only")
        return []
    if p.returncode != 0:
        chk.broken_correspondence("translator", "n = 3 translation failed: " + p.stderr[-500:])
        return []
    res = json.loads(p.stdout.strip().split("\n")[-1])
    chk.info("n3_entries", {k: res[k] for k in ("definitions", "points", "mismatches")})
    chk.count(("n3-validation", res["points"]), res["points"])
    for b in res["broken"]:
        chk.broken.append(b)
    return ["Ampverif.Props.C09N3"]


def thorough_modules(chk, tier: str, seed: int) -> list[str]:
    """Thorough tier: n = 3 entries (capped subprocess) and the full formulate(n, n_R) for n_R = 3, 4."""
    mods = n3_module(chk, tier, seed)
    if tier != "thorough":
        chk.info("poles_3_4_formulate", "not regenerated in the quick tier (Props/C09P34 is a thorough-tier module)")
        return mods
    from tools.corr import C09_p34

    before = chk.coverage["evaluations"]
    try:
        C09_p34.regenerate_and_validate(chk, seed, 10)
    except Exception as e:  # noqa: BLE001
        chk.broken_correspondence("translator", f"n_R = 3, 4 translation failed: {type(e).__name__}: {e}"[:600])
        return mods
    chk.info("poles_3_4_formulate", {"validation_points": chk.coverage["evaluations"] - before})
    return [*mods, "Ampverif.Props.C09P34"]


def n3_regenerate(cap_s: int = 900):
    try:
        _run_n3(["0", "0", "novalidate"], cap_s)
    except subprocess.TimeoutExpired:
        print("C09: n = 3 definitions not regenerated (time cap); the committed copy stays")
    from tools.corr import C09_p34

    C09_p34.regenerate()


def signature_of(f: dict) -> dict:
    if f.get("kind") == "rel" and f.get("sub_threshold_pole"):
        return {"class": KNOWN_CLASS}
    if "kind" in f:
        return {"class": "K-matrix not unitary/symmetric with every pole above every threshold", "what": f.get("what")}
    return {"what": f.get("what")}


def replay(data: dict) -> int:
    """./check C09 --replay FILE : re-evaluate the stored failing input on the current tree."""
    common.use_repo_source()
    case = data.get("input", data)
    if "values" not in case:
        print(json.dumps(data, indent=1))
        return PROP.run("quick", 0)
    r = evaluate_case(case)
    tol = 1e-9 * (1 + r["T_norm"]) ** 2
    print(json.dumps({"case": {k: case[k] for k in ("kind", "n_channels", "n_poles", "L", "phsp", "sub_threshold_pole")}, **r, "tolerance": tol}, indent=1))
    failed = r["unitarity_defect"] > tol or r["symmetry_defect"] > tol
    if failed and signature_of(case).get("class") == KNOWN_CLASS:
        print(f"KNOWN-FINDING: property=C09 {KNOWN_CLASS}")
        return 0
    if failed:
        print("VIOLATION property=C09 replay=<given file>")
        return 1
    return 0


PROP = KProperty(
    prop_id="C09",
    sources=SOURCES,
    namespace="C09",
    build=build,
    search=search,
    prop_modules=["Ampverif.Props.C09"],
    signature_of=signature_of,
    n_points={"quick": 6, "thorough": 40},
    n_search={"quick": 60, "thorough": 900},
    extra_modules=thorough_modules,
    extra_regenerate=n3_regenerate,
    trusted=(
        "phase-space factors and form factors are leaves of the Lean model (their reality/positivity above threshold are hypotheses; C11/C12 are about them)",
    ),
)

MANIFEST = {
    "technique": "Lean 4 theorems (Mathlib matrices, all sizes) + definitions regenerated from kmatrix.py (translator), Float-twin validation against the real lambdified code, independent numeric oracle on formulate()",
    "design_ref": "DESIGN.md §3 C09",
    "text": (
        "Proof. For EVERY number of channels (Matrix n n ℂ, any finite n) and every finite pole set: K Hermitian ⇒ 1−iK invertible "
        "(proved via the positive definite Gram matrix), S = 1+2iK(1−iK)⁻¹ satisfies S†S = 1, K symmetric ⇒ T symmetric; "
        "ρ positive diagonal and K̂ Hermitian ⇒ √ρK̂(1−iρK̂)⁻¹√ρ = K'(1−iK')⁻¹ with K' = √ρK̂√ρ, hence unitary/symmetric; the pole "
        "parametrisation Σ_R g_Ri g_Rj/(m_R²−s) is real symmetric for real g (Finset sum, any number of poles). Tied to the source: the "
        "entries of formulate(parametrize=False) for n = 1, 2 (both classes, T̂ and T), the parametrisations (n_R = 1..4) and the full "
        "formulate(n, n_R) results for n, n_R ∈ {1,2} are re-translated on every run and 71 theorems are re-checked: the "
        "regenerated entries solve E(1−iK) = K resp. Ê(1−iρK̂) = K̂ (polynomial identities mod i² = −1) and therefore ARE the abstract "
        "formula wherever det ≠ 0; T = (√ρ)*T̂√ρ; the regenerated parametrisations are symmetric and real (non-negative widths; for the "
        "relativistic case under the guard ρ_i(m_R²) > 0, i.e. poles above thresholds) and — both classes, n = n_R = 2 — ARE instances "
        "of the all-poles formula with g_Ri = γ_Ri√(m_RΓ_Ri(s)) (nrK22_eq_poleK, relK22_eq_poleK), so that the all-n/all-poles "
        "theorems apply to the source's own parametrization (relK22_all_poles_unitary_symmetric); formulate = matrix expression ∘ "
        "parametrisation; hence formulate(n, n_R) is unitary and symmetric. Thorough tier: the same entry-level theorems for n = 3 "
        "(Props/C09N3, 14 theorems; the 3×3 symbolic inverse is extracted in a time-capped subprocess) and the full formulate(n, n_R) "
        "for n ∈ {1,2}, n_R ∈ {3,4} (Props/C09P34, 32 theorems) — 117 theorems in total. Bounded part: full formulate with n = 3 only "
        "numerically (thorough oracle, n_R ≤ 2); n_R = 3, 4 full formulate in the thorough tier only (quick: parametrisation level); the "
        "poleK instance theorems are for n = n_R = 2; form factors and phase-space factors are leaves with sign hypotheses. Known "
        "finding: the relativistic K-matrix with a pole mass below a channel threshold is not unitary (kernel-checked witness "
        "relForm11_witness_subthreshold; the oracle classifies such inputs by signature, any other failing input is a violation)."
    ),
    "level_note": (
        "Trusted: Lean kernel + Mathlib (axioms propext, Classical.choice, Quot.sound); the sympy->Lean translator incl. the leaf "
        "abstraction of FormFactor/phase-space factor nodes (validated each run: leaf values computed by the real code are fed to "
        "the Lean Float twin and the result is compared with the real lambdified formulate/parametrization); sympy's symbolic "
        "matrix inverse, doit/xreplace and numpy are executed, not modelled. Lean's x⁻¹ is total, so statements at s = m_R² are "
        "about that convention."
    ),
}
