"""C09 — K-matrix amplitudes are unitary and symmetric for real parameters."""

from __future__ import annotations

import json
import math
import subprocess
import sys
import tempfile
import time
from pathlib import Path

from tools.corr import C09_history, C09_occ
from tools.corr.C09_defs import COMBOS, Builder
from tools.corr.C09_runner import KProperty, is_sub_threshold, physical_point
from tools.lib import common

SOURCES = [
    "src/ampform/dynamics/kmatrix.py",
    "src/ampform/dynamics/__init__.py",
    "src/ampform/dynamics/phasespace.py",
    "src/ampform/dynamics/form_factor.py",
]
KNOWN_CLASS = "relativistic K-matrix with a pole mass below a channel threshold"
OBSERVATION_CLASS = ("relativistic K-matrix, angular momentum >= 1, pole mass below a channel threshold with a phase-space "
                     "factor that is real and positive there: FormFactor(m_R^2) is not real")
OBSERVATION_SIGNATURE = {"class": OBSERVATION_CLASS, "rho_at_pole_real_positive": True, "ff_at_pole_real": False}
VIOLATION_CLASS = ("relativistic K-matrix not unitary/symmetric although the phase-space factor passed to formulate() "
                   "is real and positive, and the form factors are real, at s and at every pole mass")


def build():
    """Everything is translated from calls with a MARKER phase-space implementation (and the symbols
    L, d): the parametrisations directly, formulate() with `phsp_factor=marker`. The leaf translator
    (check_markers) refuses any other phase-space class / angular momentum / radius inside the result,
    and a formulated entry is only recognised as `matrix expression ∘ parametrisation` when its sums ARE
    the marker parametrisations — a formulate() that does not forward an argument is untranslatable."""
    b = Builder(C09_occ.marker_phsp(), check_markers=True)
    b.matrix_level_kmatrix()
    b.parametrisations_kmatrix(combos=[*COMBOS, (2, 3), (2, 4)])  # 3 and 4 poles: parametrisation only
    b.formulated_kmatrix()
    rows = C09_occ.occurrence_table(C09_occ.marker_phsp(), b.L, b.d)
    return b.out, {}, {"translated_families": sorted({k.family for k in b.out}),
                       "translated_with_phsp_factor": C09_occ.MARKER_NAME,
                       "gen_extra": C09_occ.occurrence_lean(rows), "occurrence_rows": len(rows)}


# --------------------------------------------------------------------------- oracle on the real code


_PHSP = ["PhaseSpaceFactor", "PhaseSpaceFactorAbs", "PhaseSpaceFactorComplex"]  # real above threshold
_FORM_CACHE: dict = {}


def _formulated(kind: str, nc: int, np_: int, L: int, phsp_name: str):
    """Lambdified T-matrix of the real `formulate` (cached per configuration)."""
    import sympy as sp

    import ampform.dynamics as dyn
    from ampform.dynamics import kmatrix as km
    from tools.corr.C09_runner import RealEvaluator

    key = (kind, nc, np_, L, phsp_name)
    if key not in _FORM_CACHE:
        d = sp.Symbol("d", positive=True)
        if kind == "nr":
            t = km.NonRelativisticKMatrix.formulate(n_channels=nc, n_poles=np_)
        else:
            t = km.RelativisticKMatrix.formulate(
                n_channels=nc, n_poles=np_, angular_momentum=L, meson_radius=d,
                phsp_factor=getattr(dyn, phsp_name))
        _FORM_CACHE[key] = RealEvaluator([t[i, j] for i in range(nc) for j in range(nc)])
    return _FORM_CACHE[key]


def evaluate_case(case: dict) -> dict:
    """Evaluate ‖S†S − 1‖ and ‖T − Tᵀ‖ of the real formulate() at one real parameter point."""
    import numpy as np

    nc, np_ = case["n_channels"], case["n_poles"]
    ev = _formulated(case["kind"], nc, np_, case["L"], case["phsp"])
    vals = dict(case["values"])
    vals.setdefault("d", case.get("d", 1.0))
    T = np.array(ev({n: vals[n] for n in ev.names}), dtype=complex).reshape(nc, nc)
    S = np.eye(nc) + 2j * T
    unit = float(np.linalg.norm(S.conj().T @ S - np.eye(nc)))
    symm = float(np.linalg.norm(T - T.T))
    return {"unitarity_defect": unit, "symmetry_defect": symm, "T_norm": float(np.linalg.norm(T)),
            "finite": bool(np.all(np.isfinite(T)))}


_RHO_CACHE: dict = {}


def _rho_function(phsp_name: str):
    """Numeric ρ(s, m1, m2) of ONE phase-space implementation of the library, evaluated on its own
    (the leaf of the Lean model: `rho{i}` at s, `rhoR_{R}_{i}` at m_R²)."""
    import sympy as sp

    import ampform.dynamics as dyn

    if phsp_name not in _RHO_CACHE:
        x, y, z = sp.symbols("x_rho y_rho z_rho", nonnegative=True)
        _RHO_CACHE[phsp_name] = sp.lambdify([x, y, z], getattr(dyn, phsp_name)(x, y, z).doit(), "numpy")
    return _RHO_CACHE[phsp_name]


def _real_positive(z: complex) -> bool:
    return math.isfinite(z.real) and math.isfinite(z.imag) and z.real > 0 and abs(z.imag) <= 1e-9 * abs(z.real)


def _ff_function(L: int):
    """Numeric FormFactor(s, m1, m2, L, d) of the library (leaves `ff_{i}` at s, `ff0_{R}_{i}` at m_R²)."""
    import sympy as sp

    from ampform.dynamics.form_factor import FormFactor

    key = ("ff", int(L))
    if key not in _RHO_CACHE:
        x, y, z, d = sp.symbols("x_ff y_ff z_ff d_ff", nonnegative=True)
        _RHO_CACHE[key] = sp.lambdify([x, y, z, d], FormFactor(x, y, z, int(L), d).doit(), "numpy")
    return _RHO_CACHE[key]


def _real_nonzero(z: complex) -> bool:
    return math.isfinite(z.real) and math.isfinite(z.imag) and abs(z.real) > 0 and abs(z.imag) <= 1e-9 * abs(z.real)


def classify(case: dict) -> dict:
    """The hypotheses of the theorems of Props/C09 Part D, evaluated leaf by leaf for the phase-space
    factor / angular momentum / radius the CALLER passes to formulate() — independently of what the
    formulated expression contains: `0 < ρ_i(s)`, `0 < ρ_i(m_R²)` (the stated guard) and the form-factor
    leaves `ff_i(s)`, `ff_i(m_R²)` real (they are real variables of the model). Where all of them hold
    C09 demands unitarity, whatever side of the thresholds the poles are on. Where ρ_i(m_R²) is not real
    and positive the input belongs to the known finding; where only a form factor at a pole mass is not
    real (L >= 1, pole below a threshold, factor real there) it is recorded as an observation."""
    if case.get("kind") != "rel":
        return {"rho_at_s_real_positive": True, "rho_at_pole_real_positive": True, "ff_at_pole_real": True,
                "min_abs_rho_at_pole": None}
    import numpy as np

    f = _rho_function(case["phsp"])
    g = _ff_function(case["L"])
    v, nc, np_ = case["values"], case["n_channels"], case["n_poles"]
    d = complex(v.get("d", case.get("d", 1.0)))
    ch = [(complex(v[f"m_a_{i}"]), complex(v[f"m_b_{i}"])) for i in range(nc)]
    with np.errstate(all="ignore"):
        at_s = [complex(f(complex(v["s"]), a, b)) for a, b in ch]
        at_p = [complex(f(complex(v[f"m_{r}"] ** 2), a, b)) for r in range(1, np_ + 1) for a, b in ch]
        ff_s = [complex(g(complex(v["s"]), a, b, d)) for a, b in ch]
        ff_p = [complex(g(complex(v[f"m_{r}"] ** 2), a, b, d)) for r in range(1, np_ + 1) for a, b in ch]
    return {"rho_at_s_real_positive": all(_real_positive(z) for z in at_s) and all(_real_nonzero(z) for z in ff_s),
            "rho_at_pole_real_positive": all(_real_positive(z) for z in at_p),
            "ff_at_pole_real": all(_real_nonzero(z) for z in ff_p),
            "min_abs_rho_at_pole": min(min(abs(z) for z in at_p), min(abs(z) for z in ff_p))}


def placed_point(rng, nc: int, np_: int, placement: str) -> dict:
    """Real parameter point with s above every threshold; channel thresholds distinct; pole 1 placed
    `above` all thresholds, `between` the lowest and the highest (n_channels >= 2) or `below` all of
    them; further poles on a random side. Every pole keeps 4 % distance from EVERY threshold (the
    width normalisation ρ(m_R²) vanishes on a threshold) and |m_R² − s| > 0.2."""
    for _ in range(2000):
        m_a = [rng.uniform(0.1, 0.8) for _ in range(nc)]
        m_b = [rng.uniform(0.1, 0.8) for _ in range(nc)]
        thr = sorted(a + b for a, b in zip(m_a, m_b))
        lo, top = thr[0], thr[-1]
        if nc >= 2 and top < 1.25 * lo:
            continue
        s = rng.uniform((top * 1.05) ** 2, top**2 + 6.0)
        poles = []
        for r in range(np_):
            where = placement if r == 0 else rng.choice(["above", "above", "between", "below"])
            if where == "between" and nc < 2:
                where = "below"
            if where == "above":
                poles.append(rng.uniform(top * 1.05, top + 2.5))
            elif where == "between":
                poles.append(rng.uniform(lo * 1.05, top * 0.95))
            else:
                poles.append(rng.uniform(0.3 * lo, 0.95 * lo))
        if any(abs(m / th - 1) < 0.04 for m in poles for th in thr):
            continue
        if all(abs(m * m - s) > 0.2 for m in poles) and all(
                abs(poles[a] - poles[b]) > 0.1 for a in range(np_) for b in range(a)):
            break
    else:  # pragma: no cover
        raise common.InfraError("could not draw a placed parameter point")
    v = {"s": s}
    for i in range(nc):
        v[f"m_a_{i}"] = m_a[i]
        v[f"m_b_{i}"] = m_b[i]
    for r in range(1, np_ + 1):
        v[f"m_{r}"] = poles[r - 1]
        for i in range(nc):
            v[f"Gamma_{r}_{i}"] = rng.uniform(0.05, 0.6)
            v[f"gamma_{r}_{i}"] = rng.choice([-1, 1]) * rng.uniform(0.3, 1.5)
    return v


def guard_class(c: dict) -> str:
    if not c["rho_at_pole_real_positive"]:
        return "rho(m_R^2) not real positive"
    if not c["ff_at_pole_real"]:
        return "rho(m_R^2) > 0 but FormFactor(m_R^2) not real"
    return "hypotheses of the theorems hold"


def _file(chk, rec: dict, gc: str, bad: list, known: list) -> None:
    """A failing input goes to the verdict (`bad`), to the known finding (`known`, reported last), or —
    form factor at a pole mass not real, notes/findings_C09.md F1: genuine behaviour of the unchanged
    library that the known-finding entry does not describe — into the evidence as an observation, out
    of the verdict, unless known_findings.json has an entry for exactly that signature."""
    if gc == "hypotheses of the theorems hold":
        bad.append(rec)
    elif gc == "rho(m_R^2) not real positive" or chk.match_known(OBSERVATION_SIGNATURE) is not None:
        known.append(rec)
    else:
        obs = chk.coverage.setdefault("observations", [])
        if len(obs) < 6:
            obs.append({**OBSERVATION_SIGNATURE, **rec})


def _judge(chk, case: dict, key, bad: list, known: list, stats: dict) -> None:
    """Evaluate the statement of C09 at one point and file the result."""
    case.update(classify(case))
    r = evaluate_case(case)
    gc = guard_class(case)
    cls = (case["kind"], case["phsp"], "L=0" if case["L"] == 0 else "L>=1", gc,
           "pole below a threshold" if case["sub_threshold_pole"] else "poles above")
    st = stats.setdefault(str(cls), {"cases": 0, "failing": 0, "worst_defect_over_tol": 0.0})
    if (not r["finite"] or r["T_norm"] > 1e5 or not case["rho_at_s_real_positive"]
            or (case["min_abs_rho_at_pole"] is not None and case["min_abs_rho_at_pole"] < 1e-3)):
        chk.count(None)  # ill-conditioned (a pole on a threshold / near s) or outside the stated domain
        return
    chk.count(key)
    st["cases"] += 1
    if len(chk.coverage["samples"]) < 4:
        chk.sample({"oracle_case": {k: case[k] for k in ("kind", "n_channels", "n_poles", "L", "phsp", "sub_threshold_pole",
                                                         "rho_at_pole_real_positive", "ff_at_pole_real")}, **r})
    tol = 1e-9 * (1 + r["T_norm"]) ** 2
    ratio = max(r["unitarity_defect"], r["symmetry_defect"]) / tol
    if ratio > 1:
        st["failing"] += 1
        what = "S†S ≠ 1" if r["unitarity_defect"] > tol else "T ≠ Tᵀ"
        _file(chk, {"what": what, **case, **r, "tolerance": tol}, gc, bad, known)
    else:
        st["worst_defect_over_tol"] = max(st["worst_defect_over_tol"], ratio)


def sweep(chk, rng, tier: str, bad: list, known: list, stats: dict) -> None:
    """Deterministic part of the oracle: EVERY phase-space implementation that is real above threshold ×
    pole 1 above all thresholds / between two thresholds / below all thresholds (further poles on random
    sides). Whether an input must be unitary is decided by the guard evaluated for the passed factor."""
    for phsp in _PHSP:
        configs = [(2, 2, 0), (1, rng.randint(1, 2), rng.randint(1, 4)), (2, 1, rng.randint(0, 3))]
        if tier == "thorough":
            configs += [(2, 3, rng.randint(0, 2)), (1, 4, rng.randint(0, 4)), (2, 2, rng.randint(1, 4))]
        for nc, np_, L in configs:
            placements = ["above", "below"] + (["between"] if nc >= 2 else [])
            for placement in placements:
                for j in range(3 if tier == "quick" else 8):
                    vals = placed_point(rng, nc, np_, placement)
                    vals["d"] = rng.uniform(0.5, 3.0)
                    case = {"kind": "rel", "n_channels": nc, "n_poles": np_, "L": L, "phsp": phsp, "d": vals["d"],
                            "values": vals, "pole_1": placement, "sub_threshold_pole": is_sub_threshold(vals, nc, np_)}
                    _judge(chk, case, ("sweep", phsp, nc, np_, L, placement, j), bad, known, stats)


_HISTORY: dict = {"bad": []}


def _history_tie(chk, ctx):
    """Call histories in one process (tools/corr/C09_history.py): correspondence with the Lean state machine
    (Drivers/C09History.lean) + the statement of C09 on every call + purity vs reversed history / fresh process."""
    _HISTORY["bad"] = []
    try:
        _HISTORY["bad"] = C09_history.run(chk, common.rng_for("C09", ctx["seed"], "history"), ctx["tier"], ctx["seed"])
    except common.InfraError:
        raise
    except Exception as e:  # noqa: BLE001
        import traceback

        chk.broken_correspondence("history", "".join(traceback.format_exception(type(e), e, e.__traceback__))[-900:])


def search(chk, rng, n_cases: int, tier: str):
    """Independent oracle: the statement of C09 on the real code. Real parameters, s above all
    thresholds and away from the poles, poles on both sides of the thresholds: a deterministic sweep
    over the phase-space implementations × pole placements, random configurations, and the
    argument-forwarding statement on the real objects."""
    bad: list = list(_HISTORY["bad"])  # failing calls of the call histories (post hook, run before the search)
    known: list = []
    stats: dict = {}
    t0 = time.time()
    # forwarding of phsp_factor / angular_momentum / meson_radius (every implementation, numbers and symbols)
    hbad, n_occ, impls = C09_occ.honour_cases(rng, tier)
    chk.count(("forwarding", tuple(impls)), n_occ)
    chk.info("phase_space_implementations_checked_for_forwarding", impls)
    bad += hbad
    chk.info("forwarding_seconds", round(time.time() - t0, 1))
    t1 = time.time()
    sweep(chk, rng, tier, bad, known, stats)
    chk.info("sweep_seconds", round(time.time() - t1, 1))
    # quick: ≤ 2 poles; thorough, or quick after a broken obligation/correspondence: ≤ 4 poles
    max_c, max_p = (2, 2) if (tier == "quick" and not chk.broken) else (2, 4)
    n_cfg = 10 if tier == "quick" else 36
    per_cfg = max(4, n_cases // n_cfg)
    dist: dict = {}
    for c in range(n_cfg):
        kind = "nr" if c % 3 == 0 else "rel"
        nc = rng.randint(1, max_c)
        np_ = rng.randint(1, max_p)
        L = rng.randint(0, 4) if kind == "rel" else 0
        phsp = rng.choice(_PHSP) if kind == "rel" else "-"
        for j in range(per_cfg):
            sub = (j % 3 == 2)
            vals = physical_point(rng, nc, np_, sub_threshold=sub)
            vals["d"] = rng.uniform(0.5, 3.0)
            case = {"kind": kind, "n_channels": nc, "n_poles": np_, "L": L, "phsp": phsp,
                    "d": vals["d"], "values": vals,
                    "sub_threshold_pole": is_sub_threshold(vals, nc, np_)}
            key = (kind, nc, np_, L, phsp, case["sub_threshold_pole"])
            dist[str(key)] = dist.get(str(key), 0) + 1
            _judge(chk, case, ("oracle", c, j), bad, known, stats)
    chk.info("oracle_input_distribution", dist)
    chk.info("oracle_classes", stats)
    chk.info("oracle_seconds", round(time.time() - t0, 1))
    if tier == "thorough":
        bad += three_channel_oracle(chk, rng)
    # inputs of the known finding last: the runner reports the first few distinct failing inputs
    return bad + known


# --------------------------------------------------------------------------- n = 3 (thorough, capped)

_N3_SCRIPT = r"""
import json, random, sys
sys.path.insert(0, sys.argv[1]); sys.path.insert(0, sys.argv[2])
from tools.lib import common
common.use_repo_source()
import sympy as sp
import numpy as np
from ampform.dynamics import kmatrix as km
from tools.props.C09 import evaluate_case
spec = json.load(open(sys.argv[3]))
rng = random.Random(spec["seed"])
out = {"matrix_level": {}, "cases": []}
n = 3
for kind in ("nr", "rel"):
    if kind == "nr":
        t = km.NonRelativisticKMatrix.formulate(n, 1, parametrize=False)
    else:
        t = km.RelativisticKMatrix.formulate(n, 1, parametrize=False)
    syms = sorted(t.free_symbols | t.atoms(sp.Indexed), key=str)
    syms = [x for x in syms if not (isinstance(x, sp.Symbol) and x.name == "K")]
    f = sp.lambdify(syms, t, "numpy")
    worst_u = worst_s = 0.0
    cases = 0
    for _ in range(60):
        A = np.array([[rng.uniform(-2, 2) for _ in range(n)] for _ in range(n)])
        K = (A + A.T) / 2
        rho = [rng.uniform(0.2, 1.5) for _ in range(n)]
        vals = {}
        for x in syms:
            if isinstance(x, sp.Indexed):
                vals[x] = complex(K[int(x.indices[0]), int(x.indices[1])])
            else:
                vals[x] = complex(rho[int(x.name[3:])])
        T = np.array(f(*[vals[x] for x in syms]), dtype=complex)
        S = np.eye(n) + 2j * T
        cond = np.linalg.cond(np.eye(n) - 1j * (np.diag(rho) @ K if kind == "rel" else K))
        if cond > 1e6:
            continue
        cases += 1
        scale = 1e-10 * cond * (1 + np.linalg.norm(T)) ** 2
        worst_u = max(worst_u, float(np.linalg.norm(S.conj().T @ S - np.eye(n)) / scale))
        worst_s = max(worst_s, float(np.linalg.norm(T - T.T) / scale))
    out["matrix_level"][kind] = {"cases": cases, "worst_unitarity_over_tol": worst_u, "worst_symmetry_over_tol": worst_s}
    print("progress " + kind, file=sys.stderr, flush=True)
for case in spec["cases"]:
    out["cases"].append(evaluate_case(case))
print(json.dumps(out))
"""


def three_channel_oracle(chk, rng, cap_s: int = 1200):
    """n = 3: the symbolic 3×3 inverse of the real `_create_matrices(3)` is built in a subprocess
    with a time cap; it is evaluated (a) on random real symmetric K / positive ρ and (b) through
    the full `formulate(3, n_poles)` on real parameter points (both sides of the thresholds)."""
    tmp = tempfile.mkdtemp(prefix="c09n3_")
    bad = []
    try:
        cases = []
        for kind, np_, L, phsp in [("nr", 2, 0, "-"), ("rel", rng.randint(1, 2), rng.randint(0, 4), rng.choice(_PHSP))]:
            for j in range(24):
                vals = physical_point(rng, 3, np_, sub_threshold=(j % 3 == 2))
                vals["d"] = rng.uniform(0.5, 3.0)
                cases.append({"kind": kind, "n_channels": 3, "n_poles": np_, "L": L, "phsp": phsp, "d": vals["d"],
                              "values": vals, "sub_threshold_pole": is_sub_threshold(vals, 3, np_)})
        (Path(tmp) / "n3.py").write_text(_N3_SCRIPT)
        (Path(tmp) / "spec.json").write_text(json.dumps({"seed": rng.randrange(10**6), "cases": cases}))
        try:
            p = subprocess.run([common.PY, str(Path(tmp) / "n3.py"), str(common.ROOT), str(common.REPO / "src"),
                                str(Path(tmp) / "spec.json")], capture_output=True, text=True, timeout=cap_s,
                               cwd=str(common.ROOT))
        except subprocess.TimeoutExpired:
            chk.info("n3_kmatrix", "not_extracted (time cap %ds)" % cap_s)
            return bad
        if p.returncode != 0:
            chk.info("n3_kmatrix", "failed: " + p.stderr[-300:])
            return [{"what": "the real code raised for n_channels = 3", "error": p.stderr[-800:]}]
        res = json.loads(p.stdout.strip().split("\n")[-1])
        chk.info("n3_kmatrix", {"matrix_level": res["matrix_level"], "formulate_cases": len(res["cases"])})
        for kind, r in res["matrix_level"].items():
            chk.count(("n3", kind), r["cases"])
            if r["worst_unitarity_over_tol"] > 1 or r["worst_symmetry_over_tol"] > 1:
                bad.append({"what": "n = 3 symbolic matrices: S†S ≠ 1 or T ≠ Tᵀ for real symmetric K",
                            "kind": kind, "n_channels": 3, **r, "sub_threshold_pole": False})
        for case, r in zip(cases, res["cases"]):
            if not r["finite"] or r["T_norm"] > 1e5:
                chk.count(None)
                continue
            chk.count(("n3-formulate", case["kind"], round(case["values"]["s"], 9)))
            tol = 1e-8 * (1 + r["T_norm"]) ** 2
            if r["unitarity_defect"] > tol or r["symmetry_defect"] > tol:
                case.update(classify(case))
                rec = {"what": "S†S ≠ 1" if r["unitarity_defect"] > tol else "T ≠ Tᵀ", **case, **r, "tolerance": tol}
                _file(chk, rec, guard_class(case), bad, bad)
    finally:
        import shutil

        shutil.rmtree(tmp, ignore_errors=True)
    return bad


def _run_n3(args: list[str], cap_s: int):
    import os

    env = dict(os.environ)
    env["PYTHONPATH"] = str(common.ROOT) + os.pathsep + env.get("PYTHONPATH", "")
    return subprocess.run([common.PY, "-m", "tools.corr.C09_n3", *args], capture_output=True, text=True,
                          timeout=cap_s, cwd=str(common.ROOT), env=env)


def n3_module(chk, tier: str, seed: int, cap_s: int = 900) -> list[str]:
    """Thorough tier: regenerate Gen/C09N3.lean (+ Float twin) from formulate(3, ·, parametrize=False)
    in a capped subprocess, validate it, and have Props/C09N3.lean re-checked."""
    if tier != "thorough":
        chk.info("n3_entries", "not regenerated in the quick tier (Props/C09N3 is a thorough-tier module)")
        return []
    try:
        p = _run_n3([str(seed), "20"], cap_s)
    except subprocess.TimeoutExpired:
        chk.info("n3_entries", f"not_extracted (time cap {cap_s}s); covered by the all-n theorems and the numeric oracle only")
        return []
    if p.returncode != 0:
        chk.broken_correspondence("translator", "n = 3 translation failed: " + p.stderr[-500:])
        return []
    res = json.loads(p.stdout.strip().split("\n")[-1])
    chk.info("n3_entries", {k: res[k] for k in ("definitions", "points", "mismatches")})
    chk.count(("n3-validation", res["points"]), res["points"])
    for b in res["broken"]:
        chk.broken.append(b)
    return ["Ampverif.Props.C09N3"]


def thorough_modules(chk, tier: str, seed: int) -> list[str]:
    """Thorough tier: n = 3 entries (capped subprocess) and the full formulate(n, n_R) for n_R = 3, 4."""
    mods = n3_module(chk, tier, seed)
    if tier != "thorough":
        chk.info("poles_3_4_formulate", "not regenerated in the quick tier (Props/C09P34 is a thorough-tier module)")
        return mods
    from tools.corr import C09_p34

    before = chk.coverage["evaluations"]
    try:
        C09_p34.regenerate_and_validate(chk, seed, 10)
    except Exception as e:  # noqa: BLE001
        chk.broken_correspondence("translator", f"n_R = 3, 4 translation failed: {type(e).__name__}: {e}"[:600])
        return mods
    chk.info("poles_3_4_formulate", {"validation_points": chk.coverage["evaluations"] - before})
    return [*mods, "Ampverif.Props.C09P34"]


def n3_regenerate(cap_s: int = 900):
    try:
        _run_n3(["0", "0", "novalidate"], cap_s)
    except subprocess.TimeoutExpired:
        print("C09: n = 3 definitions not regenerated (time cap); the committed copy stays")
    from tools.corr import C09_p34

    C09_p34.regenerate()


def signature_of(f: dict) -> dict:
    """Known finding ONLY where the guard of the theorems fails for the phase-space factor the caller
    passed (ρ_i(m_R²) not real and positive: PhaseSpaceFactor / PhaseSpaceFactorComplex with a pole below a
    threshold). A sub-threshold pole with a factor that is real and positive there (PhaseSpaceFactorAbs)
    satisfies the guard: a failure on such an input is a violation."""
    if "history_payload" in f:
        # a call of a call history: the hypotheses were evaluated for the factor passed to THAT call, at points with
        # every pole above every threshold — never an input of the sub-threshold findings
        return {"class": C09_history.HISTORY_CLASS, "what": f.get("what"), "cls": f.get("class"),
                "factor_kind": str(f.get("call", {}).get("phsp", "")).split(":")[0],
                "rho_at_pole_real_positive": f.get("rho_at_pole_real_positive", True)}
    if f.get("kind") == "rel" and "values" in f:
        c = classify(f)  # recomputed from the stored input, never taken from the record
        if not c["rho_at_pole_real_positive"]:
            return {"class": KNOWN_CLASS, "rho_at_pole_real_positive": False}
        if not c["ff_at_pole_real"]:
            return dict(OBSERVATION_SIGNATURE)
        return {"class": VIOLATION_CLASS, "what": f.get("what"), "rho_at_pole_real_positive": True,
                "phsp": f.get("phsp"), "sub_threshold_pole": bool(f.get("sub_threshold_pole"))}
    if "kind" in f:
        return {"class": "K-matrix not unitary/symmetric (no phase-space factor at a pole mass involved)",
                "kind": f.get("kind"), "what": f.get("what")}
    return {"what": f.get("what"), "class": f.get("class")}


def replay(data: dict) -> int:
    """./check C09 --replay FILE : re-evaluate the stored failing input on the current tree."""
    common.use_repo_source()
    case = data.get("input", data)
    if "history_payload" in case:
        print(json.dumps({k: v for k, v in case.items() if k not in ("history_payload", "point", "library", "expected")},
                         indent=1, default=str))
        return C09_history.replay_history(case)
    if "passed" in case:  # a forwarding case
        import sympy as sp

        reg = dict(C09_occ.phsp_registry())
        reg[C09_occ.MARKER_NAME] = C09_occ.marker_phsp()
        name = case["passed"]["phsp_factor"]
        impl = reg[name]
        L = sp.sympify(case["passed"]["angular_momentum"])
        d = sp.sympify(case["passed"]["meson_radius"])
        if L.is_Symbol:
            L = sp.Symbol(L.name, integer=True, nonnegative=True)
        if d.is_Symbol:
            d = sp.Symbol(d.name, positive=True)
        m = C09_occ.formulate(case["class"], case["n_channels"], case["n_poles"], case["hat"], impl, L, d)
        occ = C09_occ.occurrences(m, reg, extra_classes=[impl] if isinstance(impl, type) else [])
        print(json.dumps({"passed": case["passed"], "found_now": occ}, indent=1))
        row = {"cls": case["class"], "n_channels": case["n_channels"], "n_poles": case["n_poles"],
               "relativistic": case["class"].startswith("Relativistic"), **occ}
        if row["relativistic"]:
            ok = (name in occ["phsp"] and occ["L"] == [str(L)] and occ["d"] == [str(d)]
                  and C09_occ.items_ok(row, set(occ["phsp"]) if not isinstance(impl, type) else {name}, str(L), str(d)))
        else:
            ok = occ["items"] == []
        if not ok:
            print("VIOLATION property=C09 replay=<given file>")
        return 0 if ok else 1
    if "values" not in case:
        print(json.dumps(data, indent=1))
        return PROP.run("quick", 0)
    r = evaluate_case(case)
    tol = 1e-9 * (1 + r["T_norm"]) ** 2
    sig = signature_of(case)
    print(json.dumps({"case": {k: case.get(k) for k in ("kind", "n_channels", "n_poles", "L", "phsp", "sub_threshold_pole")},
                      "signature": sig, **r, "tolerance": tol}, indent=1))
    failed = r["unitarity_defect"] > tol or r["symmetry_defect"] > tol
    if failed and sig.get("class") == KNOWN_CLASS:
        print(f"KNOWN-FINDING: property=C09 {KNOWN_CLASS}")
        return 0
    if failed and sig.get("class") == OBSERVATION_CLASS:
        print(f"OBSERVATION (notes/findings_C09.md, not in the verdict): {OBSERVATION_CLASS}")
        return 0
    if failed:
        print("VIOLATION property=C09 replay=<given file>")
        return 1
    return 0


PROP = KProperty(
    prop_id="C09",
    sources=SOURCES,
    namespace="C09",
    build=build,
    search=search,
    prop_modules=["Ampverif.Props.C09", "Ampverif.Props.C09History"],
    post=_history_tie,
    signature_of=signature_of,
    n_points={"quick": 6, "thorough": 40},
    n_search={"quick": 60, "thorough": 900},
    extra_modules=thorough_modules,
    extra_regenerate=n3_regenerate,
    trusted=(
        "phase-space factors and form factors are leaves of the Lean model (their reality/positivity above threshold are hypotheses; C11/C12 are about them)",
        "occurrence sets are collected by a preorder traversal of the real sympy objects (tools/corr/C09_occ.py occurrences)",
        "history tie: skeleton canonicaliser / digest of tools/corr/C10_history.py (identity of EnergyDependentWidth.phsp_factor, "
        "preorder traversal), driven by tools/corr/C09_history.py; OS process boundaries as the meaning of 'fresh process'",
    ),
)

MANIFEST = {
    "technique": "Lean 4 theorems (Mathlib matrices, all sizes) + definitions and an occurrence table regenerated from kmatrix.py (translator, formulate() called with a marker phase-space implementation), Float-twin validation against the real lambdified code, independent numeric oracle on formulate(); call histories: Lean state machine with a process-global cache + history correspondence + unitarity/purity oracle per call",
    "design_ref": "DESIGN.md §3 C09",
    "text": (
        "Proof. For EVERY number of channels (Matrix n n ℂ, any finite n) and every finite pole set: K Hermitian ⇒ 1−iK invertible "
        "(proved via the positive definite Gram matrix), S = 1+2iK(1−iK)⁻¹ satisfies S†S = 1, K symmetric ⇒ T symmetric; "
        "ρ positive diagonal and K̂ Hermitian ⇒ √ρK̂(1−iρK̂)⁻¹√ρ = K'(1−iK')⁻¹ with K' = √ρK̂√ρ, hence unitary/symmetric; the pole "
        "parametrisation Σ_R g_Ri g_Rj/(m_R²−s) is real symmetric for real g (Finset sum, any number of poles). Tied to the source: the "
        "entries of formulate(parametrize=False) for n = 1, 2 (both classes, T̂ and T), the parametrisations (n_R = 1..4) and the full "
        "formulate(n, n_R) results for n, n_R ∈ {1,2} are re-translated on every run and 80 theorems are re-checked: the "
        "regenerated entries solve E(1−iK) = K resp. Ê(1−iρK̂) = K̂ (polynomial identities mod i² = −1) and therefore ARE the abstract "
        "formula wherever det ≠ 0; T = (√ρ)*T̂√ρ; the regenerated parametrisations are symmetric and real (non-negative widths; for the "
        "relativistic case under the guard ρ_i(m_R²) > 0 for the phase-space factor in use, real form factors) and — both classes, "
        "n = n_R = 2 — ARE instances of the all-poles formula with g_Ri = γ_Ri√(m_RΓ_Ri(s)) (nrK22_eq_poleK, relK22_eq_poleK), so that "
        "the all-n/all-poles theorems apply to the source's own parametrization (relK22_all_poles_unitary_symmetric); formulate = matrix "
        "expression ∘ parametrisation; hence formulate(n, n_R) is unitary and symmetric. The guard is about ONE phase-space "
        "implementation, the caller's: formulate() is translated from calls with a marker implementation (any other class / angular "
        "momentum / radius inside the result, also inside an evaluated EnergyDependentWidth, makes the source untranslatable), and the "
        "regenerated occurrence table (both classes, n, n_R ∈ {1,2}, return_t_hat on/off; itemised per pole × channel: ρ nodes of the "
        "matrix expression, every width's phsp_factor / L / d, the ρ and form-factor nodes inside every evaluated width) contains exactly "
        "the passed arguments (formulate_forwards_arguments, decide). Thorough tier: the same entry-level theorems for n = 3 "
        "(Props/C09N3, 14 theorems; the 3×3 symbolic inverse is extracted in a time-capped subprocess) and the full formulate(n, n_R) "
        "for n ∈ {1,2}, n_R ∈ {3,4} (Props/C09P34, 32 theorems) — 126 theorems in total. Oracle (S†S = 1, T = Tᵀ on the real "
        "formulate()): a sweep over every phase-space implementation that is real above threshold × pole 1 above / between / below the "
        "thresholds, random configurations, and the forwarding statement for every implementation of dynamics/phasespace.py with symbolic "
        "and numeric L, d. Each input is classified by evaluating the hypotheses of the theorems for the caller's arguments (ρ_i(s), "
        "ρ_i(m_R²) real positive, form factors real): where they hold a failure is a violation — in particular for poles below a "
        "threshold with PhaseSpaceFactorAbs. Bounded part: full formulate with n = 3 only numerically (thorough oracle, n_R ≤ 2); "
        "Call HISTORIES (Props/C09History.lean, 7 theorems over the state machine Model/C10History.lean shared with C10: a call "
        "looks its energy-dependent widths up in a process-global cache keyed on (L, d, key(factor object))): for every history of "
        "formulate() calls in one process, every key injective on factor objects and every predicate `good` on factor objects, if "
        "the factor passed to call k is good then every width of result k carries that (good) factor with the L / radius of call k "
        "and every ρ node is the passed factor's (kmatrix_history_guard, …_injective_key) — the hypotheses of Part D evaluated for "
        "the arguments of a call ARE hypotheses about the leaves of its result, whatever was formulated before; result k is n×n with "
        "its own symbol families (kmatrix_history_shape); kernel-checked witnesses for the key 'qualified name' (complex closure "
        "first, real closure second: a width carrying the complex factor; reverse order; return_t_hat). Tie: tools/corr/C09_history.py "
        "runs seeded histories of NonRelativisticKMatrix / RelativisticKMatrix.formulate (n, n_R ∈ {1,2}, return_t_hat on/off, "
        "parametrize on/off, L / radius numbers and symbols) in worker processes with phase-space factors passed as library classes, "
        "closures of one factory, lambdas of one scope (also lambdas that only attach name= to a library class), named functions, "
        "functools.partial objects, callable instances and bound methods, complex (Chew-Mandelstam, two harness conventions) and real "
        "ones alternating, each history also reversed; for EVERY call: skeleton = Lean model's line, occurrences by object identity, "
        "S†S = 1 and T = Tᵀ where ρ_i(s), ρ_i(m_R²) > 0 and the form factors are real for the object passed to THAT call (called "
        "directly), deviation from an independent numpy solution with that object, digest equal to the reversed history's and to a "
        "fresh process's (30 calls in the quick tier, every call in the thorough tier). Bounded: the history model's skeleton abstracts the algebra of the entries. "
        "n_R = 3, 4 full formulate in the thorough tier only (quick: parametrisation level); the poleK instance theorems are for "
        "n = n_R = 2; form factors and phase-space factors are leaves with sign hypotheses. Known finding: the relativistic K-matrix with "
        "a pole mass below a channel threshold is not unitary when ρ(m_R²) of the factor in use is not real positive (PhaseSpaceFactor, "
        "PhaseSpaceFactorComplex; kernel-checked witness relForm11_witness_subthreshold; matched by signature only there). Observation "
        "(notes/findings_C09.md F1, not in the verdict): PhaseSpaceFactorAbs, L ≥ 1, pole between two thresholds — FormFactor(m_R²)² < 0."
    ),
    "level_note": (
        "Trusted: Lean kernel + Mathlib (axioms propext, Classical.choice, Quot.sound); the sympy->Lean translator incl. the leaf "
        "abstraction of FormFactor/phase-space factor nodes (validated each run: leaf values computed by the real code are fed to "
        "the Lean Float twin and the result is compared with the real lambdified formulate/parametrization); the occurrence collector "
        "(tools/corr/C09_occ.py: preorder traversal, EnergyDependentWidth attributes and one evaluate()); the marker phase-space class is "
        "defined by the harness with ampform's public @unevaluated decorator; sympy's symbolic matrix inverse, doit/xreplace and numpy "
        "are executed, not modelled. Lean's x⁻¹ is total, so statements at s = m_R² are about that convention."
    ),
}
