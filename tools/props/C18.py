"""C18 — PoolSum denotes the finite sum over its index pools.

Proof (Lean, `Ampverif.Props.C18`) about the hand-written model M1 (`Ampverif.Model.Expr`), tied to
the working tree by a T2 correspondence (real `ampform.sympy.PoolSum` vs the Lean model through the
line protocol) and an independent oracle that evaluates the clauses of the property on real objects.
"""

from __future__ import annotations

import json

from tools.lib import common

SOURCES = ["src/ampform/sympy/__init__.py", "src/ampform/sympy/_decorator.py"]
PROP_MODULES = ["Ampverif.Props.C18"]
N_CORR = {"quick": 45, "thorough": 700}
N_ORACLE = {"quick": 60, "thorough": 1500}
N_NEW = {"quick": 25, "thorough": 400}
RULE = ("distinct (term, operation) pairs of the correspondence whose term has >= 2 summation indices or nesting "
        "depth >= 2, plus distinct oracle terms with >= 2 indices or nesting depth >= 2")


def infer_variant() -> dict:
    """Distinguishing probes on the real code for the switches of `Ampverif.Model.Variant`."""
    import sympy as sp

    from ampform.dynamics.phasespace import BreakupMomentumSquared, PhaseSpaceFactor
    from ampform.sympy import PoolSum

    i, j, s, m1, m2, x = sp.symbols("i j s m1 m2 x")
    f = sp.Function("f")
    e = PoolSum(f(i, j), (i, (1, 2)))
    protects = e.subs(i, 5) == e and e.xreplace({i: sp.Integer(5)}) == e and e.xreplace({i: j}) == e
    nested = PhaseSpaceFactor(BreakupMomentumSquared(s, m1, m2), m1, m2)
    r = nested.xreplace({m1: x})
    shallow = r == PhaseSpaceFactor(BreakupMomentumSquared(s, x, m2), x, m2)
    return {"getArgsRecursive": int(not shallow), "poolSumProtectsBound": int(bool(protects))}


def witness_recursive_args():
    """With recursive `_get_arguments` a summand holding a nested @unevaluated argument is not
    substituted correctly, so the pool sum does not evaluate to the explicit sum."""
    import sympy as sp

    from ampform.dynamics.phasespace import BreakupMomentumSquared, PhaseSpaceFactor
    from ampform.sympy import PoolSum

    i, s, m2 = sp.symbols("i s m2")
    e = PoolSum(PhaseSpaceFactor(BreakupMomentumSquared(s, i, m2), i, m2), (i, (1, 2)))
    want = sp.Add(*[PhaseSpaceFactor(BreakupMomentumSquared(s, v, m2), v, m2) for v in (1, 2)])
    try:
        got = e.evaluate()
    except Exception as exc:  # noqa: BLE001
        got = f"{type(exc).__name__}: {exc}"
    if got != want:
        return [{"class": "doit != explicit sum over the cartesian product", "expr": sp.srepr(e), "doit": str(got),
                 "explicit": str(want),
                 "python": "PoolSum(PhaseSpaceFactor(BreakupMomentumSquared(s,i,m2),i,m2),(i,(1,2))).evaluate()"}]
    return []


class C18Property:
    prop_id = "C18"

    def run(self, tier: str, seed: int) -> int:  # noqa: C901, PLR0912, PLR0915
        from tools.corr import C18 as corr
        from tools.corr import C18m1 as m1
        from tools.corr import C18new as new
        from tools.search import C18 as oracle

        chk = common.Check("C18", tier, seed)
        common.use_repo_source()
        chk.coverage["rule"] = RULE
        chk.info("source_blobs", common.source_blob_hashes(SOURCES))
        chk.coverage["trusted_base"] = [
            "Lean 4.33 kernel, Mathlib (List.sum / ring lemmas over Rat)",
            "tools/corr/C18m1.py (S-expression printer/parser, SymPy<->AST conversion, exact evaluator mirroring stdInterp)",
            "tools/corr/C18new.py (factories of the input iterables; what ONE iteration of a set/dict yields is observed on the Python object)",
            "SymPy's constructors (Add/Mul/Pow canonicalisation) and subs/xreplace on built-in nodes: executed, not modelled",
        ]
        chk.assumptions += [
            "wfSums (decidable, evaluated by the model on every generated term): pool values are pool-sum-free TERMS (numbers, symbols, sums, OUTER "
            "summation indices) that mention neither an index of the same sum nor a symbol bound inside its summand; the excluded cases "
            "(sibling index in a pool, captured symbol) are generated on purpose, compared structurally with the model, probed and recorded",
            "index symbols of one PoolSum are pairwise distinct (a repeated symbol has no cartesian-product reading; probed and recorded)",
            "substituted terms mention no summation index (capture); the captured case is probed and recorded",
        ]
        # ---- proofs
        res = common.prove("C18", PROP_MODULES)
        chk.record_proof(res, "cd lean && lake build " + " ".join(PROP_MODULES) + " && lake env lean Ampverif/Audit/C18.lean")
        if res["failed"]:
            chk.note("proof obligations not discharged: " + "; ".join(f"{k}: {v[:160]}" for k, v in list(res["failed"].items())[:5]))
        # ---- variant inference
        failing: list[dict] = []
        try:
            variant = infer_variant()
        except Exception as e:  # noqa: BLE001
            variant = {"getArgsRecursive": 0, "poolSumProtectsBound": 1}
            chk.broken_correspondence("variant probes", f"{type(e).__name__}: {e}")
        chk.info("inferred_variant", variant)
        if not variant["poolSumProtectsBound"]:
            chk.broken_correspondence("variant", "the source rewrites bound summation indices (poolSumProtectsBound = false): "
                                      "the theorems assume the sound variant; Lean witness C18.witness_bound")
            failing += oracle.witness_bound()
        if variant["getArgsRecursive"]:
            chk.broken_correspondence("variant", "the source collects field values recursively (getArgsRecursive = true): "
                                      "substitution inside summands with nested @unevaluated arguments is wrong")
            failing += witness_recursive_args()
        # ---- T2 correspondence (always under the sound variant: that is what the theorems are about)
        try:
            bad = corr.correspondence(chk, common.rng_for("C18", seed, "corr"), N_CORR[tier])
            for b in bad[:8]:
                chk.broken_correspondence("PoolSum vs model", b)
            if bad:
                chk.note(f"correspondence: {len(bad)} disagreements, first: {json.dumps(bad[0], default=str)[:400]}")
        except (common.LeanRunError, m1.Unrepresentable) as e:
            chk.broken_correspondence("PoolSum vs model", f"{type(e).__name__}: {str(e)[-800:]}")
        except Exception as e:  # noqa: BLE001  the library itself failed on generated valid input
            chk.broken_correspondence("PoolSum vs model", f"{type(e).__name__}: {str(e)[-800:]}")
        # ---- the constructor: PoolSum.__new__ on every kind of input iterable vs `psumNew` (Model/ExprNew.lean)
        try:
            nvar = new.infer_new_variant()
        except Exception as e:  # noqa: BLE001
            nvar = {"validateInOwnPass": 0, "dropsRepeated": 0}
            chk.broken_correspondence("constructor variant probes", f"{type(e).__name__}: {e}")
        chk.info("inferred_constructor_variant", nvar)
        if nvar["validateInOwnPass"]:
            chk.broken_correspondence("constructor variant", "PoolSum.__new__ iterates a value pool more than once (validateInOwnPass = true): "
                                      "the theorems assume the sound constructor; Lean witness C18.two_pass_constructor_witness")
        if nvar["dropsRepeated"]:
            chk.broken_correspondence("constructor variant", "PoolSum.__new__ drops repeated pool values (dropsRepeated = true): "
                                      "the theorems assume the sound constructor; Lean witness C18.dedup_constructor_witness")
        try:
            bad = new.correspondence(chk, common.rng_for("C18", seed, "new"), N_NEW[tier])
            for b in bad[:8]:
                chk.broken_correspondence("PoolSum.__new__ vs model", b)
            if bad:
                chk.note(f"constructor correspondence: {len(bad)} disagreements, first: {json.dumps(bad[0], default=str)[:400]}")
        except (common.LeanRunError, m1.Unrepresentable) as e:
            chk.broken_correspondence("PoolSum.__new__ vs model", f"{type(e).__name__}: {str(e)[-800:]}")
        except Exception as e:  # noqa: BLE001
            chk.broken_correspondence("PoolSum.__new__ vs model", f"{type(e).__name__}: {str(e)[-800:]}")
        # ---- independent oracle on the real code (always)
        chk.info("excluded_points_probed", oracle.probe_excluded())
        seen = set()
        n_wit = len(failing)
        failing += sorted(self.oracle_run(chk, common.rng_for("C18", seed, "oracle"), N_ORACLE[tier] * (4 if chk.broken else 1)),
                          key=lambda f: len(f.get("expr", "")))
        try:
            failing += sorted(new.oracle(chk, common.rng_for("C18", seed, "new-oracle"), N_NEW[tier] * (3 if chk.broken else 1)),
                              key=lambda f: len(f.get("expr", "")))
        except Exception as e:  # noqa: BLE001
            chk.broken_correspondence("constructor oracle", f"{type(e).__name__}: {str(e)[-600:]}")
        for f in failing:
            key = (f["class"], f.get("expr"), f.get("old"), f.get("new"), f.get("how"))
            if key in seen:
                continue
            seen.add(key)
            if len([v for v in chk.violations]) >= 5 and chk.match_known({"class": f["class"]}) is None:
                continue
            chk.failing_input({"class": f["class"]}, {"input": f, "expected": "the clause of C18 named in 'class'",
                                                      "observed": {k: v for k, v in f.items() if k not in {"class", "expr"}}})
        if chk.broken and not chk.violations:
            for b in chk.broken:
                chk.unexplained(b.get("theorem") or b.get("what"), b.get("detail"))
        return chk.finish()

    def oracle_run(self, chk, rng, n: int) -> list[dict]:
        from tools.corr import C18 as corr
        from tools.corr import C18m1 as m1
        from tools.search import C18 as oracle

        stats = {"n_idx": {}, "singleton_pools": 0, "duplicate_value_pools": 0, "duplicate_index_symbols": 0,
                 "unused_indices": 0}
        ctx = m1.Ctx()
        fails, notes = [], []
        where = {"pool-only": 0, "pool+summand": 0, "summand-only_or_absent": 0}
        all_syms = [m1.to_sympy(s, ctx) for s in corr.FREE + corr.IDX + corr.POOLSYM]
        todo = corr.shape_cases(rng, ctx, stats) + [corr.gen_case(rng, stats) for _ in range(n)]
        for k, c in enumerate(todo):
            real = m1.to_sympy(c["term"], ctx)
            reqs = [[(m1.to_sympy(a, ctx), m1.to_sympy(b, ctx)) for a, b in sub["pairs"]] for sub in c["subs"]]
            for sub in c["subs"]:
                kind = sub["kind"].split("->")[0]
                where[kind if kind in where else "summand-only_or_absent"] += 1
            try:
                f, nt = oracle.check_term(real, rng, reqs, all_syms)
            except Exception as e:  # noqa: BLE001
                import sympy as sp

                f, nt = [{"class": "the library raised on a valid pool sum", "expr": sp.srepr(real),
                          "error": f"{type(e).__name__}: {e}"}], []
            fails += f
            notes += nt
            chk.count(("oracle", k) if (c["depth"] >= 2 or len(c["top_idx"]) >= 2) else None)
        fails += oracle.float_pool_cases(rng)
        chk.info("oracle_terms", len(todo))
        stats["substituted_symbol_occurs_in"] = where
        chk.info("oracle_input_distribution", stats)
        chk.info("oracle_excluded_cases_met", {"count": len(notes), "examples": notes[:4]})
        return fails


def replay(data: dict) -> int:
    """Re-run the clauses of C18 on the recorded failing input (real code only)."""
    import sympy as sp

    common.use_repo_source()
    from ampform.sympy import PoolSum
    from tools.search import C18 as oracle

    print(json.dumps(data, indent=1)[:3000])
    inp = data.get("input", {})
    if "expr" not in inp or "<" in inp["expr"]:
        # (constructor stream: the input is a PoolSum built from an iterable object, described in words;
        # the fixed cases of that stream run with every seed)
        return PROP.run("quick", 0)
    ns = {"PoolSum": PoolSum}
    expr = sp.sympify(inp["expr"], locals=ns)
    reqs = []
    if "old" in inp:
        reqs.append([(sp.Symbol(inp["old"]), sp.sympify(inp["new"]))])
    rng = common.rng_for("C18", 0, "replay")
    syms = sorted(expr.atoms(sp.Symbol) | {s for pair in reqs for _, a in pair for s in a.free_symbols}, key=str)
    fails, _ = oracle.check_term(expr, rng, reqs, syms)
    fails += [f for f in oracle.witness_bound() if f["expr"] == inp["expr"]]
    known = common.load_known_findings()
    status = 0
    for f in fails:
        is_known = any(k.get("property") == "C18" and k["match"].get("class") == f["class"] for k in known.get("known", []))
        print(("KNOWN-FINDING" if is_known else "VIOLATION") + " (replayed): " + json.dumps(f)[:600])
        if not is_known:
            status = 1
    if not fails:
        print("replay: the recorded input no longer fails")
    return status


PROP = C18Property()

MANIFEST = {
    "technique": "Lean 4 theorems about a hand-written executable term model (M1) + differential correspondence with the real PoolSum through a line protocol + independent oracle on real objects",
    "design_ref": "DESIGN.md §3 C18, §2.3 M1",
    "text": (
        "Proof. Kernel-checked theorems about the import-free model Ampverif.Model.Expr, which follows PoolSum.__new__/evaluate/doit/"
        "free_symbols/cleanup/_eval_subs/_xreplace line by line, with pool VALUES that are TERMS (numbers, symbols, sums, outer summation indices: "
        "they are arguments of the PoolSum, so free_symbols/subs/xreplace reach them and evaluate/cleanup insert them): for EVERY summand (nested "
        "pool sums — also ones whose pools mention the outer indices —, sums, products, powers, function applications, folded nodes), every number "
        "of distinct index symbols, every pool (duplicates, singletons, symbolic and compound values), every environment and every interpretation of "
        "the uninterpreted functions: value(evaluate) = nested finite sum over the pool values EVALUATED IN THE ENVIRONMENT = flat sum over "
        "itertools.product (induction over the index list; substitution lemma 'subs = environment update' for nested sums with symbolic pools); "
        "value(doit) = value for every nesting depth (doit_nested_dependent_pools: inner pools are evaluated with the outer indices bound) and doit with "
        "fuel >= nesting depth leaves no pool sum; free symbols = (free(summand) + free(pool values)) minus indices and the value depends on them only; "
        "value(e) = (product of the pool sizes of unused indices) * value(cleanup e), hence cleanup preserves the value under the proviso 'unused "
        "indices have one value' (the real code violates the unconditional clause: known finding, witness theorem); subs of a non-index symbol by a "
        "term mentioning no index commutes with evaluate as an equality of terms ALSO when the symbol occurs in a pool or only in a pool; subs(x,a) = "
        "environment update and xreplace = simultaneous update as values (pools included), hence subs-then-doit = doit-then-subs as values; "
        "subs/xreplace of an index is the identity (sound variant); decide-witnesses for the unsound variant, for cleanup, for a repeated index symbol "
        "and for a pool mentioning a sibling index. The CONSTRUCTOR (Model/ExprNew.lean: PoolSum.__new__ line by line over `Pool` = what iterating the "
        "Python object yields + whether it is a one-shot iterator): for every kind of input iterable the constructor stores the summand and exactly the values "
        "the object yields — order and duplicates kept (new_stores_given_values), evaluate=True has the value of the explicit sum over them "
        "(new_evaluate_denotes), an empty pool / exhausted iterator is the ValueError (new_rejects_empty_pool), func(*args) is the identity "
        "(rebuild_is_identity), subs/xreplace performed THROUGH the constructor are the model's subs/xreplace and keep every pool's length "
        "(subs_through_constructor, xreplace_through_constructor, subs_keeps_pool_sizes), hence subs-then-doit = doit-then-subs as values also when the "
        "substitution makes pool entries equal (subs_through_constructor_then_doit, xreplace_through_constructor_value); decide-witnesses that a "
        "constructor validating in a pass of its own (iterators emptied) or dropping repeated values breaks the property. "
        "Unbounded in all inputs. Standing hypothesis wfSums (decidable, part of the model): distinct index "
        "symbols, pool values pool-sum-free that mention neither an index of the same sum nor a symbol bound inside the summand; substituted terms "
        "mention no bound symbol. What it excludes is generated, compared structurally with the model, probed on the real code and recorded."
    ),
    "level_note": (
        "Trusted: Lean kernel + Mathlib (axioms propext, Classical.choice, Quot.sound); the model is hand-written (not generated) and is tied to "
        "src/ampform/sympy/__init__.py by running both on seeded random terms (0-4 indices, nesting <= 3, pools of rationals, pool-only symbols, "
        "symbols shared with the summand, outer indices and compound values — inner pools depending on outer indices with and without the index "
        "in the inner summand —, random substitution maps incl. ones hitting indices, pool-only and pool+summand symbols; the distribution is in the "
        "evidence) and, for the constructor, by building the real object from the ORIGINAL iterable of 18 kinds (list, tuple, range, set, frozenset, sympy.Tuple, "
        "dict, keys/values views, generator, map, filter, map over zip, iter(list/tuple), reversed, itertools.chain/islice; values as Python ints, Fractions, SymPy "
        "numbers, symbols, compound terms; literal duplicates; empty pools and exhausted iterators; every kind in every run) and comparing stored args, "
        "evaluate=True, evaluate, doit, cleanup, free_symbols, func(*args), subs and xreplace with substitutions that IDENTIFY pool entries with psumNew and the term model "
        "(the constructor variant — one pass, nothing dropped — is inferred by probes); results compared with == after rebuilding the model's output with the real "
        "SymPy constructors, pool sums of a model RESULT with Expr.__new__ (not through the constructor under test), and — for every term the model's "
        "wfSums accepts — the Lean denotation compared with the exact rational value of the real .doit() result; the variant (bound-index protection, shallow "
        "_get_arguments) is inferred from the real code by probes. SymPy's Add/Mul/Pow canonicalisation and subs/xreplace on built-in "
        "nodes are executed, not modelled; the S-expression converter and the Python mirror of the evaluator are trusted harness code."
    ),
}
