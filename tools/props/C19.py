"""C19 — Dalitz-plot-decomposition angles (scattering angle, theta-hat, zeta) and their identities.

Tie: T1. All outputs of `formulate_scattering_angle`, `formulate_theta_hat_angle` (16 index
pairs each) and `formulate_zeta_angle` (64 index triples) over {0,1,2,3} are probed on the
working tree on every run: which raise (mapped to an enum), which return 0, `acos(X)` or
`-acos(X)`. Every returned expression is translated twice — the arccos argument X as
`cos<Fam>_<idx>` and the whole expression as `<fam>_<idx>` — into `Gen/C19.lean`; the case table
and index-dispatch functions go to `Gen/C19Table.lean`. The Float twins are validated against
the lambdified real expressions; the oracle (`search`) evaluates the statement of C19 on
physical events, computing every angle geometrically from boosted four-momenta.
"""

from __future__ import annotations

import itertools
import math

from tools.lib import common
from tools.lib.t1 import T1Property
from tools.translate import core

SOURCES = [
    "src/ampform/kinematics/angles.py",
    "src/ampform/kinematics/phasespace.py",
    "src/ampform/helicity/align/dpd.py",
]

PARAMS = ["m_0", "m_1", "m_2", "m_3", "m_12", "m_13", "m_23"]
FAMILIES = [  # (family, Lean prefix of the angle, Lean prefix of the cosine, arity)
    ("theta", "theta", "cosTheta", 2),
    ("thetaHat", "thetaHat", "cosThetaHat", 2),
    ("zeta", "zeta", "cosZeta", 3),
]


def _functions():
    from ampform.kinematics import angles

    return {
        "theta": angles.formulate_scattering_angle,
        "thetaHat": angles.formulate_theta_hat_angle,
        "zeta": angles.formulate_zeta_angle,
    }


def _param_symbols():
    import sympy as sp

    return [sp.Symbol(n, nonnegative=True) for n in PARAMS]


def probe():
    """(family, idx) -> ("err", enum) | ("zero", None, expr) | ("acos", X, expr) |
    ("negAcos", X, expr) | ("other", None, expr) for all index tuples over {0,1,2,3}."""
    import sympy as sp

    fns = _functions()
    out = {}
    for fam, _, _, arity in FAMILIES:
        for idx in itertools.product(range(4), repeat=arity):
            try:
                _sym, expr = fns[fam](*idx)
            except ValueError:
                out[fam, idx] = ("err", "valueError")
                continue
            except NotImplementedError:
                out[fam, idx] = ("err", "notImplementedError")
                continue
            except Exception:  # noqa: BLE001
                out[fam, idx] = ("err", "otherError")
                continue
            expr = sp.sympify(expr)
            if expr == 0:
                out[fam, idx] = ("zero", None, expr)
            elif isinstance(expr, sp.acos):
                out[fam, idx] = ("acos", expr.args[0], expr)
            elif (isinstance(expr, sp.Mul) and len(expr.args) == 2 and expr.args[0] == -1
                  and isinstance(expr.args[1], sp.acos)):
                out[fam, idx] = ("negAcos", expr.args[1].args[0], expr)
            else:
                out[fam, idx] = ("other", None, expr)
    return out


def _name(prefix, idx):
    return prefix + "_" + "_".join(map(str, idx))


def build_definitions():
    import sympy as sp

    from ampform.kinematics import phasespace as ps

    psyms = _param_symbols()
    table = probe()
    x, y, z = sp.symbols("x y z", real=True)
    state = {"cos": None}

    def hook(e, tr):
        c = state["cos"]
        if c is not None and isinstance(e, sp.acos) and e.args[0] == c[1]:
            return ("call", "acos", [("app", c[0], [("sym", p) for p in PARAMS])])
        return None

    tr = core.Translator(classes={ps.Kallen: "Kallen"}, extra=hook)
    defs = [core.Definition("Kallen", ["x", "y", "z"], tr(ps.Kallen(x, y, z).evaluate()))]
    reals = {"Kallen": (ps.Kallen(x, y, z), [x, y, z])}
    ksyms = sp.symbols("sigma1 sigma2 sigma3 m0 m1 m2 m3", real=True)
    defs.append(core.Definition("Kibble", [str(s) for s in ksyms], tr(ps.Kibble(*ksyms).evaluate()),
                                doc="used only to state the physical region in the theorems"))
    reals["Kibble"] = (ps.Kibble(*ksyms), list(ksyms))
    allowed = set(psyms)
    for fam, apre, cpre, _ in FAMILIES:
        for (f, idx), ent in table.items():
            if f != fam or ent[0] == "err":
                continue
            kind, X, expr = ent
            extra_syms = expr.free_symbols - allowed
            if extra_syms:
                raise core.Untranslatable(f"{fam}{idx}: symbols outside the mass set: {sorted(map(str, extra_syms))}")
            state["cos"] = None
            if X is not None:
                cname = _name(cpre, idx)
                defs.append(core.Definition(cname, PARAMS, tr(X)))
                reals[cname] = (X, psyms)
                state["cos"] = (cname, X)
            aname = _name(apre, idx)
            defs.append(core.Definition(aname, PARAMS, tr(expr)))
            reals[aname] = (expr, psyms)
            state["cos"] = None
    from tools.search import C19_hardening as hard

    requests, dpd_bad = hard.dpd_requests()
    idx_bad = hard.index_type_checks()
    _write_table(table, requests)
    kinds = {f"{fam}{''.join(map(str, idx))}": (ent[0] if ent[0] != "err" else ent[1])
             for (fam, idx), ent in table.items()}
    facts = {
        "kinds": kinds,
        # helicity/align/dpd.py: requests exactly (rotated, aligned, reference) for every Wigner d, registers the angle
        # under its own symbol, and every requested tuple is one for which an angle is defined
        "dpd_requests_consistent": not dpd_bad,
        "dpd_requests_in_domain": all(_domain("zeta", r[1:]) for r in requests) and len(requests) == 36,
        # indices as sympy.Integer / numpy.int64, repeated calls in another order: same outcome as with int
        "index_types_and_call_order_irrelevant": not idx_bad,
    }
    return defs, reals, facts


def _write_table(table, requests=()):
    """Gen/C19Table.lean: the case table as data + index-dispatch functions onto the generated
    angle definitions (imports Gen/C19)."""
    hashes = common.source_blob_hashes(SOURCES)
    header = "sources: " + ", ".join(f"{k}@{v[:10]}" for k, v in hashes.items())
    out = [f"-- GENERATED by /verif/tools/props/C19.py — do not edit. {header}",
           "import Ampverif.Gen.C19", "set_option linter.all false",
           "namespace Ampverif.Gen.C19", "",
           "/-- exception classes of the probed calls -/",
           "inductive Err | valueError | notImplementedError | otherError | outOfRange",
           "  deriving DecidableEq, Repr", "",
           "/-- shape of what a call returns: an exception, `0`, `acos X`, `-acos X`, something else -/",
           "inductive Kind | err (e : Err) | zero | acos | negAcos | other",
           "  deriving DecidableEq, Repr", "",
           "def Kind.isErr : Kind → Bool | .err _ => true | _ => false", ""]
    args = " ".join(PARAMS)
    for fam, apre, cpre, arity in FAMILIES:
        ivars = ["i", "j", "k"][:arity]
        pats = lambda idx: ", ".join(map(str, idx))  # noqa: E731
        out.append(f"def {fam}Kind : " + " → ".join(["Nat"] * arity) + " → Kind")
        for (f, idx), ent in table.items():
            if f != fam:
                continue
            k = f".err .{ent[1]}" if ent[0] == "err" else f".{ent[0]}"
            out.append(f"  | {pats(idx)} => {k}")
        out.append("  | " + ", ".join(["_"] * arity) + " => .err .outOfRange")
        out.append("")
        out.append(f"noncomputable def {fam}Angle ({' '.join(ivars)} : Nat) ({args} : ℝ) : Except Err ℝ :=")
        out.append(f"  match {', '.join(ivars)} with")
        for (f, idx), ent in table.items():
            if f != fam:
                continue
            if ent[0] == "err":
                out.append(f"  | {pats(idx)} => .error .{ent[1]}")
            else:
                out.append(f"  | {pats(idx)} => .ok ({_name(apre, idx)} {args})")
        out.append("  | " + ", ".join(["_"] * arity) + " => .error .outOfRange")
        out.append("")
        out.append(f"/-- the arccos argument of the returned expression, where there is one -/")
        out.append(f"noncomputable def {fam}Cos ({' '.join(ivars)} : Nat) ({args} : ℝ) : Option ℝ :=")
        out.append(f"  match {', '.join(ivars)} with")
        for (f, idx), ent in table.items():
            if f == fam and ent[0] in ("acos", "negAcos"):
                out.append(f"  | {pats(idx)} => some ({_name(cpre, idx)} {args})")
        out.append("  | " + ", ".join(["_"] * arity) + " => none")
        out.append("")
    out.append("/-- (reference subsystem, rotated state, aligned subsystem, reference as passed): the calls of")
    out.append("`formulate_zeta_angle` that `helicity/align/dpd.py` really makes, recorded by driving its Wigner-d")
    out.append("generator for reference 1..3, rotated state 0..3, aligned subsystem 1..3 -/")
    out.append("def dpdRequests : List (Nat × Nat × Nat × Nat) :=")
    out.append("  [" + ", ".join(f"({a}, {b}, {c}, {d})" for a, b, c, d in requests) + "]")
    out.append("")
    out.append("end Ampverif.Gen.C19")
    common.write_if_changed(common.LEAN / "Ampverif/Gen/C19Table.lean", "\n".join(out) + "\n")


# ====================================================================== validation points


def _phys_point(rng):
    """A generic interior Dalitz point (m_0..m_3, m_12, m_13, m_23), away from every boundary, so
    that Float twin and numpy agree to rounding (acos is ill-conditioned at |x| = 1)."""
    while True:
        m = [rng.uniform(0.1, 1.5) for _ in range(3)]
        m0 = sum(m) + rng.uniform(0.3, 3.0)
        ev = _event(_Float, m0, m, rng.uniform(0.1, 0.9), rng.uniform(-0.9, 0.9), rng)
        inv = _invariants(_Float, ev)
        if min(inv["lams"]) < 0.02 * m0**4:
            continue
        p1, p2, p3 = ev
        ok = True
        for a, b in ((p1, p2), (p1, p3), (p2, p3)):
            c = _dot3(a, b) / math.sqrt(_dot3(a, a) * _dot3(b, b))
            ok = ok and abs(c) < 0.97
        if ok:
            return [m0, *m, inv["m12"], inv["m13"], inv["m23"]]


def points(name, nargs, rng, n):
    if name in ("Kallen", "Kibble"):
        return [[rng.uniform(-3, 6) for _ in range(nargs)] for _ in range(n)]
    # each of the ~100 angle/cosine definitions gets n/4 interior physical points plus two
    # unphysical ones (nan/inf must agree as well)
    pts = [_phys_point(rng) for _ in range(max(4, n // 4))]
    pts.append([rng.uniform(0.5, 3) for _ in range(7)])
    pts.append([rng.uniform(0.5, 3) for _ in range(7)])
    return pts


# ====================================================================== geometry (oracle side)


class _Float:
    sqrt = staticmethod(math.sqrt)
    acos = staticmethod(math.acos)
    cos = staticmethod(math.cos)
    sin = staticmethod(math.sin)
    pi = math.pi
    conv = staticmethod(float)
    name = "float"


def _mp_backend():
    import mpmath

    mpmath.mp.dps = 50

    class _MP:
        sqrt = staticmethod(mpmath.sqrt)
        acos = staticmethod(mpmath.acos)
        cos = staticmethod(mpmath.cos)
        sin = staticmethod(mpmath.sin)
        pi = mpmath.pi
        conv = staticmethod(mpmath.mpf)
        name = "mpmath-50"

    return _MP


def _dot3(a, b):
    return a[1] * b[1] + a[2] * b[2] + a[3] * b[3]


def _msq(p):
    return p[0] * p[0] - _dot3(p, p)


def _add(a, b):
    return [x + y for x, y in zip(a, b)]


def _boost_to_rest(B, p, frame):
    """Four-vector p seen in the rest frame of the time-like four-vector `frame`."""
    M = B.sqrt(_msq(frame))
    E = frame[0]
    pf = _dot3(p, frame)
    e_new = (E * p[0] - pf) / M
    coef = (pf / (E + M) - p[0]) / M  # p' = p + frame_vec * coef
    return [e_new, p[1] + frame[1] * coef, p[2] + frame[2] * coef, p[3] + frame[3] * coef]


def _boost_from_rest(B, p, frame, M=None):
    """Inverse of `_boost_to_rest`: p given in the rest frame of `frame`, returned in the frame
    in which `frame` is written."""
    if M is None:
        M = B.sqrt(_msq(frame))
    E = frame[0]
    pf = _dot3(p, frame)
    e_new = (E * p[0] + pf) / M
    coef = (pf / (E + M) + p[0]) / M
    return [e_new, p[1] + frame[1] * coef, p[2] + frame[2] * coef, p[3] + frame[3] * coef]


def _angle(B, a, b, flip=False):
    """(cos, angle in [0, pi]) between the three-vectors of a and b (b negated if flip);
    None when one of them vanishes."""
    na, nb = _dot3(a, a), _dot3(b, b)
    if na <= 0 or nb <= 0:
        return None
    c = _dot3(a, b) / B.sqrt(na * nb)
    if flip:
        c = -c
    cc = min(max(c, -1), 1)
    return c, B.acos(cc)


def _unit(B, cos_t, phi_c, phi_s):
    s = B.sqrt(max(1 - cos_t * cos_t, 0))
    return [s * phi_c, s * phi_s, cos_t]


def _event(B, m0, m, frac, cos_star, rng, direction=None):
    """Three-body decay at rest, m0 -> (12) 3: m_12 = (m1+m2) + frac*(m0-m3-m1-m2), helicity
    cosine cos_star of particle 1 in the (12) frame relative to the (12) flight direction."""
    c = B.conv
    m0 = c(m0)
    m1, m2, m3 = (c(x) for x in m)
    m12 = (m1 + m2) + c(frac) * (m0 - m3 - m1 - m2)

    def q(M, ma, mb):
        lam = (M * M - (ma + mb) ** 2) * (M * M - (ma - mb) ** 2)
        return B.sqrt(max(lam, 0)) / (2 * M)

    if direction is None:
        ct = rng.uniform(-1, 1)
        ph = rng.uniform(-math.pi, math.pi)
        d = _unit(B, c(ct), B.cos(c(ph)), B.sin(c(ph)))
        ps = rng.uniform(-math.pi, math.pi)
    else:
        d, ps = direction
    # orthonormal pair perpendicular to d
    ax = [c(1), c(0), c(0)] if abs(d[0]) < 0.9 else [c(0), c(1), c(0)]
    dd = ax[0] * d[0] + ax[1] * d[1] + ax[2] * d[2]
    u = [ax[i] - dd * d[i] for i in range(3)]
    nu = B.sqrt(u[0] ** 2 + u[1] ** 2 + u[2] ** 2)
    u = [x / nu for x in u]
    v = [d[1] * u[2] - d[2] * u[1], d[2] * u[0] - d[0] * u[2], d[0] * u[1] - d[1] * u[0]]
    q3 = q(m0, m12, m3)
    p3 = [B.sqrt(m3 * m3 + q3 * q3), *[-q3 * x for x in d]]
    p12 = [B.sqrt(m12 * m12 + q3 * q3), *[q3 * x for x in d]]
    k = q(m12, m1, m2)
    cs = c(cos_star)
    sn = B.sqrt(max(1 - cs * cs, 0))
    cps, sps = B.cos(c(ps)), B.sin(c(ps))
    e = [cs * d[i] + sn * (cps * u[i] + sps * v[i]) for i in range(3)]
    p1r = [B.sqrt(m1 * m1 + k * k), *[k * x for x in e]]
    p2r = [B.sqrt(m2 * m2 + k * k), *[-k * x for x in e]]
    return [_boost_from_rest(B, p1r, p12, m12), _boost_from_rest(B, p2r, p12, m12), p3]


def _kallen(x, y, z):
    return x * x + y * y + z * z - 2 * x * y - 2 * y * z - 2 * z * x


def _invariants(B, ev, masses=None):
    p1, p2, p3 = ev
    tot = _add(_add(p1, p2), p3)

    def mass(p):
        s = _msq(p)
        return B.sqrt(s) if s > 0 else B.conv(0)

    m0 = mass(tot)
    ms = [mass(p) for p in ev] if masses is None else list(masses)
    m12, m13, m23 = mass(_add(p1, p2)), mass(_add(p1, p3)), mass(_add(p2, p3))
    sig = {1: m23 * m23, 2: m13 * m13, 3: m12 * m12}
    lams = []
    for i in (1, 2, 3):
        j, k = [x for x in (1, 2, 3) if x != i]
        lams.append(_kallen(m0 * m0, ms[i - 1] ** 2, sig[i]))
        lams.append(_kallen(sig[i], ms[j - 1] ** 2, ms[k - 1] ** 2))
    return {"m0": m0, "m": ms, "m12": m12, "m13": m13, "m23": m23, "lams": lams}


CYCLIC = {(3, 1), (1, 2), (2, 3)}


def _expected(B, ev):
    """Geometric values of all angles of the DPD paper computed from the four-momenta `ev`
    (any frame): {(family, idx): (cos, signed angle)}; None where the geometry is degenerate
    (a vanishing three-momentum). Index domain: theta_ij i != j in 1..3; thetaHat_i(j) i, j in
    1..3; zeta^i_j(k) i in 0..3, j in 1..3, k in 0..3 (k = 0 with i = 0 excluded)."""
    p = {1: ev[0], 2: ev[1], 3: ev[2]}
    p[0] = _add(_add(ev[0], ev[1]), ev[2])
    out = {}
    # scattering angle: helicity angle of i in the (ij) rest frame, z axis = flight direction of
    # (ij) in the parent rest frame = opposite to the spectator k seen from the (ij) frame
    for i in (1, 2, 3):
        for j in (1, 2, 3):
            if i == j:
                continue
            k = 6 - i - j
            fr = _add(p[i], p[j])
            out["theta", (i, j)] = _angle(B, _boost_to_rest(B, p[i], fr), _boost_to_rest(B, p[k], fr), flip=True)
    # theta-hat: angle between particles i and j in the parent rest frame, sign by convention
    rest = {i: _boost_to_rest(B, p[i], p[0]) for i in (1, 2, 3)}

    def hat(i, j):
        if i == j:
            return (B.conv(1), B.conv(0))
        r = _angle(B, rest[i], rest[j])
        if r is None:
            return None
        return (r[0], r[1] if (i, j) in CYCLIC else -r[1])

    for i in (1, 2, 3):
        for j in (1, 2, 3):
            out["thetaHat", (i, j)] = hat(i, j)
            out["zeta", (0, i, j)] = hat(i, j)
    # zeta^i_j(k): in the rest frame of particle i the direction attached to chain i is the
    # parent, the one attached to chain j != i is the sibling of i in isobar j (the third particle)
    for i in (1, 2, 3):
        if _msq(p[i]) <= 0:
            dirs = None
        else:
            dirs = {i: _boost_to_rest(B, p[0], p[i])}
            for j in (1, 2, 3):
                if j != i:
                    dirs[j] = _boost_to_rest(B, p[6 - i - j], p[i])
        for j in (1, 2, 3):
            for k0 in (0, 1, 2, 3):
                k = i if k0 == 0 else k0
                if j == k:
                    out["zeta", (i, j, k0)] = (B.conv(1), B.conv(0))
                    continue
                if dirs is None:
                    out["zeta", (i, j, k0)] = "massless"
                    continue
                r = _angle(B, dirs[j], dirs[k])
                if r is None:
                    out["zeta", (i, j, k0)] = None
                    continue
                rj, rk = (j - i) % 3 + 1, (k - i) % 3 + 1
                pos = (rj, rk) in {(1, 3), (2, 1), (2, 3)}
                out["zeta", (i, j, k0)] = (r[0], r[1] if pos else -r[1])
    return out


def _domain(fam, idx):
    if fam == "theta":
        i, j = idx
        return i != j and i in (1, 2, 3) and j in (1, 2, 3)
    if fam == "thetaHat":
        return all(x in (1, 2, 3) for x in idx)
    i, j, k = idx
    if j not in (1, 2, 3):
        return False
    return k in (1, 2, 3) if i == 0 else True


# ====================================================================== the oracle


class _Lib:
    """The library's expressions, probed once, lambdified for numpy and mpmath."""

    def __init__(self):
        import sympy as sp

        self.table = probe()
        self.syms = _param_symbols()
        self.sp = sp
        self._f = {}

    def fn(self, key, what, backend):
        k = (key, what, backend)
        if k not in self._f:
            ent = self.table[key]
            expr = ent[2] if what == "angle" else ent[1]
            mod = "numpy" if backend == "float" else "mpmath"
            self._f[k] = self.sp.lambdify(self.syms, expr.doit(), mod)
        return self._f[k]


def _check_event(lib, B, ev, masses, label, bad, chk, stats):  # noqa: C901, PLR0912, PLR0915
    import numpy as np

    is_mp = B.name != "float"
    inv = _invariants(B, ev, masses)
    m0 = inv["m0"]
    scale4 = m0**4
    args = [m0, *inv["m"], inv["m12"], inv["m13"], inv["m23"]]
    lam_floor = (B.conv(10) ** -24 if is_mp else 1e-6) * scale4
    if min(inv["lams"]) < lam_floor:
        stats["skipped_illconditioned"] += 1
        return False
    exp = _expected(B, ev)
    # rounding model: cos = N / sqrt(lam_a lam_b); the relative error of a small Kallen factor is
    # (unit roundoff) * m0^4 / lam, so the tolerance grows with m0^4 / min(lam)
    cond = scale4 / min(inv["lams"])
    tolx = (B.conv(10) ** -40) * max(1, cond * B.conv(10) ** -7) if is_mp else 1e-8 * max(1.0, float(cond) * 1e-3)
    rt_tolx = B.sqrt(tolx)
    rep = {"label": label, "backend": B.name, "masses_m0_m1_m2_m3": [str(a) for a in args[:4]],
           "m12_m13_m23": [str(a) for a in args[4:]], "four_momenta": [[str(x) for x in p] for p in ev]}
    vals = {}
    for key, ent in lib.table.items():
        fam, idx = key
        dom = _domain(fam, idx)
        if ent[0] == "err":
            if dom:
                bad.append({"what": f"{fam}{idx} raises {ent[1]} although the angle is defined for these indices", **rep})
            continue
        if not dom:
            bad.append({"what": f"{fam}{idx} returns an expression although no such angle is defined", "returned": str(ent[2])[:200], **rep})
            continue
        with np.errstate(all="ignore"):
            try:
                val = lib.fn(key, "angle", B.name)(*args)
                cosv = lib.fn(key, "cos", B.name)(*args) if ent[1] is not None else None
            except (ZeroDivisionError, ValueError):
                val, cosv = None, None
        e = exp.get(key)
        if e is None:
            continue
        if e == "massless":
            e = (B.conv(1), B.conv(0))  # limit m_i -> 0: no Wigner rotation
        ecos, eang = e
        if is_mp:
            import mpmath

            def real(v):
                if v is None:
                    return None
                v = mpmath.mpmathify(v)
                return v.real if abs(v.imag) < mpmath.mpf(10) ** -20 else None
            val, cosv = real(val), real(cosv)
        else:
            val = None if val is None or not math.isfinite(float(np.real(val))) else float(np.real(val))
            cosv = None if cosv is None or not math.isfinite(float(np.real(cosv))) else float(np.real(cosv))
        near_edge = abs(abs(ecos) - 1) < 10 * tolx
        if ent[1] is not None:
            if cosv is None:
                bad.append({"what": f"arccos argument of {fam}{idx} is not a finite real number on a physical event", **rep})
                continue
            if abs(cosv) > 1 + tolx:
                bad.append({"what": f"arccos argument of {fam}{idx} outside [-1,1] on a physical event", "argument": str(cosv), **rep})
                continue
            if abs(cosv - ecos) > tolx:
                bad.append({"what": f"cos {fam}{idx} differs from the angle computed from the four-momenta",
                            "library_cos": str(cosv), "geometric_cos": str(ecos), **rep})
                continue
        if val is None:
            if near_edge:
                continue  # rounding at |cos| = 1: not judged
            bad.append({"what": f"{fam}{idx} is not a finite real number on a physical event", **rep})
            continue
        vals[key] = val
        sin_e = B.sqrt(max(1 - ecos * ecos, 0))
        tola = 2 * tolx / max(sin_e, rt_tolx)  # d(acos x) = dx / sin; at the edge sqrt(2 dx)
        if abs(val - eang) > tola:
            bad.append({"what": f"{fam}{idx} differs from the (signed) angle computed from the four-momenta",
                        "library": str(val), "geometric": str(eang), **rep})
    # --- identities evaluated on the library values themselves
    tol_id = 8 * rt_tolx

    def get(fam, *idx):
        return vals.get((fam, idx))

    def need(cond_vals):
        return all(v is not None for v in cond_vals)

    for i, j in ((1, 2), (1, 3), (2, 3)):
        a, b = get("theta", i, j), get("theta", j, i)
        if need([a, b]) and abs(a + b - B.pi) > tol_id:
            bad.append({"what": f"theta_{i}{j} + theta_{j}{i} != pi", "values": [str(a), str(b)], **rep})
    for i in (1, 2, 3):
        a = get("thetaHat", i, i)
        if a is not None and a != 0:
            bad.append({"what": f"thetaHat_{i}({i}) != 0", "value": str(a), **rep})
        for j in (1, 2, 3):
            a, b = get("thetaHat", i, j), get("thetaHat", j, i)
            if need([a, b]) and abs(a + b) > tol_id:
                bad.append({"what": f"thetaHat_{i}({j}) != -thetaHat_{j}({i})", "values": [str(a), str(b)], **rep})
    for i in (1, 2, 3):
        for k in (1, 2, 3):
            a, b = get("zeta", i, k, 0), get("zeta", i, k, i)
            if need([a, b]) and abs(a - b) > tol_id:
                bad.append({"what": f"zeta^{i}_{k}(0) != zeta^{i}_{k}({i})", "values": [str(a), str(b)], **rep})
    for i in (0, 1, 2, 3):
        for k in (1, 2, 3):
            a = get("zeta", i, k, k)
            if a is not None and abs(a) > tol_id:
                bad.append({"what": f"zeta^{i}_{k}({k}) != 0", "value": str(a), **rep})
        for j, k, l in itertools.permutations((1, 2, 3)):
            a, b, c_ = get("zeta", i, j, k), get("zeta", i, j, l), get("zeta", i, l, k)
            if i != 0 and need([a, b, c_]) and abs(a - b - c_) > 3 * tol_id:
                bad.append({"what": f"sum rule zeta^{i}_{j}({k}) = zeta^{i}_{j}({l}) + zeta^{i}_{l}({k}) fails",
                            "values": [str(a), str(b), str(c_)], **rep})
    stats["judged"] += 1
    stats["angles_compared"] += len(vals)
    return True


def _lorentz_shuffle(B, ev, rng):
    """Moves the event to a random other frame (the library sees invariants only; the oracle has
    to find the rest frames itself)."""
    beta = [B.conv(rng.uniform(-0.5, 0.5)) for _ in range(3)]
    g = 1 / B.sqrt(1 - sum(b * b for b in beta))
    frame = [g, *[g * b for b in beta]]
    return [_boost_from_rest(B, p, frame) for p in ev]


def search(chk: common.Check, rng, n_events: int):
    """Independent oracle: the statement of C19 evaluated on the real code. Physical three-body
    events are generated as four-momenta; every angle is computed geometrically (boosts to the
    parent, isobar and particle rest frames) and compared with the library's expression fed
    with the invariant masses of the same event."""
    lib = _Lib()
    bad: list[dict] = []
    stats = {"judged": 0, "skipped_illconditioned": 0, "angles_compared": 0, "families": {}}

    def mass_config(kind):
        if kind == "generic":
            return [rng.uniform(0.05, 2.0) for _ in range(3)]
        if kind == "one_massless":
            m = [rng.uniform(0.05, 2.0) for _ in range(3)]
            m[rng.randrange(3)] = 0.0
            return m
        if kind == "two_massless":
            m = [0.0, 0.0, 0.0]
            m[rng.randrange(3)] = rng.uniform(0.05, 2.0)
            return m
        if kind == "all_massless":
            return [0.0, 0.0, 0.0]
        if kind == "equal":
            return [rng.uniform(0.05, 1.5)] * 3
        if kind == "two_equal":
            a, b = rng.uniform(0.05, 1.5), rng.uniform(0.05, 1.5)
            m = [a, a, b]
            rng.shuffle(m)
            return m
        raise AssertionError(kind)

    kinds = ["generic"] * 4 + ["one_massless", "two_massless", "all_massless", "equal", "two_equal"]

    def run(B, n, boundary):
        for i in range(n):
            kind = kinds[i % len(kinds)]
            m = mass_config(kind)
            m0 = sum(m) + rng.uniform(0.05, 4.0)
            if boundary:
                eps = 10.0 ** -rng.choice([2, 3, 5, 8] if B.name == "float" else [3, 6, 10, 16])
                mode = rng.choice(["collinear+", "collinear-", "threshold", "endpoint"])
                frac = {"threshold": eps, "endpoint": 1 - eps}.get(mode, rng.uniform(0.05, 0.95))
                cs = {"collinear+": 1 - eps, "collinear-": -1 + eps}.get(mode, rng.uniform(-0.95, 0.95))
                label = f"{kind}/{mode}/eps={eps:g}"
            else:
                frac, cs = rng.uniform(0.0, 1.0), rng.uniform(-1.0, 1.0)
                label = f"{kind}/interior"
            ev = _event(B, m0, m, frac, cs, rng)
            masses = [B.conv(x) for x in m]
            if i % 3 == 1:
                ev = _lorentz_shuffle(B, ev, rng)
                label += "/boosted"
            judged = _check_event(lib, B, ev, masses, label, bad, chk, stats)
            fam = f"{B.name}:{label.split('/eps')[0].replace('/boosted', '')}"
            stats["families"][fam] = stats["families"].get(fam, 0) + 1
            chk.count((B.name, boundary, i) if judged else None)
            if judged and i < 2 and not boundary:
                inv = _invariants(B, ev, masses)
                chk.sample({"event": label, "m0_m1_m2_m3": [float(inv["m0"]), *map(float, m)],
                            "m12_m13_m23": [float(inv["m12"]), float(inv["m13"]), float(inv["m23"])],
                            "angles_compared_so_far": stats["angles_compared"]})
            if len(bad) > 200:
                return

    run(_Float, n_events, False)
    run(_Float, max(20, n_events // 4), True)
    MP = _mp_backend()
    n_mp = max(12, n_events // 25)
    run(MP, n_mp, True)
    run(MP, max(6, n_mp // 3), False)
    chk.info("oracle", stats)
    # --- further clauses (notes/HARDENING.md): exact rational events, substitution of numbers and symbols,
    #     float64 accuracy, the tuples dpd.py requests, the definitions inside a real aligned model
    from tools.search import C19_hardening as hard

    thorough = n_events >= 2000
    hrng = common.rng_for("C19", chk.seed, "hardening")
    bad += hard.index_type_checks()
    bad += hard.dpd_requests()[1]
    bad += hard.exact_checks(chk, hrng, 30 if thorough else 4, budget_s=120.0 if thorough else 25.0)
    bad += hard.substitution_checks(hrng)
    bad += hard.accuracy_checks(chk, hrng, 1500 if thorough else 60)
    bad += hard.builder_checks(chk, hrng, 400 if thorough else 40)
    # what the real code does at the points the theorems guard against
    import numpy as np

    probes = {}
    with np.errstate(all="ignore"):
        thr = [3.0, 0.5, 0.7, 0.4, 1.2, 1.3, math.sqrt(9 + 0.25 + 0.49 + 0.16 - 1.44 - 1.69)]
        for key, what in ((("theta", (1, 2)), "cos"), (("zeta", (1, 1, 3)), "cos"), (("zeta", (1, 2, 3)), "angle")):
            if lib.table.get(key, ("err",))[0] != "err" and lib.table[key][1] is not None:
                try:
                    probes[f"{key[0]}{key[1]} {what} at the pair threshold m_12 = m_1 + m_2"] = str(lib.fn(key, what, "float")(*thr))
                except Exception as e:  # noqa: BLE001
                    probes[f"{key[0]}{key[1]} {what} at the pair threshold m_12 = m_1 + m_2"] = type(e).__name__
    chk.info("guard_probes", probes)
    chk.info("guards", {
        "division by sqrt(Kallen) = 0 (thresholds, particle at rest)": "events with a Kallen factor below 1e-6 m0^4 "
        "(float) / 1e-24 m0^4 (mpmath) are generated but not judged; the Lean sum-rule theorems carry the hypotheses "
        "0 < Kallen (structure Interior), the range theorems hold there by Lean's conventions x/0 = 0, sqrt(negative) = 0 "
        "(see guard_probes for what the real code returns)",
        "massless particle i": "zeta^i compared with 0 (limit of the Wigner rotation); arccos argument is exactly 1 up to rounding",
    })
    return bad


def replay(rep: dict) -> int:
    """./check C19 --replay FILE: re-evaluates the oracle on the recorded event (no evidence is
    written); falls back to a normal run for replays that carry no event."""
    inp = rep.get("input") or {}
    if "four_momenta" not in inp:
        print("replay carries no event (broken obligation without failing input); running the check")
        return PROP.run("quick", 0)
    common.use_repo_source()
    B = _mp_backend() if str(inp.get("backend", "")).startswith("mpmath") else _Float
    ev = [[B.conv(x) for x in p] for p in inp["four_momenta"]]
    masses = [B.conv(x) for x in inp["masses_m0_m1_m2_m3"][1:]]
    chk = common.Check("C19", "quick", 0)
    bad: list[dict] = []
    stats = {"judged": 0, "skipped_illconditioned": 0, "angles_compared": 0, "families": {}}
    _check_event(_Lib(), B, ev, masses, inp.get("label", "replay"), bad, chk, stats)
    for b in bad[:5]:
        print("still failing:", b["what"], {k: v for k, v in b.items() if k in ("library", "geometric", "library_cos", "geometric_cos", "argument", "values")})
    if bad:
        path = str(rep.get("how_to_run", "")).split("--replay ")[-1]
        print(f"VIOLATION property=C19 replay={path}")
        return 1
    print(f"replayed event no longer fails ({stats['angles_compared']} angles compared)")
    return 0


PROP = T1Property(
    prop_id="C19",
    sources=SOURCES,
    namespace="C19",
    build_definitions=build_definitions,
    points=points,
    search=search,
    prop_modules=["Ampverif.Props.C19"],
    n_points={"quick": 16, "thorough": 200},
    n_search={"quick": 300, "thorough": 20000},
    rtol=1e-10,
    expected_facts={"dpd_requests_consistent": True, "dpd_requests_in_domain": True,
                    "index_types_and_call_order_irrelevant": True},
    trusted=(
        "tools/props/C19.py probe(): classification of each returned expression as 0 / acos X / -acos X "
        "(cross-checked in Lean by the *_kind_consistent theorems against the generic translation)",
        "oracle geometry (boosts, sign conventions of the DPD paper) in tools/props/C19.py",
    ),
)

MANIFEST = {
    "technique": "Lean 4 theorems over definitions and case tables regenerated from the source (translator), "
                 "Float-twin validation, independent four-momentum oracle (numpy, 50-digit mpmath, exact rationals)",
    "design_ref": "DESIGN.md §3 C19",
    "text": (
        "Proof. All 16+16+64 outcomes of formulate_scattering_angle / formulate_theta_hat_angle / formulate_zeta_angle over "
        "{0,1,2,3} are re-probed on every run (exceptions as an enum), every returned expression is re-translated into Lean "
        "(arccos argument and whole angle, Kallen as a function), and the (rotated, aligned, reference) tuples that "
        "helicity/align/dpd.py really requests are recorded as a table; 37 theorems + 3 facts are re-checked. Unbounded in all "
        "real arguments, universal over the index tuples: (structure) error domain of each function, theta-hat_{i(i)} = 0, "
        "theta-hat_{i(j)} = -theta-hat_{j(i)}, zeta^0 = theta-hat, zeta^i_{k(0)} = zeta^i_{k(i)}, zeta^i_{k(k)} = 0, "
        "zeta^i_{j(k)} = -zeta^i_{k(j)}, the whole zeta sign table equals the paper's convention, table/angle/cosine views agree, "
        "dpd.py requests every (i, j, reference) with i in 0..3, j in 1..3 and each request is formulated; "
        "(range) for every arccos argument N/(sqrt(la) sqrt(lb)) the identity 4 m0^2 (la lb - N^2) = -c Kibble with c in "
        "{sigma_k, m0^2, m_i^2} (modulo sigma1+sigma2+sigma3 = sum m^2) gives |arg| <= 1 wherever the library's own Kibble "
        "function is <= 0, hence on every rest-frame event; (geometry) for ANY three four-vectors each cosine equals the covariant "
        "Gram ratio covCos(Q,a,b), which in the rest frame of Q is the cosine between the three-momenta: theta-hat_{i(j)} = "
        "+-arccos(p_i.p_j/|p_i||p_j|) in the parent frame with the sign pattern (12),(23),(31) positive; theta_ij = helicity angle "
        "of i in the (ij) frame (arccos of minus the cosine to the spectator); zeta^i_{j(k)} = angle in the rest frame of particle "
        "i between parent/sibling directions; theta_ij + theta_ji = pi for all i != j; (sum rule) zeta^i_{j(k)} = zeta^i_{j(l)} + "
        "zeta^i_{l(k)} for every i in {1,2,3} and every ordering (j,k,l) of {1,2,3}, as an identity between the returned arccos "
        "expressions (cos, sin and range parts all proved) wherever Kibble <= 0 and no Kallen factor vanishes, which includes the "
        "collinear boundary Kibble = 0; (region) events in the parent rest frame satisfy Kibble <= 0 and conversely every point "
        "with m0 > 0, the Mandelstam constraint, Kibble <= 0 and particle 1 not at rest is the set of invariant masses of an "
        "explicit rest-frame event with energies (m0^2 + m_i^2 - sigma_i)/(2 m0) >= 0 inside the thresholds. Excluded, not "
        "unproved: points where a Kallen factor vanishes exactly (pair at threshold, particle at rest) - the real code evaluates "
        "0/0 there (nan after unfolding; 0 if numbers are substituted before unfolding, recorded in the evidence) and the sum "
        "rule is false for Lean's totalised values. Oracle clauses on the real code in every run: all ordered tuples on float and "
        "50-digit events incl. massless/equal masses and boundary-approaching points; exact rational events incl. points ON the "
        "boundary (|cos| = 1 and angle in {0, pi, -pi} exactly), three substitution routes; identified/renamed mass symbols; "
        "float64 accuracy of every arccos argument against 50 digits in units of a rounding model (limit 32, clean worst 2.4); "
        "sympy/numpy integer indices and call order; the zeta definitions inside a real DPD-aligned HelicityModel (Lambda_c -> p K pi, "
        "reference 1,2,3, with and without stable masses) evaluated on four-momentum arrays."
    ),
    "level_note": (
        "Trusted: Lean kernel + Mathlib (axioms propext, Classical.choice, Quot.sound); the sympy->Lean translator and the "
        "case-table probe (validated each run: Lean Float twin vs numpy on the real lambdified expressions, 100+ definitions; "
        "table vs generic translation by the *_kind_consistent theorems); the recorder that replaces the module-level name "
        "formulate_zeta_angle in helicity/align/dpd.py; Lorentz invariance of the invariant masses (events are taken in the "
        "relevant rest frames; the covariant forms hold in any frame). Lean's total functions: x/0 = 0 and sqrt(negative) = 0, "
        "so the range theorems are trivially true where a Kallen factor is <= 0; the real code returns nan/zoo there (recorded "
        "in the evidence as guard_probes / threshold_probe). Floating-point evaluation of the lambdified code is executed "
        "(oracle, accuracy clause), not modelled; at |cos| = 1 rounding can push the real argument outside [-1,1] (not judged). "
        "The builder path is exercised on one stored reaction (spins 1/2,1/2,0,0: rotated states 0 and 1 only); the other "
        "rotated states are covered through the alignment generator directly."
    ),
}
