"""C19 — Dalitz-plot-decomposition angles (scattering angle, theta-hat, zeta) and their identities.

Tie: T1. All outputs of `formulate_scattering_angle`, `formulate_theta_hat_angle` (16 index
pairs each) and `formulate_zeta_angle` (64 index triples) over {0,1,2,3} are probed on the
working tree on every run: which raise (mapped to an enum), which return 0, `acos(X)` or
`-acos(X)`. Every returned expression is translated twice — the arccos argument X as
`cos<Fam>_<idx>` and the whole expression as `<fam>_<idx>` — into `Gen/C19.lean`; the case table
and index-dispatch functions go to `Gen/C19Table.lean`. The Float twins are validated against
the lambdified real expressions; the oracle (`search`) evaluates the statement of C19 on
physical events, computing every angle geometrically from boosted four-momenta.
"""

from __future__ import annotations

import itertools
import math

from tools.lib import common
from tools.lib.t1 import T1Property
from tools.translate import core

SOURCES = [
    "src/ampform/kinematics/angles.py",
    "src/ampform/kinematics/phasespace.py",
    "src/ampform/helicity/align/dpd.py",
]

PARAMS = ["m_0", "m_1", "m_2", "m_3", "m_12", "m_13", "m_23"]
FAMILIES = [  # (family, Lean prefix of the angle, Lean prefix of the cosine, arity)
    ("theta", "theta", "cosTheta", 2),
    ("thetaHat", "thetaHat", "cosThetaHat", 2),
    ("zeta", "zeta", "cosZeta", 3),
]


def _functions():
    from ampform.kinematics import angles

    return {
        "theta": angles.formulate_scattering_angle,
        "thetaHat": angles.formulate_theta_hat_angle,
        "zeta": angles.formulate_zeta_angle,
    }


def _param_symbols():
    import sympy as sp

    return [sp.Symbol(n, nonnegative=True) for n in PARAMS]


def probe():
    """(family, idx) -> ("err", enum) | ("zero", None, expr) | ("acos", X, expr) |
    ("negAcos", X, expr) | ("other", None, expr) for all index tuples over {0,1,2,3}."""
    import sympy as sp

    fns = _functions()
    out = {}
    for fam, _, _, arity in FAMILIES:
        for idx in itertools.product(range(4), repeat=arity):
            try:
                _sym, expr = fns[fam](*idx)
            except ValueError:
                out[fam, idx] = ("err", "valueError")
                continue
            except NotImplementedError:
                out[fam, idx] = ("err", "notImplementedError")
                continue
            except Exception:  # noqa: BLE001
                out[fam, idx] = ("err", "otherError")
                continue
            expr = sp.sympify(expr)
            if expr == 0:
                out[fam, idx] = ("zero", None, expr)
            elif isinstance(expr, sp.acos):
                out[fam, idx] = ("acos", expr.args[0], expr)
            elif (isinstance(expr, sp.Mul) and len(expr.args) == 2 and expr.args[0] == -1
                  and isinstance(expr.args[1], sp.acos)):
                out[fam, idx] = ("negAcos", expr.args[1].args[0], expr)
            else:
                out[fam, idx] = ("other", None, expr)
    return out


def _name(prefix, idx):
    return prefix + "_" + "_".join(map(str, idx))


def build_definitions():
    import sympy as sp

    from ampform.kinematics import phasespace as ps

    psyms = _param_symbols()
    table = probe()
    x, y, z = sp.symbols("x y z", real=True)
    state = {"cos": None}

    def hook(e, tr):
        c = state["cos"]
        if c is not None and isinstance(e, sp.acos) and e.args[0] == c[1]:
            return ("call", "acos", [("app", c[0], [("sym", p) for p in PARAMS])])
        return None

    tr = core.Translator(classes={ps.Kallen: "Kallen"}, extra=hook)
    defs = [core.Definition("Kallen", ["x", "y", "z"], tr(ps.Kallen(x, y, z).evaluate()))]
    reals = {"Kallen": (ps.Kallen(x, y, z), [x, y, z])}
    allowed = set(psyms)
    for fam, apre, cpre, _ in FAMILIES:
        for (f, idx), ent in table.items():
            if f != fam or ent[0] == "err":
                continue
            kind, X, expr = ent
            extra_syms = expr.free_symbols - allowed
            if extra_syms:
                raise core.Untranslatable(f"{fam}{idx}: symbols outside the mass set: {sorted(map(str, extra_syms))}")
            state["cos"] = None
            if X is not None:
                cname = _name(cpre, idx)
                defs.append(core.Definition(cname, PARAMS, tr(X)))
                reals[cname] = (X, psyms)
                state["cos"] = (cname, X)
            aname = _name(apre, idx)
            defs.append(core.Definition(aname, PARAMS, tr(expr)))
            reals[aname] = (expr, psyms)
            state["cos"] = None
    _write_table(table)
    kinds = {f"{fam}{''.join(map(str, idx))}": (ent[0] if ent[0] != "err" else ent[1])
             for (fam, idx), ent in table.items()}
    facts = {"kinds": kinds}
    return defs, reals, facts


def _write_table(table):
    """Gen/C19Table.lean: the case table as data + index-dispatch functions onto the generated
    angle definitions (imports Gen/C19)."""
    hashes = common.source_blob_hashes(SOURCES)
    header = "sources: " + ", ".join(f"{k}@{v[:10]}" for k, v in hashes.items())
    out = [f"-- GENERATED by /verif/tools/props/C19.py — do not edit. {header}",
           "import Ampverif.Gen.C19", "set_option linter.all false",
           "namespace Ampverif.Gen.C19", "",
           "/-- exception classes of the probed calls -/",
           "inductive Err | valueError | notImplementedError | otherError | outOfRange",
           "  deriving DecidableEq, Repr", "",
           "/-- shape of what a call returns: an exception, `0`, `acos X`, `-acos X`, something else -/",
           "inductive Kind | err (e : Err) | zero | acos | negAcos | other",
           "  deriving DecidableEq, Repr", ""]
    args = " ".join(PARAMS)
    for fam, apre, _, arity in FAMILIES:
        ivars = ["i", "j", "k"][:arity]
        pats = lambda idx: ", ".join(map(str, idx))  # noqa: E731
        out.append(f"def {fam}Kind : " + " → ".join(["Nat"] * arity) + " → Kind")
        for (f, idx), ent in table.items():
            if f != fam:
                continue
            k = f".err .{ent[1]}" if ent[0] == "err" else f".{ent[0]}"
            out.append(f"  | {pats(idx)} => {k}")
        out.append("  | " + ", ".join(["_"] * arity) + " => .err .outOfRange")
        out.append("")
        out.append(f"noncomputable def {fam}Angle ({' '.join(ivars)} : Nat) ({args} : ℝ) : Except Err ℝ :=")
        out.append(f"  match {', '.join(ivars)} with")
        for (f, idx), ent in table.items():
            if f != fam:
                continue
            if ent[0] == "err":
                out.append(f"  | {pats(idx)} => .error .{ent[1]}")
            else:
                out.append(f"  | {pats(idx)} => .ok ({_name(apre, idx)} {args})")
        out.append("  | " + ", ".join(["_"] * arity) + " => .error .outOfRange")
        out.append("")
    out.append("end Ampverif.Gen.C19")
    common.write_if_changed(common.LEAN / "Ampverif/Gen/C19Table.lean", "\n".join(out) + "\n")
