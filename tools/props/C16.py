"""C16 — cached unfolding equals doit() whatever the cache has seen.

run():
  1. `lake build` Props/C16 + axiom audit (C16_safe and the witness theorems about the model);
  2. probe the assumption about pickle used by the model (every strict prefix of a record fails
     to load) on the real records of this run;
  2b. the premise of C16_safe about the key comparison (World.KeyOk) with the real `==` on every
     ordered pair of corpus expressions (violation → broken, the pair goes to the search);
  3. INFER the variant the real code implements (distinguishing probes through the hooks);
     anything but the fixed variant means `C16_safe` does not apply → broken, witnesses replayed;
  4. T2 correspondence: scripted directory histories (pre-populated files, interleaved calls of
     several callers at step granularity, crashes after any chunk of the bytes written) run on the
     real function under a scheduler and on the Lean model; replies compared line by line;
  5. independent oracles on the real function (sequential hook-free stream, every/selected byte
     prefixes, real processes with hash seeds / SIGKILL / death in the middle of a write);
  6. verdict (tools/lib/common.Check).
"""

from __future__ import annotations

import json
import pickle
import traceback

from tools.lib import common

SOURCES = ["src/ampform/sympy/__init__.py", "src/ampform/sympy/_cache.py"]
PROP_MODULES = ["Ampverif.Props.C16"]
FIXED = {"storesKey": True, "checksKey": True, "atomic": True, "tolerant": True, "tempPerCaller": True}
N_HIST = {"quick": 40, "thorough": 400}


# --------------------------------------------------------------------------- helpers


HEADER_WORDS = ("expr", "key", "keyeq", "eq")


def canon(line: str) -> str:
    t = line.split()
    if t and t[0] == "ls":
        return " ".join(["ls", *sorted(t[1:])])
    return line


def run_history_real(H, table, lines, rng, cuts=None, nchunks=4):
    """Execute protocol lines on the real function; returns (replies, excs)."""
    replies, excs = [], []
    with H.RealRunner(table, nchunks=nchunks) as r:
        r.cut_chooser = cuts
        for line in lines:
            if line.split()[0] in HEADER_WORDS:
                continue
            o = r.run_line(line, rng)
            if o is not None:
                replies.append(o)
            for proc in r.procs.values():
                if proc.exc:
                    excs.append(proc.exc)
                    proc.exc = None
    return replies, excs


# --------------------------------------------------------------------------- variant inference


def infer_variant(H, X, chk) -> tuple[dict, dict]:
    """Distinguishing probes on the real code.  Returns (variant, details)."""
    import random

    fam = X.families()
    e0, e1 = fam["breakup_assumptions"][:2]
    table = H.Table([e0, e1])
    table.header(["sha"])
    det: dict = {}
    rng = random.Random(0)
    # trace of a solo call on an empty directory, for two different caller ids
    traces = {}
    written = {}
    for p in (1, 2):
        with H.RealRunner(table) as r:
            r.call(p, "sha", 0)
            for _ in range(20):
                if r.step(p).startswith("idle"):
                    break
            traces[p] = list(r.procs[p].trace)
            final = r.path_of("F/sha/0")
            written[p] = final.read_bytes() if final.exists() else None
            det[f"trace_pid{p}"] = [f"{a}:{b[-14:]}" for a, b in traces[p]]
    final_name = f"{table.real_name('sha', 0)}.pkl"
    ow = [b for a, b in traces[1] if a == "open-w"]
    rep = [b for a, b in traces[1] if a == "replace"]
    atomic = bool(ow) and all(b != final_name for b in ow) and final_name in rep
    ow2 = [b for a, b in traces[2] if a == "open-w"]
    temp_per_caller = (not atomic) or (bool(ow) and bool(ow2) and ow[0] != ow2[0])
    stores_key = False
    if written[1] is not None:
        try:
            obj = pickle.loads(written[1])
            stores_key = isinstance(obj, tuple) and len(obj) == 2 and X.deep_equal(obj[0], e0)
        except Exception:  # noqa: BLE001
            stores_key = False
    det["hooks_reached"] = sorted({a for a, _ in traces[1]})
    # collision probe (hook-free semantics, but run through the runner for the scratch directory)
    lines = ["call 1 sha 0", *["step 1"] * 14, "call 1 sha 1", *["step 1"] * 14]
    replies, excs = run_history_real(H, table, lines, rng)
    rets = [x.split()[1] for x in replies if " ret:" in x]
    det["collision_probe"] = rets
    checks_key = rets == [f"ret:1:0:value:{table.val[0]}", f"ret:1:1:value:{table.val[1]}"]
    # corrupt-file probes
    tol = True
    det["corrupt_probe"] = {}
    own = table.records[0] if stores_key else table.bare[0]
    for label, data in {"empty": b"", "half": own[: len(own) // 2], "garbage": b"garbage",
                        "other-format": table.bare[0] if stores_key else table.records[0]}.items():
        with H.RealRunner(table) as r:
            r.add_raw("F/sha/0", data)
            r.call(3, "sha", 0)
            out = ""
            for _ in range(20):
                out = r.step(3)
                if out.startswith("idle"):
                    break
            det["corrupt_probe"][label] = out.split()[-1]
            if label != "other-format" and "raised" in out:
                tol = False
            if label == "other-format" and stores_key and "raised" in out:
                tol = False
    v = {"storesKey": stores_key, "checksKey": bool(checks_key and stores_key), "atomic": atomic,
         "tolerant": tol, "tempPerCaller": temp_per_caller}
    return v, det


# --------------------------------------------------------------------------- history generation


def gen_history(H, X, rng, fams, idx: int, nchunks: int = 4):
    """Generate one history adaptively while running it on the real function."""
    names = list(fams)
    f1 = rng.choice([n for n in names if len(fams[n]) > 1])
    exprs = rng.sample(fams[f1], k=min(len(fams[f1]), rng.choice([2, 2, 3])))
    if rng.random() < 0.5:
        f2 = rng.choice(names)
        cand = [e for e in fams[f2] if not any(X.deep_equal(e, x) for x in exprs)]
        if cand:
            exprs.append(rng.choice(cand))
    modes = rng.choice([["sha"], ["sha"], ["sha", "seed0"], ["seed7"], ["sha", "seed7", "seed0"]])
    table = H.Table(exprs)
    lines = table.header(modes)
    n = len(exprs)
    used = set()
    nfiles = rng.choice([0, 1, 2, 3, 4])
    kinds = []
    for _ in range(nfiles):
        m = rng.choice(modes)
        e = rng.randrange(n)
        r = rng.random()
        name = (f"F/{m}/{table.name_id(m, e)}" if r < 0.7 else
                f"T/{m}/{table.name_id(m, e)}/{rng.choice([1, 2, 3])}" if r < 0.85 else f"O/{rng.randrange(5)}")
        if name in used:
            continue
        used.add(name)
        j = rng.randrange(n)
        content = rng.choice([
            f"new/{j}/{table.val[j]}/{rng.randrange(5)}", f"new/{j}/{table.val[j]}/4", f"new/{j}/{table.val[j]}/{rng.randrange(1, 4)}",
            f"old/{table.val[j]}/{rng.randrange(4)}", f"old/{table.val[j]}/3",
            f"junk/{rng.randrange(6)}", "empty", f"tail/{j}/{table.val[j]}/1"])
        kinds.append(content.split("/")[0] + ("-trunc" if content.startswith("new") and not content.endswith("/4") else ""))
        lines.append(f"file {name} {content}")
    cut_log = []

    def cuts(nbytes):
        c = sorted(rng.sample(range(1, nbytes), nchunks - 1)) if nbytes > 4 else list(range(1, nchunks))
        cut_log.append((nbytes, c))
        return c

    replies, excs = [], []
    procs = [1, 2, 3][: rng.choice([1, 2, 2, 3])]
    stats = {"calls": 0, "crashes": 0, "malformed": 0, "max_busy": 0, "returns": 0}
    with H.RealRunner(table, nchunks=nchunks) as r:
        r.cut_chooser = cuts
        file_rng = rng

        def do(line):
            lines.append(line)
            try:
                o = r.run_line(line, file_rng)
            except H.SchedulerStuck as e:
                e.lines = [x for x in lines if not x.startswith(("expr", "key", "eq "))]
                raise
            if o is not None:
                replies.append(o)
                if " ret:" in o:
                    stats["returns"] += 1
            for proc in r.procs.values():
                if proc.exc:
                    excs.append(proc.exc)
                    proc.exc = None

        for line in [x for x in lines if x.startswith("file")]:
            r.run_line(line, file_rng)

        def busy():
            return [p for p in procs if p in r.procs and r.procs[p].at != "idle"]

        for _ in range(rng.randrange(15, 55)):
            b = busy()
            idle = [p for p in procs if p not in b]
            stats["max_busy"] = max(stats["max_busy"], len(b))
            x = rng.random()
            if x < 0.04:
                stats["malformed"] += 1
                if b and rng.random() < 0.5:
                    do(f"call {rng.choice(b)} {rng.choice(modes)} {rng.randrange(n)}")
                elif idle:
                    do(rng.choice([f"step {rng.choice(idle)}", f"crash {rng.choice(idle)}"]))
            elif x < 0.10 and b:
                stats["crashes"] += 1
                do(f"crash {rng.choice(b)}")
            elif idle and (not b or x < 0.30):
                stats["calls"] += 1
                do(f"call {rng.choice(idle)} {rng.choice(modes)} {rng.randrange(n)}")
            elif b:
                do(f"step {rng.choice(b)}")
            if x > 0.97:
                do("ls")
        for p in busy():
            for _ in range(16):
                do(f"step {p}")
                if r.procs[p].at == "idle":
                    break
        do("ls")
        for e in range(n):
            m = rng.choice(modes)
            do(f"call 9 {m} {e}")
            stats["calls"] += 1
            for _ in range(16):
                do("step 9")
                if r.procs[9].at == "idle":
                    break
        do("ls")
    meta = {"index": idx, "family": f1, "n_exprs": n, "modes": modes, "files": kinds, "procs": len(procs),
            "cuts": cut_log[:4], **stats}
    return table, lines, replies, excs, meta


def crash_byte_histories(H, X, rng, fams, every_byte: bool, nchunks: int = 4):
    """A caller dies after exactly k bytes of its record (k = 0 … n), then callers with the same
    and with another id call again.  Yields (table, lines, cuts, k, n)."""
    for fam in ("single_breakup", "pick_larger") if every_byte else ("pick_larger",):
        e = fams[fam][0]
        table = H.Table([e])
        hdr = table.header(["sha"])
        n = len(table.records[0] if nchunks == 4 else table.bare[0])
        ks = range(n + 1) if every_byte else sorted({0, 1, 2, n // 3, n // 2, n - 2, n - 1, n, *[rng.randrange(n) for _ in range(6)]})
        for k in ks:
            if k == 0:
                j, cuts = 0, None
            elif k >= n:
                j, cuts = nchunks, None
            else:
                pts = {k}
                while len(pts) < nchunks - 1:
                    pts.add(rng.randrange(1, n))
                c = sorted(pts)
                j = c.index(k) + 1
                cuts = (lambda c: (lambda nbytes: c))(c)
            # call; started->willCompute; open; j chunk writes; crash
            lines = [*hdr, "call 1 sha 0", "step 1", "step 1", *["step 1"] * j]
            if k >= n:
                lines += rng.choice([[], ["step 1"]])  # die before close, or after close before the rename
            lines += ["crash 1", "ls", "call 2 sha 0", *["step 2"] * 12, "ls", "call 1 sha 0", *["step 1"] * 12, "ls"]
            yield table, lines, cuts, k, n


# --------------------------------------------------------------------------- the property object


class C16Property:
    prop_id = "C16"

    def run(self, tier: str, seed: int) -> int:  # noqa: C901, PLR0912, PLR0915
        chk = common.Check("C16", tier, seed)
        common.use_repo_source()
        from tools.corr import C16_exprs as X
        from tools.corr import C16_harness as H
        from tools.search import C16 as S

        H.quiet_logging()
        import time

        phases: dict[str, float] = {}
        t_last = [time.time()]

        def phase(name):
            now = time.time()
            phases[name] = round(now - t_last[0], 1)
            t_last[0] = now
            chk.info("phase_seconds", phases)

        chk.info("source_blobs", common.source_blob_hashes(SOURCES))
        rng = common.rng_for("C16", seed, "corr")

        # --- 1. proofs
        res = common.prove("C16", PROP_MODULES)
        chk.record_proof(res, "cd lean && lake build Ampverif.Props.C16 && lake env lean Ampverif/Audit/C16.lean")
        if res["failed"]:
            chk.note("proof obligations not discharged: " + "; ".join(f"{k}: {v[:160]}" for k, v in list(res["failed"].items())[:5]))
        if tier == "thorough":
            self.leanchecker(chk)

        phase("proofs")
        fams = X.families()
        failing: list[tuple[dict, dict]] = []  # (signature, replay)

        # --- 2. pickle assumption probe
        try:
            self.probe_pickle(chk, X, fams)
        except Exception as e:  # noqa: BLE001
            chk.broken_correspondence("pickle-prefix-assumption", "".join(traceback.format_exception_only(type(e), e))[-600:])

        # --- 3. variant
        variant = dict(FIXED)
        try:
            variant, det = infer_variant(H, X, chk)
            chk.info("inferred_variant", variant)
            chk.info("variant_probes", det)
            if variant != FIXED:
                off = [k for k in FIXED if variant[k] != FIXED[k]]
                chk.broken_correspondence(
                    "variant", {"inferred": variant, "unsound_switches": off,
                                "meaning": "the real code does not implement the variant for which C16_safe is proved; "
                                           "the Lean witness theorems for these switches apply", "probes": det})
        except common.InfraError:
            raise
        except Exception as e:  # noqa: BLE001
            chk.broken_correspondence("variant-inference", "".join(traceback.format_exception(type(e), e, e.__traceback__))[-900:])

        phase("pickle probe + variant inference")
        # --- 3b. the premise of C16_safe about the key comparison (World.KeyOk), on the real `==`
        try:
            self.key_equality_obligation(chk, X, S, fams, failing)
        except common.InfraError:
            raise
        except Exception as e:  # noqa: BLE001
            chk.broken_correspondence("key-equality-obligation", "".join(traceback.format_exception(type(e), e, e.__traceback__))[-900:])
        phase("key-equality obligation")
        # --- 4. correspondence
        try:
            self.correspondence(chk, H, X, rng, fams, variant, tier, failing)
        except common.InfraError:
            raise
        except common.LeanRunError as e:
            chk.broken_correspondence("lean-driver", str(e)[:800])
        except Exception as e:  # noqa: BLE001
            chk.broken_correspondence("harness", "".join(traceback.format_exception(type(e), e, e.__traceback__))[-1200:])

        phase("correspondence")
        # --- 5. independent oracles (always; deeper when something broke)
        deep = bool(chk.broken) or tier == "thorough"
        srng = common.rng_for("C16", seed, "search")
        try:
            extra = set(X.callable_families()) - {"width_bound_methods", "rule_callables"}
            wide = fams if tier == "thorough" else {k: v for k, v in fams.items() if k not in extra}  # broken in quick: bounded
            sel = wide if deep else {k: fams[k] for k in ("width_phsp", "breakup_assumptions", "pick_larger", "single_kallen",
                                                          "odd_names_assumptions", "odd_names", "width_named",
                                                          "width_bound_methods", "rule_callables")}
            for f in S.sequential(chk, srng, None if deep else 12, sel, modes=("sha", "seed0", "seed424242") if deep else ("sha", "seed0")):
                failing.append(({"class": f["what"]}, {"input": f}))
        except common.InfraError:
            raise
        except Exception as e:  # noqa: BLE001
            failing.append(({"class": "oracle crashed"}, {"input": {"what": "the sequential oracle itself failed", "error": "".join(traceback.format_exception(type(e), e, e.__traceback__))[-1200:]}}))
        try:
            sel1 = {k: fams[k] for k in (fams if deep else ("width_phsp", "breakup_assumptions", "pick_larger", "single_kallen",
                                                            "odd_names_assumptions", "width_named",
                                                            "width_partials", "width_classmethods", "rule_bound_methods"))}
            for f in S.one_process_histories(chk, srng, sel1, modes=("sha", "seed0")):
                failing.append(({"class": f["what"]}, {"input": f}))
            for f in S.pair_histories(chk, srng, X.callable_families()):
                failing.append(({"class": f["what"]}, {"input": f}))
            dfails, dinfo = S.default_directory(chk)
            chk.info("default_directory", dinfo)
            for f in dfails:
                failing.append(({"class": f["what"]}, {"input": f}))
        except common.InfraError:
            raise
        except Exception as e:  # noqa: BLE001
            failing.append(({"class": "oracle crashed"}, {"input": {"what": "the one-process / default-directory oracle itself failed", "error": "".join(traceback.format_exception(type(e), e, e.__traceback__))[-1200:]}}))
        phase("sequential oracle")
        if variant != FIXED:
            try:
                self.witness_replays(chk, H, X, variant, failing)
            except common.InfraError:
                raise
            except Exception as e:  # noqa: BLE001
                chk.note("witness replay failed: " + "".join(traceback.format_exception_only(type(e), e))[-300:])
        phase("witness replays")
        for f in S.processes(chk, srng, "thorough" if deep else "quick"):
            failing.append(({"class": f["what"]}, {"input": f}))
        phase("real processes")
        try:
            obs = S.outside_model_observations()
            obs.append(self.same_pid_observation(H, X))
            chk.info("outside_model_observations", obs)
        except common.InfraError:
            raise
        except Exception as e:  # noqa: BLE001
            chk.info("outside_model_observations", f"probe failed: {e!r}")

        # --- 6. verdict
        seen = set()
        for sig, rep in failing:
            if sig["class"] in seen:
                continue
            seen.add(sig["class"])
            if len(seen) > 4:
                break
            chk.failing_input(sig, {**rep, "broken": chk.broken[:3], "inferred_variant": variant})
        if chk.broken and not failing:
            for b in chk.broken:
                chk.unexplained(b.get("theorem") or b.get("what"), b)
        chk.coverage["rule"] = (
            "evaluations = protocol operations executed on the real function under the scheduler (call/step/crash/ls) "
            "+ oracle calls (sequential stream, real-process calls); distinct_nontrivial counts distinct "
            "(history text) with >= 2 calls and at least one of {crash, >= 2 callers inside a call at once, a "
            "pre-populated corrupt or colliding file}, plus distinct oracle cases (family, mode, file kind / prefix length)")
        chk.coverage["trusted_base"] = [
            "Lean 4.33 kernel (core library only; axioms: see axioms_reported)",
            "hand-written model lean/Ampverif/Model/C16Cache.lean, tied by the line-protocol correspondence of this run",
            "tools/corr/C16_harness.py (scheduler, hooks on open/Path.exists/pickle.load/os.replace/os.getpid, canonicalisers)",
            "executed, not modelled: pickle's byte format, SymPy doit/==, CPython hash, the OS (rename atomicity, "
            "a reader keeps the inode it opened, write ordering)",
        ]
        chk.assumptions += ASSUMPTIONS
        return chk.finish()

    # ------------------------------------------------------------------
    def leanchecker(self, chk):
        import subprocess

        try:
            p = subprocess.run(["lake", "env", "leanchecker", "Ampverif.Model.C16Cache", "Ampverif.Lemmas.C16Inv", "Ampverif.Props.C16"],
                               cwd=common.LEAN, capture_output=True, text=True, timeout=600)
        except FileNotFoundError:
            chk.info("leanchecker", "not available")
            return
        except subprocess.TimeoutExpired as e:
            raise common.InfraError("leanchecker timed out") from e
        chk.info("leanchecker", "ok" if p.returncode == 0 else (p.stdout + p.stderr)[-400:])
        if p.returncode != 0 and "unknown" not in (p.stdout + p.stderr).lower():
            chk.broken.append({"kind": "proof", "theorem": "<leanchecker>", "detail": (p.stdout + p.stderr)[-400:]})

    def key_equality_obligation(self, chk, X, S, fams, failing):
        """The premise `World.KeyOk` of C16_safe, with the REAL key comparison: for every ordered pair
        (a, b) of corpus expressions, `a == b` (same process) or `pickle-round-trip(a) == b` (the stored
        key meeting a request, as perform_cached_doit evaluates it) must imply that a.doit() and
        b.doit() are structurally identical.  `==`/`hash` of @unevaluated expressions are decided by
        the decorator's _hashable_content/_get_hashable_object: they are code under test, not a given.
        A violated premise = broken correspondence (C16_safe does not apply to this tree;
        C16_witness_key_equality is the model's counterexample) → the two expressions go to the
        search on the real function."""
        import itertools
        import shutil
        import tempfile
        from pathlib import Path

        corpus = []
        groups = [("verdict", {**fams, **X.unpicklable_callable_families()}), ("observation", X.known_confusion_families())]
        for status, g in groups:
            for fam, exprs in g.items():
                for i, e in enumerate(exprs):
                    try:
                        stored = pickle.loads(pickle.dumps(e))
                    except Exception:  # noqa: BLE001
                        stored = None
                    corpus.append({"status": status, "family": fam, "index": i, "expr": e, "doit": e.doit(), "stored": stored})
        st = {"expressions": len(corpus), "ordered_pairs": 0, "equal_direct": 0, "equal_stored_vs_request": 0,
              "equal_hash_different_doit": 0, "equal_str_different_doit": 0, "unpicklable": sum(c["stored"] is None for c in corpus),
              "stored_key_not_equal_to_itself": sorted({c["family"] for c in corpus if c["stored"] is not None and not c["stored"] == c["expr"]}),
              "violations": 0}
        violations, observations = [], []
        for a, b in itertools.permutations(corpus, 2):
            st["ordered_pairs"] += 1
            direct = bool(a["expr"] == b["expr"])
            stored = bool(a["stored"] == b["expr"]) if a["stored"] is not None else False
            st["equal_direct"] += direct
            st["equal_stored_vs_request"] += stored
            near = a["family"] == b["family"]
            same = None
            if direct or stored or near:
                same = X.deep_equal(a["doit"], b["doit"])
                if near and not same:
                    st["equal_str_different_doit"] += str(a["expr"]) == str(b["expr"])
                    st["equal_hash_different_doit"] += hash(a["expr"]) == hash(b["expr"])
            chk.count(("keyeq", a["family"], a["index"], b["family"], b["index"]) if near else None)
            if (direct or stored) and not same:
                rec = {"a": f"{a['family']}[{a['index']}]", "b": f"{b['family']}[{b['index']}]", "str_a": str(a["expr"])[:120],
                       "str_b": str(b["expr"])[:120], "a == b": direct, "unpickled(a) == b": stored,
                       "hash(a) == hash(b)": hash(a["expr"]) == hash(b["expr"]),
                       "a.doit()": str(a["doit"])[:160], "b.doit()": str(b["doit"])[:160]}
                if "observation" in (a["status"], b["status"]):
                    observations.append({**rec, "known_finding": "C10: a class is represented by its qualified name "
                                         "(_get_hashable_object); two classes of one module.qualname are identified"})
                else:
                    st["violations"] += 1
                    violations.append((rec, a, b))
        chk.info("key_equality_obligation", st)
        chk.info("observations", observations[:4])
        if not violations:
            return
        for rec, _, _ in violations[:3]:
            chk.broken_correspondence(
                "C16_safe premise World.KeyOk", {
                    "obligation": "a == b (or stored key == request) implies a.doit() identical to b.doit()", **rec,
                    "meaning": "the key comparison of perform_cached_doit identifies two expressions with different unfoldings; "
                               "C16_safe does not apply (Lean: C16_witness_key_equality)", "violations_total": len(violations)})
        # search on the real function with the violating pairs (one process; later processes: S.pair_histories)
        from ampform.sympy import perform_cached_doit as fn
        from tools.corr.C16_harness import hash_mode

        root = Path(tempfile.mkdtemp(prefix="c16keq_"))
        try:
            done = set()
            for rec, a, b in violations:
                if a["stored"] is None or b["stored"] is None or (a["family"], b["family"]) in done or len(done) >= 4:
                    continue
                done.add((a["family"], b["family"]))
                for mode in ("sha", "seed0"):
                    d = Path(tempfile.mkdtemp(prefix="d", dir=root))
                    with hash_mode(mode):
                        for step, c in enumerate((a, b, a, b)):
                            res = S._check_call(fn, c["expr"], c["doit"], d)
                            if res and res.get("observed") != "skipped":
                                failing.append(({"class": "key comparison identifies expressions with different unfoldings: the second one is served the first one's record"},
                                                {"input": {"what": "a then b then a then b through one fresh directory, one process",
                                                           "pair": rec, "mode": mode, "failed_step": step, **res,
                                                           "lean_witness": "Ampverif.Props.C16.C16_witness_key_equality"}}))
                                break
        finally:
            shutil.rmtree(root, ignore_errors=True)

    def probe_pickle(self, chk, X, fams):
        """Model assumption: a strict prefix of a record never loads; trailing bytes are ignored."""
        n = bad = 0
        kinds: dict[str, int] = {}
        for name, exprs in fams.items():
            for e in exprs:
                rec = pickle.dumps((e, e.doit()))
                for k in range(len(rec)):
                    n += 1
                    try:
                        pickle.loads(rec[:k])
                        bad += 1
                    except Exception as ex:  # noqa: BLE001
                        kinds[type(ex).__name__] = kinds.get(type(ex).__name__, 0) + 1
                obj = pickle.loads(rec + b"\x00junk")
                if not (isinstance(obj, tuple) and X.deep_equal(obj[0], e)):
                    bad += 1
        chk.info("pickle_prefix_probe", {"prefixes_tried": n, "prefixes_that_loaded": bad, "exceptions": kinds})
        chk.count(None, n)
        if bad:
            chk.broken_correspondence("pickle-prefix-assumption", f"{bad} strict prefixes of real records load without error")

    def correspondence(self, chk, H, X, rng, fams, variant, tier, failing):
        nchunks = 4 if variant["storesKey"] else 3
        batch_hist, batch_real, batch_meta = [], [], []
        dist = {"histories": 0, "ops": 0, "returns": 0, "crashes": 0, "malformed_ops": 0, "overlapping": 0,
                "files": {}, "modes": {}, "families": {}}
        # a) random interleaved histories
        for i in range(N_HIST[tier]):
            try:
                table, lines, replies, excs, meta = gen_history(H, X, rng, fams, i, nchunks)
            except H.SchedulerStuck as e:
                failing.append(({"class": "scripted history: a call got stuck"},
                                {"input": {"what": "a call of the real perform_cached_doit did not advance under the scheduler",
                                           "history_index": i, "seed_stream": "corr", "error": str(e),
                                           "partial_history": getattr(e, "lines", None)}}))
                chk.broken_correspondence("history", {"kind": "random", "index": i, "error": str(e)})
                break
            batch_hist.append(lines)
            batch_real.append(replies)
            batch_meta.append({"kind": "random", **meta, "table": table, "excs": excs})
            dist["histories"] += 1
            dist["returns"] += meta["returns"]
            dist["crashes"] += meta["crashes"]
            dist["malformed_ops"] += meta["malformed"]
            dist["overlapping"] += meta["max_busy"] >= 2
            for k in meta["files"]:
                dist["files"][k] = dist["files"].get(k, 0) + 1
            dist["modes"]["+".join(meta["modes"])] = dist["modes"].get("+".join(meta["modes"]), 0) + 1
            dist["families"][meta["family"]] = dist["families"].get(meta["family"], 0) + 1
            nontrivial = meta["calls"] >= 2 and (meta["crashes"] or meta["max_busy"] >= 2 or any(
                k in ("new-trunc", "junk", "empty", "old", "tail", "new") for k in meta["files"]))
            nops = sum(1 for x in lines if x.split()[0] in ("call", "step", "crash", "ls"))
            dist["ops"] += nops
            chk.count(("hist", "\n".join(lines)) if nontrivial else None, nops)
            if i < 2:
                chk.sample({"history": [x for x in lines if not x.startswith(("expr", "key", "eq "))][:40], "real_replies": replies[:40],
                            "expressions": [str(e) for e in table.exprs], "meta": {k: v for k, v in meta.items()}})
        # b) a caller dies after exactly k bytes
        crash_ks = []
        for table, lines, cuts, k, n in crash_byte_histories(H, X, rng, fams, tier == "thorough", nchunks):
            try:
                replies, excs = run_history_real(H, table, lines, rng, cuts=cuts, nchunks=nchunks)
            except H.SchedulerStuck as e:
                failing.append(({"class": "scripted history: a call got stuck"},
                                {"input": {"what": f"a caller died after {k} of {n} bytes; a later call did not advance",
                                           "history": [x for x in lines if not x.startswith(("expr", "key", "eq "))], "error": str(e)}}))
                chk.broken_correspondence("history", {"kind": f"crash after {k} bytes", "error": str(e)})
                break
            batch_hist.append(lines)
            batch_real.append(replies)
            batch_meta.append({"kind": f"crash after {k} of {n} bytes", "table": table, "excs": excs, "index": len(batch_hist)})
            crash_ks.append(k)
            nops = sum(1 for x in lines if x.split()[0] in ("call", "step", "crash", "ls"))
            dist["ops"] += nops
            chk.count(("crash-byte", n, k), nops)
        dist["crash_after_k_bytes"] = {"count": len(crash_ks), "min": min(crash_ks), "max": max(crash_ks)}
        chk.info("history_distribution", dist)
        # c) the oracle on what the real calls returned
        for lines, replies, meta in zip(batch_hist, batch_real, batch_meta):
            table = meta["table"]
            for rep in replies:
                if " ret:" not in rep:
                    continue
                _, p, e, *out = rep.split()[1].split(":")
                want = f"value:{table.val[int(e)]}"
                if ":".join(out) != want:
                    failing.append((
                        {"class": "scripted history: a call " + ("raised" if out == ["raised"] else "returned something else than doit(expr)")},
                        {"input": {"what": "scripted directory history on the real perform_cached_doit (scheduler)",
                                   "kind": meta["kind"], "expressions": [str(x) for x in table.exprs],
                                   "expression_assumptions": [sorted((str(s), sorted(k for k, v in s.assumptions0.items() if v)) for s in x.free_symbols) for x in table.exprs],
                                   "history": [x for x in lines if not x.startswith(("expr", "key", "eq "))],
                                   "reply": rep, "expected": want, "exceptions": meta["excs"][:3]}}))
                    break
        # d) the model on the same histories
        model = H.run_model(variant, batch_hist)
        mism = 0
        for lines, real, mod, meta in zip(batch_hist, batch_real, model, batch_meta):
            a = [canon(x) for x in real]
            b = [canon(x) for x in mod]
            if a != b:
                mism += 1
                if mism <= 3:
                    i = next((j for j, (x, y) in enumerate(zip(a, b)) if x != y), min(len(a), len(b)))
                    ops = [x for x in lines if x.split()[0] in ("call", "step", "crash", "ls")]
                    chk.broken_correspondence("history", {
                        "kind": meta["kind"], "first_difference_at_op": i, "op": ops[i] if i < len(ops) else None,
                        "real": a[i] if i < len(a) else None, "model": b[i] if i < len(b) else None,
                        "history": [x for x in lines if not x.startswith(("expr", "key", "eq "))][: i + 3],
                        "expressions": [str(x) for x in meta["table"].exprs]})
        chk.info("histories_compared", len(batch_hist))
        chk.info("history_mismatches", mism)

    def same_pid_observation(self, H, X) -> dict:
        """Two callers with the SAME os.getpid() (two threads of one process) on the real code,
        interleaved as in C16_witness_shared_temp; compared with the model under tempPerCaller=0.
        Outside the property (it speaks of processes): recorded, no verdict."""
        import random

        e = X.families()["single_kallen"][0]
        table = H.Table([e])
        hdr = table.header(["sha"])
        ops = ["call 1 sha 0", "call 2 sha 0", *["step 1"] * 7, *["step 2"] * 7, "step 1", "step 2", "step 1", "step 2", "ls"]
        replies, excs = [], []
        with H.RealRunner(table) as r:
            r.force_pid = 4242
            for line in ops:
                if line == "ls":
                    replies.append("ls " + " ".join(sorted(__import__("os").listdir(r.dir))).replace(table.real_name("sha", 0), "<hash>"))
                    continue
                replies.append(r.run_line(line, random.Random(0)))
                for proc in r.procs.values():
                    if proc.exc:
                        excs.append(proc.exc.replace(str(r.dir), "<dir>").replace(table.real_name("sha", 0), "<hash>"))
                        proc.exc = None
        model = H.run_model({**FIXED, "tempPerCaller": False}, [[*hdr, *ops[:-1]]])[0]
        return {"directory_entry": "none (two callers sharing one os.getpid(): threads of one process)",
                "history": ops, "real_replies": replies[-6:], "exceptions": excs,
                "model_replies_tempPerCaller_0": model[-5:],
                "real_agrees_with_model": [x for x in replies[:-1]] == model}

    def witness_replays(self, chk, H, X, variant, failing):
        """Replay the Lean witnesses of the unsound switches on the real code."""
        import random

        rng = random.Random(1)
        fams = X.families()
        nch = 4 if variant["storesKey"] else 3
        if not variant["atomic"]:
            # two writers of string-equal expressions, aligned pickles: C16_witness_race on real bytes
            e1, e2 = fams["pick_larger"]
            table = H.Table([e1, e2])
            hdr = table.header(["sha"])
            p1, p2 = (table.records if variant["storesKey"] else table.bare)[:2]
            cut = None
            if variant["storesKey"] and len(p1) == len(p2):
                for c in range(len(p1) - 2, 2, -1):
                    try:
                        k, v = pickle.loads(p1[:c] + p2[c:])
                    except Exception:  # noqa: BLE001
                        continue
                    if X.deep_equal(k, e1) and not X.deep_equal(v, table.doits[0]):
                        cut = c
                        break
            if cut is not None:
                cuts = lambda n: [2, cut, n - 1]  # noqa: E731
                lines = [*hdr, "call 1 sha 0", "call 2 sha 1", "step 1", "step 2", "step 1", "step 2",
                         "step 2", "step 2", "step 1", "step 1", "step 1", "step 2", "step 1", "step 2", "step 1", "step 2",
                         "ls", "call 3 sha 0", *["step 3"] * 12]
                replies, excs = run_history_real(H, table, lines, rng, cuts=cuts, nchunks=nch)
                last = [x for x in replies if " ret:3:" in x]
                chk.info("race_witness_replay", {"cut": cut, "replies": replies[-16:]})
                if last and not last[0].endswith(f"value:{table.val[0]}"):
                    failing.append(({"class": "two concurrent writers leave a record (expr A, doit(expr B)) under the shared name"},
                                    {"input": {"what": "Lean witness C16_witness_race replayed on the real function: PickLarger(x>0,y<0) and "
                                               "PickLarger(x<0,y>0) print identically; writes interleaved at byte " + str(cut),
                                               "history": lines[len(hdr):], "reply": last[0], "expected": f"value:{table.val[0]}",
                                               "lean_witness": "Ampverif.Props.C16.C16_witness_race"}}))
        if not variant["tempPerCaller"]:
            e = fams["single_kallen"][0]
            table = H.Table([e])
            hdr = table.header(["sha"])
            lines = [*hdr, "call 1 sha 0", "call 2 sha 0", *["step 1"] * 7, *["step 2"] * 7, "step 1", "step 2", "step 1", "step 2"]
            replies, excs = run_history_real(H, table, lines, rng, nchunks=nch)
            bad = [x for x in replies if " ret:" in x and not x.endswith(f"value:{table.val[0]}")]
            chk.info("shared_temp_witness_replay", {"replies": replies[-8:], "exceptions": excs})
            if bad:
                failing.append(({"class": "two concurrent callers share the temp file name"},
                                {"input": {"what": "Lean witness C16_witness_shared_temp replayed on the real function (the temp name "
                                           "does not depend on the caller)", "history": lines[len(hdr):], "reply": bad[0],
                                           "exceptions": excs, "lean_witness": "Ampverif.Props.C16.C16_witness_shared_temp"}}))


ASSUMPTIONS = [
    "OS: os.replace is atomic (the final name points either to the old or to the new inode, never to nothing/partial)",
    "OS: a reader that has opened a file keeps reading that inode after the name is re-pointed",
    "OS: a file write is visible to readers as a prefix-extension in write order (model: token-by-token; real buffered I/O shows a subset of these states)",
    "pickle: every strict prefix of pickle.dumps((expr, result)) fails to load with an Exception; bytes after STOP are ignored (probed on every record of the run)",
    "callers that run concurrently have distinct os.getpid() (threads of one process and processes in different pid namespaces sharing the directory do NOT: C16_witness_shared_temp)",
    "expr.doit() is deterministic: executed, not modelled. The key comparison `cached_key == expr` (SymPy == through the decorator's "
    "_hashable_content) is a parameter of the model (World.keyEq) tabulated from the real == per history; the premise of C16_safe about it "
    "(a == b implies equal unfoldings) is an obligation checked on every ordered pair of corpus expressions on every run",
    "directory entries are regular files or absent (a sub-directory under the cache/temp file name makes the function raise: recorded as outside_model_observations)",
    "the directory holds only 'honest' files: nothing that loads as (expr, X) with X != expr.doit() was planted",
]

PROP = C16Property()

MANIFEST = {
    "technique": "Lean 4 theorems about a hand-written executable small-step model of the cache protocol (POSIX-like directory, "
                 "interleaved processes, crash points), tied to the source by a differential line-protocol correspondence on the real "
                 "function under a deterministic scheduler with injected crashes; variant inferred from the real code; independent oracles",
    "design_ref": "DESIGN.md §3 C16",
    "text": (
        "Proof about a model + checked tie. Model (lean/Ampverif/Model/C16Cache.lean): perform_cached_doit as a small-step process "
        "(exists?, open, load+compare, doit+open temp, write token by token, close, os.replace, return) over a directory with names, inodes "
        "and contents; any number of processes interleaved at step granularity; crash = drop a process at any step. "
        "The key comparison `cached_key == expr` is a PARAMETER of the model (World.keyEq: SymPy == as decided by the @unevaluated decorator's "
        "_hashable_content; neither reflexive nor injective in general), and C16_safe carries the premise World.KeyOk (keyEq a b -> doit a = doit b) "
        "explicitly; C16_keyOk_identity, C16_safe_noninjective (a non-injective equality that satisfies it) and the decide-witness "
        "C16_witness_key_equality (a non-injective equality that violates it: every switch fixed, the second expression is served the first one's "
        "record, in the same history or from a directory left behind). "
        "Proved for ALL worlds (any doit, any key equality with KeyOk, any file-name function: sha256(str) with non-injective str and seeded hash are instances), all "
        "admissible initial directories (truncated records, garbage, old-format files, records of other expressions, stale temp files, under "
        "any names) and ALL histories of unbounded length and any number of processes (induction over the operation list): C16_safe (every "
        "call that returns, returns doit(expr); none raises), C16_never_raises, C16_directory_invariant (every file that loads as (e,x) has "
        "x = doit e), C16_calls_return (a call ends within 10 own steps, so the statement is not vacuous). Eight kernel-checked (decide) "
        "witnesses show each of the five switches is necessary: no key comparison / no stored key (collision of string-equal expressions), "
        "intolerant load (truncated, old format), non-atomic write (two writers leave (expr A, doit B); legacy reader/writer race; crash), "
        "temp name shared between callers. Tie: on every run the variant is inferred from the real code by probes, then scripted histories "
        "(pre-populated directories, 1-3 interleaved callers, crashes after any chunk, PYTHONHASHSEED unset/set per call) run on the REAL "
        "function under a scheduler and on the model, replies compared line by line, the model's keyEq being the table of the REAL "
        "`unpickled stored key == request` of that history's expressions; the premise KeyOk is an obligation evaluated with the real == on every "
        "ordered pair of corpus expressions (a == b or unpickled(a) == b must imply structurally identical doit(); the verdict's notion of identity "
        "is structural and does not use ==/hash of @unevaluated objects) — a violation is a broken correspondence and sends the pair to the search. "
        "Corpus: expressions printing identically that differ in symbol assumptions, in a class-valued attribute, or in a FUNCTION-valued "
        "attribute (bound methods of different instances, classmethods bound to different subclasses, functools.partial, callable instances, "
        "module functions; lambdas/closures of one scope in the obligation only — pickle cannot store them; classes of one qualified name are "
        "identified by the unchanged library: known finding C10, recorded under observations, outside this verdict); every ordered pair A,B of "
        "the callable families runs A,B,A,B through one directory in one process and A | B,A in a first and a LATER process under "
        "PYTHONHASHSEED unset/0/424242; a caller dying after exactly k bytes for a spread of k "
        "(quick) / every k (thorough). Independent oracles on the real function judge the RETURNED object (structural identity incl. symbol "
        "assumptions and non-SymPy attributes, srepr/hash/free symbols, unfolding again, value at a rational point, subs, pickle round trip) "
        "and that the argument is untouched: sequences of calls in ONE process (repeats after a confirmed disk hit, string-equal expressions "
        "alternating, three directories, file deleted/replaced behind the function — an in-memory layer would show), cache_directory=None "
        "resolved through XDG_CACHE_HOME/HOME inside scratch space, symbol names with path separators/newlines/unicode and a 2 kB str, "
        "both key functions (sha256(str) and the seeded hash) in fresh interpreters with PYTHONHASHSEED unset/0/424242, every call under a "
        "wall-clock cap (a stuck call is a failing input). Not proved, only executed: pickle format, SymPy equality/doit, the OS assumptions "
        "listed in level_note."
    ),
    "level_note": (
        "Trusted: Lean kernel (core only; axioms propext, Quot.sound); the hand-written model and the Python scheduler/hooks "
        "(open, Path.exists, pickle.load, os.replace, os.getpid are replaced from the harness process; /repo is not edited). "
        "Assumed about the OS: os.replace is atomic; a reader that opened the old file keeps reading that inode; writes become visible as "
        "prefix extensions in order (the model is write-through token by token, real buffered I/O shows a subset of those states). "
        "Assumed about pickle and probed on every run for every record used: every strict prefix of pickle.dumps((expr,result)) raises "
        "(EOFError/UnpicklingError) on load, bytes after STOP are ignored. Temp names contain os.getpid(): unique among concurrently running "
        "processes of one pid namespace only — two THREADS of one process (or containers sharing the directory with equal pids) share the temp "
        "name; the source then can raise FileNotFoundError at the second os.replace and lets one thread write into the file the other already "
        "published (C16_witness_shared_temp; reproduced on the real code by the scheduler when pids are forced equal; recorded, outside the "
        "property's 'several processes'). A sub-directory named like the cache or temp file makes the function raise IsADirectoryError "
        "(no history of calls produces it; recorded in evidence as outside_model_observations, as are: an expression that pickle cannot serialise "
        "makes the call raise and leaves a temp file; a regular file in place of the cache directory raises FileExistsError; a read-only "
        "directory cannot be probed as root). Files planted with a forged record "
        "(expr, wrong result) are outside the claim. In-process crashes are simulated by a BaseException at a pause point; real deaths "
        "(os._exit in the middle of a write, SIGKILL) and real interpreter hash seeds are exercised with real processes (a few in quick, "
        "many in thorough)."
    ),
}
